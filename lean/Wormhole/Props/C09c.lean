/-
  C09, second clause — "a crash right after a frame loses nothing acknowledged"
  (DESIGN §6, corollary `C09_ack_durable`: the state restored by a crash immediately after a frame
  equals the state the server was acting on when it sent it).

  Props/C09.lean / C09b.lean prove that every frame carries `synced = true`.  This file says what
  that is worth for a crash, frame by frame, INSIDE a step:

  1. `send_flag`: the flag of a frame is `decide (db = disk) && decide (udb = udisk)` of the state
     that calls `send`; it is `true` iff that state has nothing uncommitted.

  2. An instrumented reading of a step.  `Sys` has no field for "the databases as they were when
     frame number i was sent", and the model must not be changed; so the executions are described
     from outside: `Exec s0 s L` is the least relation such that `s` is obtained from `s0` by the
     primitives of Sys.lean (`send`, `emit` of a non-frame event, `commit`, `ucommit`, `modDb`,
     `modUdb`, a change of `conns`, a change of `rebooted`), and `L` is the GHOST LOG of that
     execution: the list of the states from which `send` was called, oldest first (the whole state:
     its `out` is the output before the frame, its `db`/`udb` are what the server was acting on).
       * `stepPlain_exec`: every operation of the model IS such an execution (`AClosed`: one pass
         through Core.lean/Ws.lean in the style of `UClosed`, with `send` kept apart from `emit`);
       * `Exec.sends`: for EVERY execution from a state with empty `out`/`snaps` (not only the one
         `stepPlain_exec` exhibits) and every entry `m` of its log:
           - `m.snaps.length = commitCount m.out`, `lastSnap D0 m.snaps = (m.disk, m.udisk)`
             (commits and snapshots are appended together; the last snapshot is the disk),
           - the final `out` is `m.out ++ frame c f m.synced :: post`, the final `snaps` extend
             `m.snaps` (nothing is ever removed or rewritten),
           - every frame of the final `out` has its entry (`cover`).

  3. `C09_ack_durable` (the property): for every state `g` satisfying the invariant (hence every
     reachable one: `C09_ack_durable_reach`), every operation `op` (crashes included) and EVERY
     execution log `L` of the step (one exists), every frame of `(g.sys.step op).out`,
     `out = pre ++ frame c f b :: post`:  `b = true`, and there is `m ∈ L` — the state that sent
     this frame — with `m.out = pre`, `m.snaps = snaps.take (commitCount pre)`, `m.db = m.disk`,
     `m.udb = m.udisk`, and
         `lastSnap (g.sys.disk, g.sys.udisk) (snaps.take (commitCount pre)) = (m.db, m.udb)`:
     the pair of files a kill right after this frame leaves (the last snapshot committed before it,
     or the files the step started with) is exactly the pair of databases the server was acting on.

  4. The files of item 3 literally are a `crashIn` state: `step_crash_files`: for every `k`,
     `crashIn k op` leaves `(db, udb) = lastSnap (disk, udisk) ((step op).snaps.take k)`.
     `C09_ack_durable_crash`: with `j = commitCount pre`, `(g.sys.step (.crashIn j op)).db = m.db`
     and `.udb = m.udb`.  NOTE the model has crash points only at commits: `crashIn j op` dies
     right after the `j`-th commit, so its output (`cutAtCommit j`) is the part of `pre` up to its
     last commit — the frame itself and whatever non-commit events precede it since that commit are
     not in the crashed step's output, although the files are the same at all these instants
     (`lastSnap` depends on the number of commits only).  That is said by the last conjunct of
     `C09_ack_durable_crash`.

  5. `C09_ack_durable_last` (cheap special case): a crash after the last commit of a step
     (`k > snaps.length`) leaves the `db`/`udb` of the completed step.

  What is NOT covered: nothing of the clause as formalised in DESIGN §6.  (Limits of the model, not
  of the theorem: crash points between two commits are not separate `Op`s — harmless, see 4; a
  commit is atomic and durable, journal side files are not modelled — C19/C20.)
-/
import Wormhole.Props.C09b
import Wormhole.Inv.UsageTrack

namespace Wormhole
namespace Sys

/-! ## 1. the flag -/

theorem synced_iff (s : Sys) : s.synced = true ↔ s.db = s.disk ∧ s.udb = s.udisk := by
  simp [synced]

/-- **the meaning of the flag**: `send` appends one frame whose flag is computed from the sending
    state; it is `true` iff that state has nothing uncommitted; nothing else changes -/
theorem send_flag (s : Sys) (c : Nat) (f : Frame) :
    (s.send c f).out = s.out ++ [.frame c f (decide (s.db = s.disk) && decide (s.udb = s.udisk))] ∧
    ((decide (s.db = s.disk) && decide (s.udb = s.udisk)) = true ↔ s.db = s.disk ∧ s.udb = s.udisk) ∧
    (s.send c f).snaps = s.snaps ∧ (s.send c f).db = s.db ∧ (s.send c f).udb = s.udb ∧
    (s.send c f).disk = s.disk ∧ (s.send c f).udisk = s.udisk :=
  ⟨rfl, by simp, rfl, rfl, rfl, rfl, rfl⟩

/-! ## 2. commits, snapshots, the files a kill leaves -/

def isCommitB : Event → Bool
  | .commit _ => true
  | _ => false

/-- number of (effective) commits among the events -/
def commitCount (l : List Event) : Nat := l.countP isCommitB

@[simp] theorem commitCount_nil : commitCount [] = 0 := rfl
@[simp] theorem commitCount_append (a b : List Event) : commitCount (a ++ b) = commitCount a + commitCount b :=
  List.countP_append
@[simp] theorem commitCount_commit (w : DbId) (l : List Event) :
    commitCount (.commit w :: l) = commitCount l + 1 := by simp [commitCount, isCommitB]
theorem commitCount_notCommit {e : Event} (h : isCommitB e = false) (l : List Event) :
    commitCount (e :: l) = commitCount l := by simp [commitCount, h]
theorem commitCount_notFrame_frame (c f b) (l : List Event) :
    commitCount (.frame c f b :: l) = commitCount l := commitCount_notCommit rfl l

/-- the files a kill leaves when the step started with files `D0` and has committed the snapshots
    `snaps` so far: the last snapshot, `D0` if there is none -/
def lastSnap (D0 : Chan × Usage) (snaps : List (Chan × Usage)) : Chan × Usage := snaps.getLast?.getD D0

@[simp] theorem lastSnap_nil (D0) : lastSnap D0 [] = D0 := rfl
@[simp] theorem lastSnap_concat (D0) (l : List (Chan × Usage)) (p) : lastSnap D0 (l ++ [p]) = p := by
  simp [lastSnap]

/-- `lastSnap` of the first `k` snapshots, by cases -/
theorem lastSnap_take (D0) (l : List (Chan × Usage)) (k : Nat) :
    lastSnap D0 (l.take k) =
      if k = 0 then D0 else match l[k - 1]? with
        | some p => p
        | none => lastSnap D0 l := by
  cases k with
  | zero => simp
  | succ k =>
    cases h : l[k]? <;> simp [lastSnap, List.getLast?_take, h]

/-! ## 3. executions with a ghost log -/

/-- `Exec s0 s L`: `s` is reached from `s0` by the primitives of Sys.lean; `L` = the states from
    which `send` was called along the way, oldest first -/
inductive Exec (s0 : Sys) : Sys → List Sys → Prop
  | start : Exec s0 s0 []
  | send {s : Sys} {L : List Sys} (c : Nat) (f : Frame) : Exec s0 s L → Exec s0 (s.send c f) (L ++ [s])
  | note {s : Sys} {L : List Sys} (e : Event) : NotFrame e → Exec s0 s L → Exec s0 (s.emit e) L
  | commit {s : Sys} {L : List Sys} : Exec s0 s L → Exec s0 s.commit L
  | ucommit {s : Sys} {L : List Sys} : Exec s0 s L → Exec s0 s.ucommit L
  | modDb {s : Sys} {L : List Sys} (f : Chan → Chan) : Exec s0 s L → Exec s0 (s.modDb f) L
  | modUdb {s : Sys} {L : List Sys} (f : Usage → Usage) : Exec s0 s L → Exec s0 (s.modUdb f) L
  | conns {s : Sys} {L : List Sys} (cs : List Conn) : Exec s0 s L → Exec s0 { s with conns := cs } L
  | reboot {s : Sys} {L : List Sys} (t : Time) : Exec s0 s L → Exec s0 { s with rebooted := t } L

/-- what holds of an execution from a state with empty `out`/`snaps` and files `D0` -/
structure Sends (D0 : Chan × Usage) (s : Sys) (L : List Sys) : Prop where
  /-- commits and snapshots are appended together -/
  count : s.snaps.length = commitCount s.out
  /-- the last snapshot is the disk -/
  last : lastSnap D0 s.snaps = (s.disk, s.udisk)
  /-- every logged state had the two properties above, its frame is in `out` right after what it
      had emitted, with the flag computed from it; `out` and `snaps` have only grown since -/
  mid : ∀ m ∈ L, m.snaps.length = commitCount m.out ∧ lastSnap D0 m.snaps = (m.disk, m.udisk) ∧
      ∃ c f post sn, s.out = m.out ++ .frame c f m.synced :: post ∧ s.snaps = m.snaps ++ sn
  /-- every frame of `out` was sent from a logged state -/
  cover : ∀ pre c f b post, s.out = pre ++ .frame c f b :: post → ∃ m ∈ L, m.out = pre

theorem split_snoc {α : Type} {a pre post : List α} {x y : α} (h : a ++ [x] = pre ++ y :: post) :
    (a = pre ∧ x = y ∧ post = []) ∨ ∃ post', post = post' ++ [x] ∧ a = pre ++ y :: post' := by
  rcases List.eq_nil_or_concat post with rfl | ⟨p', z, rfl⟩
  · left
    have := List.append_inj' h rfl
    simp_all
  · right
    rw [List.concat_eq_append] at h ⊢
    have h' : a ++ [x] = (pre ++ y :: p') ++ [z] := by simpa using h
    have := List.append_inj' h' rfl
    refine ⟨p', ?_, this.1⟩
    simp_all

theorem Sends.congr {D0 s s' L} (h : Sends D0 s L) (ho : s'.out = s.out) (hs : s'.snaps = s.snaps)
    (hd : s'.disk = s.disk) (hu : s'.udisk = s.udisk) : Sends D0 s' L := by
  refine ⟨by rw [ho, hs]; exact h.count, by rw [hs, hd, hu]; exact h.last, ?_, ?_⟩
  · rw [ho, hs]; exact h.mid
  · rw [ho]; exact h.cover

/-- one non-frame event, with as many snapshots as it is a commit -/
theorem Sends.grow1 {D0 s s' L} (h : Sends D0 s L) {e : Event} {sn : List (Chan × Usage)}
    (ho : s'.out = s.out ++ [e]) (he : NotFrame e) (hs : s'.snaps = s.snaps ++ sn)
    (hc : sn.length = commitCount [e]) (hl : lastSnap D0 s'.snaps = (s'.disk, s'.udisk)) :
    Sends D0 s' L := by
  refine ⟨?_, hl, ?_, ?_⟩
  · rw [ho, hs, List.length_append, commitCount_append, h.count, hc]
  · intro m hm
    obtain ⟨h1, h2, c, f, post, sn0, h3, h4⟩ := h.mid m hm
    exact ⟨h1, h2, c, f, post ++ [e], sn0 ++ sn, by rw [ho, h3]; simp, by rw [hs, h4]; simp⟩
  · intro pre c f b post hp
    rw [ho] at hp
    rcases split_snoc hp with ⟨_, rfl, _⟩ | ⟨post', _, h2⟩
    · exact absurd he (by simp [NotFrame])
    · exact h.cover pre c f b post' h2

theorem Sends.send {D0 s L} (h : Sends D0 s L) (c : Nat) (f : Frame) : Sends D0 (s.send c f) (L ++ [s]) := by
  have ho : (s.send c f).out = s.out ++ [.frame c f s.synced] := rfl
  refine ⟨?_, h.last, ?_, ?_⟩
  · rw [ho, commitCount_append]
    show s.snaps.length = _
    rw [h.count]; simp [commitCount, isCommitB]
  · intro m hm
    rcases List.mem_append.1 hm with hm | hm
    · obtain ⟨h1, h2, c', f', post, sn0, h3, h4⟩ := h.mid m hm
      exact ⟨h1, h2, c', f', post ++ [.frame c f s.synced], sn0, by rw [ho, h3]; simp, h4⟩
    · have : m = s := by simpa using hm
      subst this
      exact ⟨h.count, h.last, c, f, [], [], ho, by simp [Sys.send, Sys.emit]⟩
  · intro pre c' f' b post hp
    rw [ho] at hp
    rcases split_snoc hp with ⟨h1, _, _⟩ | ⟨post', _, h2⟩
    · exact ⟨s, by simp, h1⟩
    · obtain ⟨m, hm, h3⟩ := h.cover pre c' f' b post' h2
      exact ⟨m, List.mem_append_left _ hm, h3⟩

theorem Sends.commit {D0 s L} (h : Sends D0 s L) : Sends D0 s.commit L := by
  unfold Sys.commit
  split
  · exact h
  · exact h.grow1 (e := .commit .chan) (sn := [(s.db, s.udisk)]) rfl trivial rfl
      (by simp) (by simp)

theorem Sends.ucommit {D0 s L} (h : Sends D0 s L) : Sends D0 s.ucommit L := by
  unfold Sys.ucommit
  split
  · exact h
  · exact h.grow1 (e := .commit .usage) (sn := [(s.disk, s.udb)]) rfl trivial rfl
      (by simp) (by simp)

/-- **every execution** from a state with empty `out` and `snaps` -/
theorem Exec.sends {s0 s : Sys} {L : List Sys} (h : Exec s0 s L) (ho : s0.out = []) (hs : s0.snaps = []) :
    Sends (s0.disk, s0.udisk) s L := by
  induction h with
  | start =>
    refine ⟨by rw [ho, hs]; rfl, by rw [hs]; rfl, by intro m hm; simp at hm, ?_⟩
    intro pre c f b post hp
    rw [ho] at hp
    simp at hp
  | send c f _ ih => exact ih.send c f
  | note e he _ ih => exact ih.grow1 (e := e) (sn := []) rfl he (by simp [Sys.emit])
      (by cases e <;> first | rfl | exact absurd he (by simp [NotFrame]))
      (by simpa [Sys.emit] using ih.last)
  | commit _ ih => exact ih.commit
  | ucommit _ ih => exact ih.ucommit
  | modDb f _ ih => exact ih.congr rfl rfl rfl rfl
  | modUdb f _ ih => exact ih.congr rfl rfl rfl rfl
  | conns cs _ ih => exact ih.congr rfl rfl rfl rfl
  | reboot t _ ih => exact ih.congr rfl rfl rfl rfl

/-- what `Sends` says about one frame of the output -/
theorem Sends.frame {D0 s L} (h : Sends D0 s L) {pre : List Event} {c f b post}
    (ho : s.out = pre ++ .frame c f b :: post) :
    ∃ m ∈ L, m.out = pre ∧ m.snaps = s.snaps.take (commitCount pre) ∧ b = m.synced ∧
      lastSnap D0 (s.snaps.take (commitCount pre)) = (m.disk, m.udisk) := by
  obtain ⟨m, hm, hpre⟩ := h.cover pre c f b post ho
  obtain ⟨h1, h2, c', f', post', sn, h3, h4⟩ := h.mid m hm
  have htake : s.snaps.take (commitCount pre) = m.snaps := by
    rw [h4, ← hpre]; exact List.take_left' h1
  refine ⟨m, hm, hpre, htake.symm, ?_, by rw [htake]; exact h2⟩
  rw [ho, hpre] at h3
  have := List.append_cancel_left h3
  simp only [List.cons.injEq, Event.frame.injEq] at this
  exact this.1.2.2

/-! ## 4. every function of the model is an execution

  `AClosed T`: `T` survives the primitives; then it survives every function of Core.lean / Ws.lean.
  (Same pass as `UClosed` of Inv/UsageTrack.lean, but `send` is kept apart from the emission of
  other events, and the usage database may be written arbitrarily.) -/

structure AClosed (T : Sys → Prop) : Prop where
  send0 : ∀ s c f, T s → T (s.send c f)
  note : ∀ s e, NotFrame e → T s → T (s.emit e)
  commit : ∀ s, T s → T s.commit
  ucommit : ∀ s, T s → T s.ucommit
  modDb : ∀ s f, T s → T (s.modDb f)
  modUdb : ∀ s f, T s → T (s.modUdb f)
  conns : ∀ s cs, T s → T { s with conns := cs }
  reboot : ∀ s t, T s → T { s with rebooted := t }

section
variable {T : Sys → Prop} (hT : AClosed T)
include hT

theorem AClosed.send {s : Sys} (h : T s) (c f) : T (s.send c f) := hT.send0 _ _ _ h
theorem AClosed.sendError {s : Sys} (h : T s) (c x) : T (s.sendError c x) := hT.send0 _ _ _ h
theorem AClosed.internalErr {s : Sys} (h : T s) (c x) : T (s.internalErr c x) := hT.note _ _ trivial h
theorem AClosed.updConn {s : Sys} (h : T s) (c f) : T (s.updConn c f) := hT.conns _ _ h
theorem AClosed.stopListeners {s : Sys} (h : T s) (a m) : T (s.stopListeners a m) := hT.conns _ _ h

theorem AClosed.storeNp (s : Sys) (app sides t p) (h : T s) : T (s.storeNameplateUsage app sides t p).1 := by
  unfold Sys.storeNameplateUsage
  split
  · exact h
  · exact hT.modUdb _ _ h

theorem AClosed.storeMb (s : Sys) (app f sides t p) (h : T s) : T (s.storeMailboxUsage app f sides t p) :=
  hT.modUdb _ _ h

theorem AClosed.foldl_send {α : Type} (g : α → Nat) (fr : α → Frame) (l : List α) :
    ∀ {s : Sys}, T s → T (l.foldl (fun s a => s.send (g a) (fr a)) s) := by
  induction l with
  | nil => intro s h; exact h
  | cons a l ih => intro s h; exact ih (hT.send h _ _)

theorem AClosed.replay {s : Sys} (h : T s) (c app mb) : T (s.replay c app mb) := by
  unfold Sys.replay
  exact hT.foldl_send (fun _ => c) (fun (m : Message) => .message m.side m.phase m.body m.rx m.msgId) _ h

theorem AClosed.broadcast {s : Sys} (h : T s) (app mb f) : T (s.broadcast app mb f) := by
  unfold Sys.broadcast
  exact hT.foldl_send (fun c => c) (fun _ => f) _ h

theorem AClosed.storeNameplatesOfMailbox {app t} (l : List Nameplate) :
    ∀ {s : Sys}, T s → T (s.storeNameplatesOfMailbox app t l).1 := by
  induction l with
  | nil => intro s h; exact h
  | cons np rest ih =>
    intro s h
    unfold Sys.storeNameplatesOfMailbox
    have h1 := hT.storeNp s app (s.db.npSidesOf np.id) t false h
    split
    · rename_i s2 heq; rw [heq] at h1; exact h1
    · rename_i s2 heq; rw [heq] at h1; exact ih h1

theorem AClosed.mailboxOpen {s : Sys} (h : T s) (mb side t) : T (s.mailboxOpen mb side t) := by
  unfold Sys.mailboxOpen
  split
  · exact hT.commit _ (hT.modDb _ _ (hT.modDb _ _ h))
  · exact hT.commit _ (hT.modDb _ _ h)

theorem AClosed.addMailbox {s s1 : Sys} (h : T s) {app mb forNp t}
    (e : s.addMailbox app mb forNp t = some s1) : T s1 := by
  unfold Sys.addMailbox at e
  split at e
  · cases e; exact h
  · split at e
    · cases e
    · cases e; exact hT.modDb _ _ h

theorem AClosed.openMailbox {s : Sys} (h : T s) (app mb side t) : T (s.openMailbox app mb side t).1 := by
  unfold Sys.openMailbox
  split
  · exact h
  · rename_i s1 e
    have h2 := hT.commit _ (hT.mailboxOpen (hT.addMailbox h e) mb side t)
    dsimp only
    split <;> exact h2

theorem AClosed.addMessage {s : Sys} (h : T s) (app mb side ph bd t id) :
    T (s.addMessage app mb side ph bd t id) := by
  unfold Sys.addMessage
  exact hT.commit _ (hT.modDb _ _ (hT.modDb _ _ h))

theorem AClosed.mailboxClose {s : Sys} (h : T s) (app mb side mood t) :
    T (s.mailboxClose app mb side mood t).1 := by
  unfold Sys.mailboxClose
  split
  · exact h
  · split
    · exact h
    · dsimp only
      have h1 : T ((s.modDb (·.closeSide mb side mood)).commit) := hT.commit _ (hT.modDb _ _ h)
      split
      · exact h1
      · generalize hE : (if ((s.modDb (·.closeSide mb side mood)).commit).cfg.usage then _ else _) = p
        obtain ⟨s2, ok⟩ := p
        have h2 : T s2 := by
          split at hE
          · have := hT.storeNameplatesOfMailbox (app := app) (t := t)
              (((s.modDb (·.closeSide mb side mood)).commit).db.nameplatesOfMailbox app mb) h1
            rw [hE] at this; exact this
          · cases hE; exact h1
        dsimp only
        split
        · exact h2
        · dsimp only
          apply hT.stopListeners
          apply hT.commit
          have h3 := hT.modDb _ (fun d =>
            ((((d.delNpSidesOfMailbox app mb).delNameplatesOfMailbox app mb).delMessagesOf mb).delMbSidesOf
              mb).delMailbox mb) h2
          split
          · exact hT.ucommit _ (hT.storeMb _ _ _ _ _ _ h3)
          · exact h3

theorem AClosed.logClientVersion {s : Sys} (h : T s) (a sd t i v) : T (s.logClientVersion a sd t i v) := by
  unfold Sys.logClientVersion
  split
  · exact hT.ucommit _ (hT.modUdb _ _ h)
  · exact h

theorem AClosed.claimCont {s : Sys} (h : T s) (app npid mb side t) : T (claimCont s app npid mb side t).1 := by
  unfold Sys.claimCont
  have h3 := hT.openMailbox (hT.commit _ h) app mb side t
  dsimp only
  split
  all_goals
    rename_i e
    rw [e] at h3
  · exact h3
  · exact h3
  · split <;> exact h3

theorem AClosed.claimTail {s : Sys} (h : T s) (app npid mb side t) : T (s.claimTail app npid mb side t).1 := by
  rw [claimTail_eq]
  split
  · exact hT.claimCont (hT.modDb _ _ h) _ _ _ _ _
  · split
    · exact hT.claimCont h _ _ _ _ _
    · exact h

theorem AClosed.claimNameplate {s : Sys} (h : T s) (app name side t fresh) :
    T (s.claimNameplate app name side t fresh).1 := by
  unfold Sys.claimNameplate
  split
  · split
    · exact h
    · rename_i s1 e
      exact hT.claimTail (hT.modDb _ _ (hT.addMailbox h e)) _ _ _ _ _
  · exact hT.claimTail h _ _ _ _ _

theorem AClosed.releaseNameplate {s : Sys} (h : T s) (app name side t) :
    T (s.releaseNameplate app name side t).1 := by
  unfold Sys.releaseNameplate
  split
  · exact h
  · rename_i np _
    split
    · exact h
    · dsimp only
      have h1 : T ((s.modDb (·.unclaim np.id side)).commit) := hT.commit _ (hT.modDb _ _ h)
      split
      · exact h1
      · have h2 := hT.modDb _ (fun d => (d.delNpSidesOf np.id).delNameplate np.id) h1
        split
        · have h3 := hT.storeNp _ app
            (((s.modDb (·.unclaim np.id side)).commit).db.npSidesOf np.id) t false h2
          split
          all_goals
            rename_i e
            rw [e] at h3
          · exact h3
          · exact hT.commit _ (hT.ucommit _ h3)
        · exact hT.commit _ h2

theorem AClosed.pruneNameplates {app now} (l : List Nameplate) :
    ∀ {s : Sys}, T s → T (s.pruneNameplates app now l).1 := by
  induction l with
  | nil => intro s h; exact h
  | cons np rest ih =>
    intro s h
    unfold Sys.pruneNameplates
    dsimp only
    have h1 := hT.modDb _ (fun d => (d.delNpSidesOf np.id).delNameplate np.id) h
    split
    · have h2 := hT.storeNp _ app (s.db.npSidesOf np.id) now true h1
      split
      all_goals
        rename_i e
        rw [e] at h2
      · exact h2
      · exact ih h2
    · exact ih h1

theorem AClosed.pruneMailboxes {app now} (l : List MailboxRow) :
    ∀ {s : Sys}, T s → T (s.pruneMailboxes app now l) := by
  induction l with
  | nil => intro s h; exact h
  | cons row rest ih =>
    intro s h
    unfold Sys.pruneMailboxes
    dsimp only
    have h1 := hT.modDb _ (fun d => ((d.delMessagesOf row.id).delMbSidesOf row.id).delMailbox row.id) h
    split
    · exact ih (hT.storeMb _ _ _ _ _ _ h1)
    · exact ih h1

theorem AClosed.prune {s : Sys} (h : T s) (app now old) : T (s.prune app now old).1 := by
  rw [prune_eq]
  dsimp only
  have h1 : T ((s.touchListened app now).commit) := hT.commit _ (hT.modDb _ _ h)
  generalize (s.touchListened app now).commit = s1 at h1
  unfold pruneRest
  have h2 := hT.pruneNameplates (app := app) (now := now) ((s1.db.nameplatesOfApp app).filter
    (fun r => r.mailbox ∈ ((s1.db.mailboxesOfApp app).filter (fun r => ¬ r.updated > old)).map (·.id))) h1
  split
  · rename_i e; rw [e] at h2; exact h2
  · rename_i s2 e
    rw [e] at h2
    have h3 := hT.pruneMailboxes (app := app) (now := now)
      ((s1.db.mailboxesOfApp app).filter (fun r => ¬ r.updated > old)) h2
    dsimp only
    split
    · dsimp only
      split
      · exact hT.ucommit _ (hT.commit _ h3)
      · exact hT.commit _ h3
    · exact h3

theorem AClosed.pruneApps {now old} (l : List String) :
    ∀ {s : Sys}, T s → T (s.pruneApps now old l).1 := by
  induction l with
  | nil => intro s h; exact h
  | cons app rest ih =>
    intro s h
    unfold Sys.pruneApps
    have h1 := hT.prune h app now old
    split
    all_goals
      rename_i e
      rw [e] at h1
    · exact h1
    · exact ih h1

theorem AClosed.dumpStats {s : Sys} (h : T s) (now) : T (s.dumpStats now) := by
  unfold Sys.dumpStats
  split
  · exact hT.ucommit _ (hT.modUdb _ _ h)
  · exact h

theorem AClosed.expire {s : Sys} (h : T s) (now fault) : T (s.expire now fault) := by
  unfold Sys.expire
  dsimp only
  apply hT.dumpStats
  have h0 := hT.note s (.fired now (now - Generated.expirationTicks)) trivial h
  split
  · exact hT.note _ _ trivial h0
  · have h1 := hT.pruneApps (now := now) (old := now - Generated.expirationTicks)
      (s.emit (.fired now (now - Generated.expirationTicks))).allApps h0
    split
    all_goals
      rename_i e
      rw [e] at h1
    · exact h1
    · exact hT.note _ _ trivial h1

theorem AClosed.handlePing {s : Sys} (h : T s) (c v) : T (s.handlePing c v) := by
  unfold Sys.handlePing; split
  · exact hT.sendError h _ _
  · exact hT.send h _ _

theorem AClosed.handleBind {s : Sys} (h : T s) (x t a sd i v) : T (s.handleBind x t a sd i v) := by
  unfold Sys.handleBind
  split
  · exact hT.sendError h _ _
  · split
    · exact hT.sendError h _ _
    · split
      · exact hT.sendError h _ _
      · exact hT.logClientVersion (hT.updConn h _ _) _ _ _ _ _

theorem AClosed.handleList {s : Sys} (h : T s) (x app) : T (s.handleList x app) := hT.send h _ _

theorem AClosed.handleAllocate {s : Sys} (h : T s) (x app side t pick draws fresh) :
    T (s.handleAllocate x app side t pick draws fresh) := by
  unfold Sys.handleAllocate
  split
  · exact hT.sendError h _ _
  · split
    · exact hT.internalErr h _ _
    · rename_i name _
      have h1 := hT.claimNameplate h app name side t fresh
      split
      all_goals
        rename_i e
        rw [e] at h1
      · exact hT.send (hT.updConn h1 _ _) _ _
      · exact hT.internalErr h1 _ _
      · exact hT.internalErr h1 _ _
      · exact hT.internalErr h1 _ _

theorem AClosed.handleClaim {s : Sys} (h : T s) (x app side t n fresh) :
    T (s.handleClaim x app side t n fresh) := by
  unfold Sys.handleClaim
  split
  · exact hT.sendError h _ _
  · rename_i name
    split
    · exact hT.sendError h _ _
    · have h1 := hT.claimNameplate
        (hT.updConn h x.id (fun y => { y with didClaim := true, nameplateId := some name })) app name side t fresh
      dsimp only
      split
      all_goals
        rename_i e
        rw [e] at h1
      · exact hT.send h1 _ _
      · exact hT.sendError h1 _ _
      · exact hT.sendError h1 _ _
      · exact hT.internalErr h1 _ _

theorem AClosed.handleRelease {s : Sys} (h : T s) (x app side t n) : T (s.handleRelease x app side t n) := by
  unfold Sys.handleRelease
  have go : ∀ name : String, T (match (s.updConn x.id (fun y => { y with didRelease := true })).releaseNameplate
      app name side t with
      | (s1, true) => s1.send x.id .released
      | (s1, false) => s1.internalErr x.id "IndexError") := by
    intro name
    have h1 := hT.releaseNameplate (hT.updConn h x.id (fun y => { y with didRelease := true })) app name side t
    split
    all_goals
      rename_i e
      rw [e] at h1
    · exact hT.send h1 _ _
    · exact hT.internalErr h1 _ _
  split
  · exact hT.sendError h _ _
  · dsimp only
    split
    · split
      · exact hT.sendError h _ _
      · exact go _
    · exact go _
    · exact go _
    · exact hT.sendError h _ _

theorem AClosed.handleOpen {s : Sys} (h : T s) (x app side t m) : T (s.handleOpen x app side t m) := by
  unfold Sys.handleOpen
  split
  · exact hT.sendError h _ _
  · split
    · exact hT.sendError h _ _
    · rename_i mb
      have h1 := hT.openMailbox (hT.updConn h x.id (fun y => { y with mailboxId := some mb })) app mb side t
      dsimp only
      split
      all_goals
        rename_i e
        rw [e] at h1
      · exact hT.sendError h1 _ _
      · exact hT.internalErr h1 _ _
      · exact hT.replay (hT.updConn h1 _ _) _ _ _

theorem AClosed.handleAdd {s : Sys} (h : T s) (x app side t id ph bd) :
    T (s.handleAdd x app side t id ph bd) := by
  unfold Sys.handleAdd
  split
  · exact hT.sendError h _ _
  · split
    · exact hT.sendError h _ _
    · split
      · exact hT.sendError h _ _
      · exact hT.broadcast (hT.addMessage h _ _ _ _ _ _ _) _ _ _

theorem AClosed.handleClose {s : Sys} (h : T s) (x app side t m mood) :
    T (s.handleClose x app side t m mood) := by
  unfold Sys.handleClose
  have tail : ∀ (s1 : Sys) (r : OpenRes) (hd : String), T s1 →
      T (match ((s1, r, hd) : Sys × OpenRes × String) with
       | (s1, .crowded, _) => s1.sendError x.id "crowded"
       | (s1, .integrity, _) => s1.internalErr x.id "IntegrityError"
       | (s1, .ok, h) =>
         let s2 := s1.updConn x.id (fun y => { y with listening := false, didClose := true })
         match s2.mailboxClose app h side mood t with
         | (s3, false) => s3.internalErr x.id "IndexError"
         | (s3, true) => (s3.updConn x.id (fun y => { y with mailbox := none })).send x.id .closed) := by
    intro s1 r hd h1
    cases r
    · dsimp only
      have h3 := hT.mailboxClose (hT.updConn h1 x.id (fun y => { y with listening := false, didClose := true }))
        app hd side mood t
      split
      all_goals
        rename_i e
        rw [e] at h3
      · exact hT.internalErr h3 _ _
      · exact hT.send (hT.updConn h3 _ _) _ _
    · exact hT.sendError h1 _ _
    · exact hT.internalErr h1 _ _
  have go : ∀ mb : String,
      T (match (match x.mailbox with
          | some h => (s, OpenRes.ok, h)
          | none =>
            match s.openMailbox app mb side t with
            | (s1, r) => (s1.updConn x.id (fun y => if r = OpenRes.ok then { y with mailbox := some mb } else y), r, mb)
          : Sys × OpenRes × String) with
       | (s1, .crowded, _) => s1.sendError x.id "crowded"
       | (s1, .integrity, _) => s1.internalErr x.id "IntegrityError"
       | (s1, .ok, h) =>
         let s2 := s1.updConn x.id (fun y => { y with listening := false, didClose := true })
         match s2.mailboxClose app h side mood t with
         | (s3, false) => s3.internalErr x.id "IndexError"
         | (s3, true) => (s3.updConn x.id (fun y => { y with mailbox := none })).send x.id .closed) := by
    intro mb
    cases hx : x.mailbox with
    | some hd => exact tail s .ok hd h
    | none =>
      dsimp only
      have h1 := hT.openMailbox h app mb side t
      cases e : s.openMailbox app mb side t with
      | mk s1 r =>
        rw [e] at h1
        exact tail _ r mb (hT.updConn h1 _ _)
  split
  · exact hT.sendError h _ _
  · dsimp only
    split
    · split
      · exact hT.sendError h _ _
      · exact go _
    · exact go _
    · exact go _
    · exact hT.sendError h _ _

theorem AClosed.onMessage {s : Sys} (h : T s) (c t id cmd) : T (s.onMessage c t id cmd) := by
  unfold Sys.onMessage
  split
  · exact h
  · rename_i x _
    have ha := hT.send h c (.ack id)
    cases cmd with
    | noType => exact hT.sendError h _ _
    | ping v => exact hT.handlePing ha _ _
    | bind a sd i v => exact hT.handleBind ha _ _ _ _ _ _
    | unknown => dsimp only; split <;> exact hT.sendError ha _ _
    | list => dsimp only; split; exact hT.sendError ha _ _; exact hT.handleList ha _ _
    | allocate p d f => dsimp only; split; exact hT.sendError ha _ _; exact hT.handleAllocate ha _ _ _ _ _ _ _
    | claim n f => dsimp only; split; exact hT.sendError ha _ _; exact hT.handleClaim ha _ _ _ _ _ _
    | release n => dsimp only; split; exact hT.sendError ha _ _; exact hT.handleRelease ha _ _ _ _ _
    | open_ m => dsimp only; split; exact hT.sendError ha _ _; exact hT.handleOpen ha _ _ _ _ _
    | add ph bd => dsimp only; split; exact hT.sendError ha _ _; exact hT.handleAdd ha _ _ _ _ _ _ _
    | close m mood => dsimp only; split; exact hT.sendError ha _ _; exact hT.handleClose ha _ _ _ _ _ _

theorem AClosed.restart {s : Sys} (h : T s) (t : Time) : T (s.restart t) :=
  hT.reboot _ t (hT.conns _ [] (hT.modUdb _ (fun _ => s.udisk) (hT.modDb _ (fun _ => s.disk) h)))

/-- every plain operation -/
theorem AClosed.stepPlain {s : Sys} (h : T s) (op : Op) : T (s.stepPlain op) := by
  cases op with
  | connect c => exact hT.send (s := { s with conns := s.conns ++ [({ id := c } : Conn)] }) (hT.conns _ _ h) _ _
  | recv c t id cmd => exact hT.onMessage h c t id cmd
  | drop c => exact hT.conns _ _ h
  | sweep now fault => exact hT.expire h now fault
  | restart t => exact hT.restart h t
  | crashIn k op => exact h

end

theorem exec_closed (s0 : Sys) : AClosed (fun s => ∃ L, Exec s0 s L) where
  send0 := fun s c f ⟨L, h⟩ => ⟨L ++ [s], h.send c f⟩
  note := fun _ e he ⟨L, h⟩ => ⟨L, h.note e he⟩
  commit := fun _ ⟨L, h⟩ => ⟨L, h.commit⟩
  ucommit := fun _ ⟨L, h⟩ => ⟨L, h.ucommit⟩
  modDb := fun _ f ⟨L, h⟩ => ⟨L, h.modDb f⟩
  modUdb := fun _ f ⟨L, h⟩ => ⟨L, h.modUdb f⟩
  conns := fun _ cs ⟨L, h⟩ => ⟨L, h.conns cs⟩
  reboot := fun _ t ⟨L, h⟩ => ⟨L, h.reboot t⟩

/-- **every operation of the model is an execution by primitives, with a log of its sends** -/
theorem stepPlain_exec (s0 : Sys) (op : Op) : ∃ L, Exec s0 (s0.stepPlain op) L :=
  (exec_closed s0).stepPlain ⟨[], .start⟩ op

/-! ## 5. steps -/

/-- the state a step starts from -/
def atStart (s : Sys) : Sys := { s with out := [], snaps := [] }

end Sys

/-- the operation a step executes (a crash executes the operation it interrupts) -/
def Op.body : Op → Op
  | .crashIn _ op => op
  | op => op

namespace Sys

theorem body_of_not_crash {op : Op} (h : op.isCrash = false) : op.body = op := by
  cases op <;> first | rfl | simp [Op.isCrash] at h

/-- the invariant along the step: what `stepPlain` of the cleared state satisfies, for every log -/
theorem stepPlain_sends (s : Sys) (op : Op) {L : List Sys} (hL : Exec s.atStart (s.atStart.stepPlain op) L) :
    Sends (s.disk, s.udisk) (s.atStart.stepPlain op) L :=
  hL.sends rfl rfl

theorem cutAtCommit_zero (l : List Event) : cutAtCommit 0 l = [] := by
  cases l <;> rfl

theorem cutAtCommit_prefix : ∀ (k : Nat) (l : List Event), ∃ r, l = cutAtCommit k l ++ r := by
  intro k l
  induction l generalizing k with
  | nil => exact ⟨[], by cases k <;> rfl⟩
  | cons a l ih =>
    cases k with
    | zero => exact ⟨a :: l, by rw [cutAtCommit_zero]; rfl⟩
    | succ k =>
      cases a with
      | commit w => obtain ⟨r, hr⟩ := ih k; exact ⟨r, by simp only [cutAtCommit, List.cons_append, ← hr]⟩
      | frame c f b => obtain ⟨r, hr⟩ := ih (k + 1); exact ⟨r, by simp only [cutAtCommit, List.cons_append, ← hr]⟩
      | internal c cls => obtain ⟨r, hr⟩ := ih (k + 1); exact ⟨r, by simp only [cutAtCommit, List.cons_append, ← hr]⟩
      | fired a b => obtain ⟨r, hr⟩ := ih (k + 1); exact ⟨r, by simp only [cutAtCommit, List.cons_append, ← hr]⟩

/-- cutting at the number of commits of a prefix `pre` gives the part of `pre` up to its last
    commit, whatever follows `pre` -/
theorem cutAtCommit_count : ∀ (pre rest : List Event),
    ∃ r, pre = cutAtCommit (commitCount pre) (pre ++ rest) ++ r ∧ commitCount r = 0 := by
  intro pre rest
  induction pre with
  | nil => exact ⟨[], by simp [cutAtCommit_zero], rfl⟩
  | cons a l ih =>
    obtain ⟨r, hr, hr0⟩ := ih
    have nc : ∀ e : Event, isCommitB e = false → (∀ k (t : List Event), cutAtCommit (k + 1) (e :: t) = e :: cutAtCommit (k + 1) t) →
        ∃ r, e :: l = cutAtCommit (commitCount (e :: l)) (e :: l ++ rest) ++ r ∧ commitCount r = 0 := by
      intro e he hcut
      rw [commitCount_notCommit he]
      cases hn : commitCount l with
      | zero =>
        refine ⟨e :: l, by rw [cutAtCommit_zero]; rfl, ?_⟩
        rw [commitCount_notCommit he]; exact hn
      | succ n =>
        rw [hn] at hr
        exact ⟨r, by rw [List.cons_append, hcut, List.cons_append, ← hr], hr0⟩
    cases a with
    | commit w =>
      refine ⟨r, ?_, hr0⟩
      rw [commitCount_commit, List.cons_append]
      simp only [cutAtCommit, List.cons_append, ← hr]
    | frame c f b => exact nc _ rfl (fun _ _ => rfl)
    | internal c cls => exact nc _ rfl (fun _ _ => rfl)
    | fired a b => exact nc _ rfl (fun _ _ => rfl)

/-- **what a crash restores**: for every `k`, the step `crashIn k op` leaves the files as of the
    `k`-th snapshot of `op` (those the step started with if `k = 0`, the final ones if `op` commits
    fewer than `k` times), nothing uncommitted, no connections -/
theorem step_crash_files (s : Sys) (k : Nat) (op : Op) :
    ((s.step (.crashIn k op)).db, (s.step (.crashIn k op)).udb) =
        lastSnap (s.disk, s.udisk) ((s.atStart.stepPlain op).snaps.take k) ∧
    (s.step (.crashIn k op)).disk = (s.step (.crashIn k op)).db ∧
    (s.step (.crashIn k op)).udisk = (s.step (.crashIn k op)).udb ∧
    (s.step (.crashIn k op)).conns = [] := by
  obtain ⟨L, hL⟩ := stepPlain_exec s.atStart op
  have hlast := (stepPlain_sends s op hL).last
  rw [lastSnap_take]
  cases k with
  | zero => exact ⟨rfl, rfl, rfl, rfl⟩
  | succ k =>
    simp only [Nat.add_one_ne_zero, if_false, Nat.add_sub_cancel]
    cases h : (s.atStart.stepPlain op).snaps[k]? with
    | some p =>
      have e : s.step (.crashIn (k + 1) op) =
          { ((s.atStart.stepPlain op).crashTo p) with out := cutAtCommit (k + 1) (s.atStart.stepPlain op).out } := by
        simp only [Sys.step, Nat.add_sub_cancel]
        unfold atStart at h
        rw [h]
      rw [e]; exact ⟨rfl, rfl, rfl, rfl⟩
    | none =>
      have e : s.step (.crashIn (k + 1) op) =
          (s.atStart.stepPlain op).crashTo ((s.atStart.stepPlain op).disk, (s.atStart.stepPlain op).udisk) := by
        simp only [Sys.step, Nat.add_sub_cancel]
        unfold atStart at h
        rw [h]
      rw [e]; exact ⟨hlast.symm, rfl, rfl, rfl⟩

/-- the output and the snapshots of a crashed step, by cases on `k` -/
theorem crash_restores (s : Sys) (k : Nat) (op : Op) :
    (k = 0 → (s.step (.crashIn k op)).db = s.disk ∧ (s.step (.crashIn k op)).udb = s.udisk ∧
      (s.step (.crashIn k op)).out = []) ∧
    (∀ p, 1 ≤ k → (s.atStart.stepPlain op).snaps[k - 1]? = some p →
      (s.step (.crashIn k op)).db = p.1 ∧ (s.step (.crashIn k op)).udb = p.2 ∧
      (s.step (.crashIn k op)).out = cutAtCommit k (s.atStart.stepPlain op).out ∧
      (s.step (.crashIn k op)).snaps = (s.atStart.stepPlain op).snaps) ∧
    ((s.atStart.stepPlain op).snaps.length < k →
      (s.step (.crashIn k op)).db = (s.atStart.stepPlain op).disk ∧
      (s.step (.crashIn k op)).udb = (s.atStart.stepPlain op).udisk ∧
      (s.step (.crashIn k op)).out = (s.atStart.stepPlain op).out ∧
      (s.step (.crashIn k op)).snaps = (s.atStart.stepPlain op).snaps) := by
  cases k with
  | zero => exact ⟨fun _ => ⟨rfl, rfl, rfl⟩, fun _ h => absurd h (by omega), fun h => absurd h (by omega)⟩
  | succ k =>
    refine ⟨fun h => absurd h (by omega), fun p _ h => ?_, fun hlt => ?_⟩
    · simp only [Nat.add_sub_cancel] at h
      have e : s.step (.crashIn (k + 1) op) =
          { ((s.atStart.stepPlain op).crashTo p) with out := cutAtCommit (k + 1) (s.atStart.stepPlain op).out } := by
        simp only [Sys.step, Nat.add_sub_cancel]
        unfold atStart at h
        rw [h]
      rw [e]; exact ⟨rfl, rfl, rfl, rfl⟩
    · have h : (s.atStart.stepPlain op).snaps[k]? = none := by
        rw [List.getElem?_eq_none_iff]; omega
      have e : s.step (.crashIn (k + 1) op) =
          (s.atStart.stepPlain op).crashTo ((s.atStart.stepPlain op).disk, (s.atStart.stepPlain op).udisk) := by
        simp only [Sys.step, Nat.add_sub_cancel]
        unfold atStart at h
        rw [h]
      rw [e]; exact ⟨rfl, rfl, rfl, rfl⟩

/-- the output of any step is an initial part of the output of the operation it executes, and
    (unless it is empty) its snapshots are those of that operation -/
theorem step_out_prefix (s : Sys) (op : Op) :
    (∃ r, (s.atStart.stepPlain op.body).out = (s.step op).out ++ r) ∧
    ((s.step op).out = [] ∨ (s.step op).snaps = (s.atStart.stepPlain op.body).snaps) := by
  cases op with
  | crashIn k op' =>
    show (∃ r, (s.atStart.stepPlain op').out = _ ++ r) ∧ (_ ∨ _ = (s.atStart.stepPlain op').snaps)
    have hc := crash_restores s k op'
    rcases Nat.eq_zero_or_pos k with h0 | hpos
    · obtain ⟨_, _, ho⟩ := hc.1 h0
      exact ⟨⟨_, by rw [ho]; rfl⟩, Or.inl ho⟩
    · cases h : (s.atStart.stepPlain op').snaps[k - 1]? with
      | some p =>
        obtain ⟨_, _, ho, hs⟩ := hc.2.1 p hpos h
        obtain ⟨r, hr⟩ := cutAtCommit_prefix k (s.atStart.stepPlain op').out
        exact ⟨⟨r, by rw [ho]; exact hr⟩, Or.inr hs⟩
      | none =>
        have hlt : (s.atStart.stepPlain op').snaps.length < k := by
          rw [List.getElem?_eq_none_iff] at h; omega
        obtain ⟨_, _, ho, hs⟩ := hc.2.2 hlt
        exact ⟨⟨[], by rw [ho]; simp⟩, Or.inr hs⟩
  | connect c => exact ⟨⟨[], by simp [Op.body, Sys.step, atStart]⟩, Or.inr rfl⟩
  | recv c t id cmd => exact ⟨⟨[], by simp [Op.body, Sys.step, atStart]⟩, Or.inr rfl⟩
  | drop c => exact ⟨⟨[], by simp [Op.body, Sys.step, atStart]⟩, Or.inr rfl⟩
  | sweep now fault => exact ⟨⟨[], by simp [Op.body, Sys.step, atStart]⟩, Or.inr rfl⟩
  | restart t => exact ⟨⟨[], by simp [Op.body, Sys.step, atStart]⟩, Or.inr rfl⟩

/-- **per-frame statement, any state** (no invariant needed): the frame at `pre` was sent by the
    logged state `m`; its flag is `m.synced`; the files a kill leaves at that point are `m`'s disk -/
theorem ack_files (s : Sys) (op : Op) {L : List Sys}
    (hL : Exec s.atStart (s.atStart.stepPlain op.body) L)
    {pre : List Event} {c f b post} (ho : (s.step op).out = pre ++ .frame c f b :: post) :
    ∃ m ∈ L, m.out = pre ∧ m.snaps = (s.step op).snaps.take (commitCount pre) ∧ b = m.synced ∧
      lastSnap (s.disk, s.udisk) ((s.step op).snaps.take (commitCount pre)) = (m.disk, m.udisk) := by
  obtain ⟨⟨r, hr⟩, hsn⟩ := step_out_prefix s op
  have hsn' : (s.step op).snaps = (s.atStart.stepPlain op.body).snaps := by
    rcases hsn with h | h
    · rw [h] at ho; simp at ho
    · exact h
  rw [hsn']
  apply (stepPlain_sends s op.body hL).frame (c := c) (f := f) (b := b) (post := post ++ r)
  rw [hr, ho]; simp

end Sys

open Sys

/-! ## 6. the property -/

/-- **C09, second clause (`C09_ack_durable`).**  For every state satisfying the invariant, every
    operation (crashes included), every execution log `L` of the step and every frame of its
    output, `out = pre ++ frame c f b :: post`:
    the frame was sent with `synced = true` from a state `m` of the log — an intermediate state of
    the step with `m.out = pre` and the snapshots committed so far — which had nothing uncommitted;
    and the files a kill right after this frame leaves (the last snapshot committed before it, the
    files the step started with if there is none) are exactly the databases `m` was acting on. -/
theorem C09_ack_durable {g : GSys} (hI : g.GInv) (op : Op) {L : List Sys}
    (hL : Exec g.sys.atStart (g.sys.atStart.stepPlain op.body) L)
    {pre : List Event} {c : Nat} {f : Frame} {b : Bool} {post : List Event}
    (ho : (g.sys.step op).out = pre ++ .frame c f b :: post) :
    b = true ∧ ∃ m ∈ L, m.out = pre ∧ m.snaps = (g.sys.step op).snaps.take (commitCount pre) ∧
      m.db = m.disk ∧ m.udb = m.udisk ∧
      lastSnap (g.sys.disk, g.sys.udisk) ((g.sys.step op).snaps.take (commitCount pre)) = (m.db, m.udb) := by
  have hb : b = true := C09_step_all hI op (.frame c f b) (by rw [ho]; simp) c f b rfl
  obtain ⟨m, hm, h1, h2, h3, h4⟩ := ack_files g.sys op hL ho
  have hs := (synced_iff m).1 (by rw [← h3]; exact hb)
  exact ⟨hb, m, hm, h1, h2, hs.1, hs.2, by rw [h4, hs.1, hs.2]⟩

/-- the log quantified over in `C09_ack_durable` exists -/
theorem C09_ack_durable_log (s : Sys) (op : Op) : ∃ L, Exec s.atStart (s.atStart.stepPlain op.body) L :=
  stepPlain_exec _ _

/-- `C09_ack_durable` for reachable states, log supplied -/
theorem C09_ack_durable_reach {g : GSys} (hg : g.Reach) (op : Op) :
    ∃ L, Exec g.sys.atStart (g.sys.atStart.stepPlain op.body) L ∧
      ∀ pre c f b post, (g.sys.step op).out = pre ++ .frame c f b :: post →
        b = true ∧ ∃ m ∈ L, m.out = pre ∧ m.snaps = (g.sys.step op).snaps.take (commitCount pre) ∧
          m.db = m.disk ∧ m.udb = m.udisk ∧
          lastSnap (g.sys.disk, g.sys.udisk) ((g.sys.step op).snaps.take (commitCount pre)) = (m.db, m.udb) := by
  obtain ⟨L, hL⟩ := C09_ack_durable_log g.sys op
  exact ⟨L, hL, fun _ _ _ _ _ ho => C09_ack_durable hg.ginv op hL ho⟩

/-- **the restored state is a `crashIn` state.**  `op` not a crash, a frame of its output with `j`
    commits before it: the step `crashIn j op` (the process dies right after the `j`-th commit; for
    `j = 0`, before the first) leaves exactly the databases the sender `m` of the frame was acting
    on; its output is the part of `pre` up to that commit (`r` has no commit: the files do not
    change between that commit and the frame). -/
theorem C09_ack_durable_crash {g : GSys} (hI : g.GInv) {op : Op} (hop : op.isCrash = false) {L : List Sys}
    (hL : Exec g.sys.atStart (g.sys.atStart.stepPlain op) L)
    {pre : List Event} {c : Nat} {f : Frame} {b : Bool} {post : List Event}
    (ho : (g.sys.step op).out = pre ++ .frame c f b :: post) :
    ∃ m ∈ L, m.out = pre ∧ m.db = m.disk ∧ m.udb = m.udisk ∧
      (g.sys.step (.crashIn (commitCount pre) op)).db = m.db ∧
      (g.sys.step (.crashIn (commitCount pre) op)).udb = m.udb ∧
      ∃ r, pre = (g.sys.step (.crashIn (commitCount pre) op)).out ++ r ∧ commitCount r = 0 := by
  have hbody := body_of_not_crash hop
  obtain ⟨_, m, hm, h1, _, h3, h4, h5⟩ := C09_ack_durable hI op (hbody.symm ▸ hL) ho
  have hstep : g.sys.step op = g.sys.atStart.stepPlain op := step_eq_of_not_crash g.sys hop
  have hf := (step_crash_files g.sys (commitCount pre) op).1
  rw [hstep] at h5 ho
  rw [h5] at hf
  have hdb := congrArg Prod.fst hf
  have hudb := congrArg Prod.snd hf
  refine ⟨m, hm, h1, h3, h4, hdb, hudb, ?_⟩
  have hcnt := (stepPlain_sends g.sys op hL).count
  have hc := crash_restores g.sys (commitCount pre) op
  rcases Nat.eq_zero_or_pos (commitCount pre) with h0 | hpos
  · obtain ⟨_, _, hout⟩ := hc.1 h0
    exact ⟨pre, by rw [hout]; rfl, h0⟩
  · have hle : commitCount pre - 1 < (g.sys.atStart.stepPlain op).snaps.length := by
      rw [hcnt, ho, commitCount_append]; omega
    obtain ⟨_, _, hout, _⟩ := hc.2.1 _ hpos (List.getElem?_eq_getElem hle)
    rw [hout, ho]
    exact cutAtCommit_count pre _

/-- **(B) the last frame / a crash after the last commit**: `op` not a crash; if the process dies
    after the last commit of `op` (in particular right after its answer frame), the files are the
    databases of the completed step -/
theorem C09_ack_durable_last {g : GSys} (hI : g.GInv) {op : Op} (hop : op.isCrash = false) {k : Nat}
    (hk : (g.sys.step op).snaps.length ≤ k) :
    (g.sys.step (.crashIn k op)).db = (g.sys.step op).db ∧
    (g.sys.step (.crashIn k op)).udb = (g.sys.step op).udb := by
  have hstep : g.sys.step op = g.sys.atStart.stepPlain op := step_eq_of_not_crash g.sys hop
  have hsy : (g.sys.step op).Synced := (Ok.step hI.synced hI.cinv.npOk hop).synced
  obtain ⟨L, hL⟩ := stepPlain_exec g.sys.atStart op
  have hlast := (stepPlain_sends g.sys op hL).last
  have hf := (step_crash_files g.sys k op).1
  rw [hstep] at hk hsy ⊢
  rw [List.take_of_length_le hk, hlast] at hf
  exact ⟨(congrArg Prod.fst hf).trans hsy.1.symm, (congrArg Prod.snd hf).trans hsy.2.symm⟩

end Wormhole
