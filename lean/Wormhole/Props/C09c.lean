/-
  C09, second clause — "a crash right after a frame loses nothing acknowledged"
  (DESIGN §6, corollary `C09_ack_durable`: the state restored by a crash immediately after a frame
  equals the state the server was acting on when it sent it).

  Props/C09.lean / C09b.lean prove that every frame carries `synced = true`.  This file says what
  that is worth for a crash, frame by frame, INSIDE a step:

  1. `send_flag`: the flag of a frame is `decide (db = disk) && decide (udb = udisk)` of the state
     that calls `send`; it is `true` iff that state has nothing uncommitted.
     `send_durable`: in a state where commits and snapshots have been appended together and the
     last snapshot is the disk (`AckInv0`, true all along a step: `ackInv0_stepPlain`), a `send`
     with flag `true` emits a frame such that the files a kill right after it leaves are the
     `(db, udb)` of the sending state.

  2. An instrumented reading of a step.  `Sys` has no field for "the databases as they were when
     frame number i was sent", and the model must not be changed; so the executions are described
     from outside: `Exec s0 s L` is the least relation such that `s` is obtained from `s0` by the
     primitives of Sys.lean (`send`, `emit` of an `internal` or `fired` event, `commit`,
     `ucommit`, `modDb`, `modUdb`, a change of `conns`, a change of `rebooted`) — frames are produced
     by `send` only, commit events by `commit`/`ucommit` only —, and `L` is the GHOST LOG of that
     execution: the list of the states from which `send` was called, oldest first (the whole state:
     its `out` is the output before the frame, its `db`/`udb` are what the server was acting on).
       * `stepPlain_exec`: every operation of the model IS such an execution (`AClosed`,
         Inv/AckDurClosed.lean: one pass through Core.lean/Ws.lean in the style of `UClosed`, with
         `send` kept apart from `emit`; the log is built call by call: one entry per `send` of the
         code, in order);
       * `Exec.sends`: for EVERY execution from a state with empty `out`/`snaps` (not only the one
         `stepPlain_exec` exhibits) and every entry `m` of its log:
           - `m.snaps.length = commitCount m.out`, `lastSnap D0 m.snaps = (m.disk, m.udisk)`
             (commits and snapshots are appended together; the last snapshot is the disk),
           - the final `out` is `m.out ++ frame c f m.synced :: post`, the final `snaps` extend
             `m.snaps` (nothing is ever removed or rewritten),
           - every frame of the final `out` has its entry (`cover`).

  3. `C09_ack_durable` (the property): for every state `g` satisfying the invariant (hence every
     reachable one: `C09_ack_durable_reach`), every operation `op` (crashes included) and EVERY
     execution log `L` of the step (one exists), every frame of `(g.sys.step op).out`,
     `out = pre ++ frame c f b :: post`:  `b = true`, and there is `m ∈ L` — the state that sent
     this frame — with `m.out = pre`, `m.snaps = snaps.take (commitCount pre)`, `m.db = m.disk`,
     `m.udb = m.udisk`, and
         `lastSnap (g.sys.disk, g.sys.udisk) (snaps.take (commitCount pre)) = (m.db, m.udb)`:
     the pair of files a kill right after this frame leaves (the last snapshot committed before it,
     or the files the step started with) is exactly the pair of databases the server was acting on.

  4. The files of item 3 literally are a `crashIn` state: `step_crash_files`: for every `k`,
     `crashIn k op` leaves `(db, udb) = lastSnap (disk, udisk) ((step op).snaps.take k)`.
     `C09_ack_durable_crash`: with `j = commitCount pre`, `(g.sys.step (.crashIn j op)).db = m.db`
     and `.udb = m.udb`.  NOTE the model has crash points only at commits: `crashIn j op` dies
     right after the `j`-th commit, so its output (`cutAtCommit j`) is the part of `pre` up to its
     last commit — the frame itself and whatever non-commit events precede it since that commit are
     not in the crashed step's output, although the files are the same at all these instants
     (`lastSnap` depends on the number of commits only).  That is said by the last conjunct of
     `C09_ack_durable_crash`.

  5. `C09_ack_durable_last` (cheap special case): a crash after the last commit of a step
     (`k ≥ snaps.length`) leaves the `db`/`udb` of the completed step.

  6. `C09_ack_durable_trace`: the same for every prefix, ending in a frame, of the trace of every
     well-formed history from the initial state (the referee's wording, AUDIT_A problem 10).

  Why the log is not a weakness: `Exec` is a relation, so one final state might be reached by
  several executions with different logs; the theorems hold for EVERY log (`hL` is a hypothesis),
  and the entry of a frame is pinned down by the final state anyway (`m.out = pre`, `m.snaps`,
  `(m.disk, m.udisk)` and, the flag being `true`, `(m.db, m.udb)` are all determined).

  What is NOT covered: nothing of the clause as formalised in DESIGN §6.  (Limits of the model, not
  of the theorem: crash points between two commits are not separate `Op`s — harmless, see 4; a
  commit is atomic and durable, journal side files are not modelled — C19/C20.)
-/
import Wormhole.Props.C09b
import Wormhole.Inv.AckDurClosed

namespace Wormhole
namespace Sys

/-! ## 1. the flag -/

/- `synced_iff : s.synced = true ↔ s.Synced` (`Synced s := s.db = s.disk ∧ s.udb = s.udisk`) is in
   Inv/SyncLemmas.lean. -/

/-- **the meaning of the flag**: `send` appends one frame whose flag is computed from the sending
    state; it is `true` iff that state has nothing uncommitted; nothing else changes -/
theorem send_flag (s : Sys) (c : Nat) (f : Frame) :
    (s.send c f).out = s.out ++ [.frame c f (decide (s.db = s.disk) && decide (s.udb = s.udisk))] ∧
    ((decide (s.db = s.disk) && decide (s.udb = s.udisk)) = true ↔ s.db = s.disk ∧ s.udb = s.udisk) ∧
    (s.send c f).snaps = s.snaps ∧ (s.send c f).db = s.db ∧ (s.send c f).udb = s.udb ∧
    (s.send c f).disk = s.disk ∧ (s.send c f).udisk = s.udisk :=
  ⟨rfl, by simp, rfl, rfl, rfl, rfl, rfl⟩

/-! ## 2. commits, snapshots, the files a kill leaves -/

def isCommitB : Event → Bool
  | .commit _ => true
  | _ => false

/-- number of (effective) commits among the events -/
def commitCount (l : List Event) : Nat := l.countP isCommitB

@[simp] theorem commitCount_nil : commitCount [] = 0 := rfl
@[simp] theorem commitCount_append (a b : List Event) : commitCount (a ++ b) = commitCount a + commitCount b :=
  List.countP_append
@[simp] theorem commitCount_commit (w : DbId) (l : List Event) :
    commitCount (.commit w :: l) = commitCount l + 1 := by
  unfold commitCount; rw [List.countP_cons_of_pos (by rfl)]
theorem commitCount_notCommit {e : Event} (h : isCommitB e = false) (l : List Event) :
    commitCount (e :: l) = commitCount l := by simp [commitCount, h]
theorem commitCount_notFrame_frame (c f b) (l : List Event) :
    commitCount (.frame c f b :: l) = commitCount l := commitCount_notCommit rfl l

/-- the files a kill leaves when the step started with files `D0` and has committed the snapshots
    `snaps` so far: the last snapshot, `D0` if there is none -/
def lastSnap (D0 : Chan × Usage) (snaps : List (Chan × Usage)) : Chan × Usage := snaps.getLast?.getD D0

@[simp] theorem lastSnap_nil (D0) : lastSnap D0 [] = D0 := rfl
@[simp] theorem lastSnap_concat (D0) (l : List (Chan × Usage)) (p) : lastSnap D0 (l ++ [p]) = p := by
  simp [lastSnap]

/-- commits and snapshots have been appended together, and the last snapshot is the disk -/
def AckInv0 (D0 : Chan × Usage) (s : Sys) : Prop :=
  s.snaps.length = commitCount s.out ∧ lastSnap D0 s.snaps = (s.disk, s.udisk)

/-- **a synced `send` is durable**: in a state satisfying `AckInv0`, if nothing is uncommitted then
    the frame goes out with flag `true`, and the files a kill leaves right after it — the last of
    the snapshots committed before it, `D0` if none — are the `(db, udb)` of the sending state -/
theorem send_durable {D0 : Chan × Usage} {s : Sys} (h : AckInv0 D0 s) (c : Nat) (f : Frame)
    (hs : s.synced = true) :
    (s.send c f).out = s.out ++ [.frame c f true] ∧
    lastSnap D0 ((s.send c f).snaps.take (commitCount (s.out ++ [.frame c f true]))) = (s.db, s.udb) := by
  have h1 : (s.send c f).out = s.out ++ [.frame c f true] := by
    show s.out ++ [.frame c f s.synced] = _
    rw [hs]
  have hsy := (synced_iff s).1 hs
  refine ⟨h1, ?_⟩
  have : commitCount (s.out ++ [.frame c f true]) = s.snaps.length := by
    rw [commitCount_append, h.1]; simp [commitCount, isCommitB]
  rw [this]
  show lastSnap D0 (s.snaps.take s.snaps.length) = _
  rw [List.take_length, h.2, hsy.1, hsy.2]

/-- `lastSnap` of the first `k` snapshots, by cases -/
theorem lastSnap_take (D0) (l : List (Chan × Usage)) (k : Nat) :
    lastSnap D0 (l.take k) =
      if k = 0 then D0 else match l[k - 1]? with
        | some p => p
        | none => lastSnap D0 l := by
  cases k with
  | zero => simp
  | succ k =>
    cases h : l[k]? <;> simp [lastSnap, List.getLast?_take, h]

/-! ## 3. executions with a ghost log -/

/-- `Exec s0 s L`: `s` is reached from `s0` by the primitives of Sys.lean; `L` = the states from
    which `send` was called along the way, oldest first -/
inductive Exec (s0 : Sys) : Sys → List Sys → Prop
  | start : Exec s0 s0 []
  | send {s : Sys} {L : List Sys} (c : Nat) (f : Frame) : Exec s0 s L → Exec s0 (s.send c f) (L ++ [s])
  | note {s : Sys} {L : List Sys} (e : Event) : Note e → Exec s0 s L → Exec s0 (s.emit e) L
  | commit {s : Sys} {L : List Sys} : Exec s0 s L → Exec s0 s.commit L
  | ucommit {s : Sys} {L : List Sys} : Exec s0 s L → Exec s0 s.ucommit L
  | modDb {s : Sys} {L : List Sys} (f : Chan → Chan) : Exec s0 s L → Exec s0 (s.modDb f) L
  | modUdb {s : Sys} {L : List Sys} (f : Usage → Usage) : Exec s0 s L → Exec s0 (s.modUdb f) L
  | conns {s : Sys} {L : List Sys} (cs : List Conn) : Exec s0 s L → Exec s0 { s with conns := cs } L
  | reboot {s : Sys} {L : List Sys} (t : Time) : Exec s0 s L → Exec s0 { s with rebooted := t } L

/-- what holds of an execution from a state with empty `out`/`snaps` and files `D0` -/
structure Sends (D0 : Chan × Usage) (s : Sys) (L : List Sys) : Prop where
  /-- commits and snapshots are appended together -/
  count : s.snaps.length = commitCount s.out
  /-- the last snapshot is the disk -/
  last : lastSnap D0 s.snaps = (s.disk, s.udisk)
  /-- every logged state had the two properties above, its frame is in `out` right after what it
      had emitted, with the flag computed from it; `out` and `snaps` have only grown since -/
  mid : ∀ m ∈ L, m.snaps.length = commitCount m.out ∧ lastSnap D0 m.snaps = (m.disk, m.udisk) ∧
      ∃ c f post sn, s.out = m.out ++ .frame c f m.synced :: post ∧ s.snaps = m.snaps ++ sn
  /-- every frame of `out` was sent from a logged state -/
  cover : ∀ pre c f b post, s.out = pre ++ .frame c f b :: post → ∃ m ∈ L, m.out = pre

theorem split_snoc {α : Type} {a pre post : List α} {x y : α} (h : a ++ [x] = pre ++ y :: post) :
    (a = pre ∧ x = y ∧ post = []) ∨ ∃ post', post = post' ++ [x] ∧ a = pre ++ y :: post' := by
  rcases List.eq_nil_or_concat post with rfl | ⟨p', z, rfl⟩
  · left
    have := List.append_inj' h rfl
    simp_all
  · right
    rw [List.concat_eq_append] at h ⊢
    have h' : a ++ [x] = (pre ++ y :: p') ++ [z] := by simpa using h
    have := List.append_inj' h' rfl
    refine ⟨p', ?_, this.1⟩
    simp_all

theorem Sends.congr {D0 s s' L} (h : Sends D0 s L) (ho : s'.out = s.out) (hs : s'.snaps = s.snaps)
    (hd : s'.disk = s.disk) (hu : s'.udisk = s.udisk) : Sends D0 s' L := by
  refine ⟨by rw [ho, hs]; exact h.count, by rw [hs, hd, hu]; exact h.last, ?_, ?_⟩
  · rw [ho, hs]; exact h.mid
  · rw [ho]; exact h.cover

/-- one non-frame event, with as many snapshots as it is a commit -/
theorem Sends.grow1 {D0 s s' L} (h : Sends D0 s L) {e : Event} {sn : List (Chan × Usage)}
    (ho : s'.out = s.out ++ [e]) (he : NotFrame e) (hs : s'.snaps = s.snaps ++ sn)
    (hc : sn.length = commitCount [e]) (hl : lastSnap D0 s'.snaps = (s'.disk, s'.udisk)) :
    Sends D0 s' L := by
  refine ⟨?_, hl, ?_, ?_⟩
  · rw [ho, hs, List.length_append, commitCount_append, h.count, hc]
  · intro m hm
    obtain ⟨h1, h2, c, f, post, sn0, h3, h4⟩ := h.mid m hm
    exact ⟨h1, h2, c, f, post ++ [e], sn0 ++ sn, by rw [ho, h3]; simp, by rw [hs, h4]; simp⟩
  · intro pre c f b post hp
    rw [ho] at hp
    rcases split_snoc hp with ⟨_, rfl, _⟩ | ⟨post', _, h2⟩
    · exact absurd he (by simp [NotFrame])
    · exact h.cover pre c f b post' h2

theorem Sends.send {D0 s L} (h : Sends D0 s L) (c : Nat) (f : Frame) : Sends D0 (s.send c f) (L ++ [s]) := by
  have ho : (s.send c f).out = s.out ++ [.frame c f s.synced] := rfl
  refine ⟨?_, h.last, ?_, ?_⟩
  · rw [ho, commitCount_append]
    show s.snaps.length = _
    rw [h.count]; simp [commitCount, isCommitB]
  · intro m hm
    rcases List.mem_append.1 hm with hm | hm
    · obtain ⟨h1, h2, c', f', post, sn0, h3, h4⟩ := h.mid m hm
      exact ⟨h1, h2, c', f', post ++ [.frame c f s.synced], sn0, by rw [ho, h3]; simp, h4⟩
    · have : m = s := by simpa using hm
      subst this
      exact ⟨h.count, h.last, c, f, [], [], ho, by simp [Sys.send, Sys.emit]⟩
  · intro pre c' f' b post hp
    rw [ho] at hp
    rcases split_snoc hp with ⟨h1, _, _⟩ | ⟨post', _, h2⟩
    · exact ⟨s, by simp, h1⟩
    · obtain ⟨m, hm, h3⟩ := h.cover pre c' f' b post' h2
      exact ⟨m, List.mem_append_left _ hm, h3⟩

theorem Sends.commit {D0 s L} (h : Sends D0 s L) : Sends D0 s.commit L := by
  unfold Sys.commit
  split
  · exact h
  · exact h.grow1 (e := .commit .chan) (sn := [(s.db, s.udisk)]) rfl trivial rfl
      (by simp) (by simp)

theorem Sends.ucommit {D0 s L} (h : Sends D0 s L) : Sends D0 s.ucommit L := by
  unfold Sys.ucommit
  split
  · exact h
  · exact h.grow1 (e := .commit .usage) (sn := [(s.disk, s.udb)]) rfl trivial rfl
      (by simp) (by simp)

/-- **every execution** from a state with empty `out` and `snaps` -/
theorem Exec.sends {s0 s : Sys} {L : List Sys} (h : Exec s0 s L) (ho : s0.out = []) (hs : s0.snaps = []) :
    Sends (s0.disk, s0.udisk) s L := by
  induction h with
  | start =>
    refine ⟨by rw [ho, hs]; rfl, by rw [hs]; rfl, by intro m hm; simp at hm, ?_⟩
    intro pre c f b post hp
    rw [ho] at hp
    simp at hp
  | send c f _ ih => exact ih.send c f
  | @note s1 L1 e he _ ih =>
    cases e with
    | frame c f b => exact absurd he (by simp [Note])
    | commit w => exact absurd he (by simp [Note])
    | internal c cls =>
      exact ih.grow1 (s' := s1.emit (.internal c cls)) (sn := []) rfl trivial (by simp [Sys.emit]) rfl ih.last
    | fired a b =>
      exact ih.grow1 (s' := s1.emit (.fired a b)) (sn := []) rfl trivial (by simp [Sys.emit]) rfl ih.last
  | commit _ ih => exact ih.commit
  | ucommit _ ih => exact ih.ucommit
  | modDb f _ ih => exact ih.congr rfl rfl rfl rfl
  | modUdb f _ ih => exact ih.congr rfl rfl rfl rfl
  | conns cs _ ih => exact ih.congr rfl rfl rfl rfl
  | reboot t _ ih => exact ih.congr rfl rfl rfl rfl

/-- what `Sends` says about one frame of the output -/
theorem Sends.frame {D0 s L} (h : Sends D0 s L) {pre : List Event} {c f b post}
    (ho : s.out = pre ++ .frame c f b :: post) :
    ∃ m ∈ L, m.out = pre ∧ m.snaps = s.snaps.take (commitCount pre) ∧ b = m.synced ∧
      lastSnap D0 (s.snaps.take (commitCount pre)) = (m.disk, m.udisk) := by
  obtain ⟨m, hm, hpre⟩ := h.cover pre c f b post ho
  obtain ⟨h1, h2, c', f', post', sn, h3, h4⟩ := h.mid m hm
  have htake : s.snaps.take (commitCount pre) = m.snaps := by
    rw [h4, ← hpre]; exact List.take_left' h1
  refine ⟨m, hm, hpre, htake.symm, ?_, by rw [htake]; exact h2⟩
  rw [ho, hpre] at h3
  have := List.append_cancel_left h3
  simp only [List.cons.injEq, Event.frame.injEq] at this
  exact this.1.2.2

/-! ## 4. every function of the model is an execution

  `AClosed T` (Inv/AckDurClosed.lean): `T` survives the primitives (`send`, `emit` of a `Note`
  event, `commit`, `ucommit`, `modDb`, `modUdb`, changes of `conns` and of `rebooted`); then it
  survives every function of Core.lean / Ws.lean (`AClosed.stepPlain`). -/

theorem exec_closed (s0 : Sys) : AClosed (fun s => ∃ L, Exec s0 s L) where
  send0 := fun s c f ⟨L, h⟩ => ⟨L ++ [s], h.send c f⟩
  note := fun _ e he ⟨L, h⟩ => ⟨L, h.note e he⟩
  commit := fun _ ⟨L, h⟩ => ⟨L, h.commit⟩
  ucommit := fun _ ⟨L, h⟩ => ⟨L, h.ucommit⟩
  modDb := fun _ f ⟨L, h⟩ => ⟨L, h.modDb f⟩
  modUdb := fun _ f ⟨L, h⟩ => ⟨L, h.modUdb f⟩
  conns := fun _ cs ⟨L, h⟩ => ⟨L, h.conns cs⟩
  reboot := fun _ t ⟨L, h⟩ => ⟨L, h.reboot t⟩

/-- **every operation of the model is an execution by primitives, with a log of its sends** -/
theorem stepPlain_exec (s0 : Sys) (op : Op) : ∃ L, Exec s0 (s0.stepPlain op) L :=
  (exec_closed s0).stepPlain ⟨[], .start⟩ op

/-! ## 5. steps -/

/-- the state a step starts from -/
def atStart (s : Sys) : Sys := { s with out := [], snaps := [] }

end Sys

/-- the operation a step executes (a crash executes the operation it interrupts) -/
def Op.body : Op → Op
  | .crashIn _ op => op
  | op => op

namespace Sys

theorem body_of_not_crash {op : Op} (h : op.isCrash = false) : op.body = op := by
  cases op <;> first | rfl | simp [Op.isCrash] at h

/-- the invariant along the step: what `stepPlain` of the cleared state satisfies, for every log -/
theorem stepPlain_sends (s : Sys) (op : Op) {L : List Sys} (hL : Exec s.atStart (s.atStart.stepPlain op) L) :
    Sends (s.disk, s.udisk) (s.atStart.stepPlain op) L :=
  hL.sends rfl rfl

/-- `AckInv0` holds at the end of (and, `Exec.sends`, all along) every operation -/
theorem ackInv0_stepPlain (s : Sys) (op : Op) : AckInv0 (s.disk, s.udisk) (s.atStart.stepPlain op) := by
  obtain ⟨L, hL⟩ := stepPlain_exec s.atStart op
  exact ⟨(stepPlain_sends s op hL).count, (stepPlain_sends s op hL).last⟩

theorem cutAtCommit_zero (l : List Event) : cutAtCommit 0 l = [] := by
  cases l <;> rfl

theorem cutAtCommit_prefix : ∀ (k : Nat) (l : List Event), ∃ r, l = cutAtCommit k l ++ r := by
  intro k l
  induction l generalizing k with
  | nil => exact ⟨[], by cases k <;> rfl⟩
  | cons a l ih =>
    cases k with
    | zero => exact ⟨a :: l, by rw [cutAtCommit_zero]; rfl⟩
    | succ k =>
      cases a with
      | commit w => obtain ⟨r, hr⟩ := ih k; exact ⟨r, by simp only [cutAtCommit, List.cons_append, ← hr]⟩
      | frame c f b => obtain ⟨r, hr⟩ := ih (k + 1); exact ⟨r, by simp only [cutAtCommit, List.cons_append, ← hr]⟩
      | internal c cls => obtain ⟨r, hr⟩ := ih (k + 1); exact ⟨r, by simp only [cutAtCommit, List.cons_append, ← hr]⟩
      | fired a b => obtain ⟨r, hr⟩ := ih (k + 1); exact ⟨r, by simp only [cutAtCommit, List.cons_append, ← hr]⟩

/-- cutting at the number of commits of a prefix `pre` gives the part of `pre` up to its last
    commit, whatever follows `pre` -/
theorem cutAtCommit_count : ∀ (pre rest : List Event),
    ∃ r, pre = cutAtCommit (commitCount pre) (pre ++ rest) ++ r ∧ commitCount r = 0 := by
  intro pre rest
  induction pre with
  | nil => exact ⟨[], by simp [cutAtCommit_zero], rfl⟩
  | cons a l ih =>
    obtain ⟨r, hr, hr0⟩ := ih
    have nc : ∀ e : Event, isCommitB e = false → (∀ k (t : List Event), cutAtCommit (k + 1) (e :: t) = e :: cutAtCommit (k + 1) t) →
        ∃ r, e :: l = cutAtCommit (commitCount (e :: l)) (e :: l ++ rest) ++ r ∧ commitCount r = 0 := by
      intro e he hcut
      rw [commitCount_notCommit he]
      cases hn : commitCount l with
      | zero =>
        refine ⟨e :: l, by rw [cutAtCommit_zero]; rfl, ?_⟩
        rw [commitCount_notCommit he]; exact hn
      | succ n =>
        rw [hn] at hr
        exact ⟨r, by rw [List.cons_append, hcut, List.cons_append, ← hr], hr0⟩
    cases a with
    | commit w =>
      refine ⟨r, ?_, hr0⟩
      rw [commitCount_commit, List.cons_append]
      simp only [cutAtCommit, List.cons_append, ← hr]
    | frame c f b => exact nc _ rfl (fun _ _ => rfl)
    | internal c cls => exact nc _ rfl (fun _ _ => rfl)
    | fired a b => exact nc _ rfl (fun _ _ => rfl)

theorem step_crash_succ (s : Sys) (k : Nat) (op : Op) :
    s.step (.crashIn (k + 1) op) =
      match (s.atStart.stepPlain op).snaps[k]? with
      | some p => { ((s.atStart.stepPlain op).crashTo p) with out := cutAtCommit (k + 1) (s.atStart.stepPlain op).out }
      | none => (s.atStart.stepPlain op).crashTo ((s.atStart.stepPlain op).disk, (s.atStart.stepPlain op).udisk) := by
  unfold Sys.step atStart
  dsimp only
  rw [Nat.add_sub_cancel]
  generalize (Sys.stepPlain _ op) = s1
  cases s1.snaps[k]? <;> rfl

/-- **what a crash restores**: for every `k`, the step `crashIn k op` leaves the files as of the
    `k`-th snapshot of `op` (those the step started with if `k = 0`, the final ones if `op` commits
    fewer than `k` times), nothing uncommitted, no connections -/
theorem step_crash_files (s : Sys) (k : Nat) (op : Op) :
    ((s.step (.crashIn k op)).db, (s.step (.crashIn k op)).udb) =
        lastSnap (s.disk, s.udisk) ((s.atStart.stepPlain op).snaps.take k) ∧
    (s.step (.crashIn k op)).disk = (s.step (.crashIn k op)).db ∧
    (s.step (.crashIn k op)).udisk = (s.step (.crashIn k op)).udb ∧
    (s.step (.crashIn k op)).conns = [] := by
  obtain ⟨L, hL⟩ := stepPlain_exec s.atStart op
  have hlast := (stepPlain_sends s op hL).last
  rw [lastSnap_take]
  cases k with
  | zero => exact ⟨rfl, rfl, rfl, rfl⟩
  | succ k =>
    simp only [Nat.add_one_ne_zero, if_false, Nat.add_sub_cancel]
    rw [step_crash_succ]
    cases h : (s.atStart.stepPlain op).snaps[k]? with
    | some p => exact ⟨rfl, rfl, rfl, rfl⟩
    | none => exact ⟨hlast.symm, rfl, rfl, rfl⟩

/-- the output and the snapshots of a crashed step, by cases on `k` -/
theorem crash_restores (s : Sys) (k : Nat) (op : Op) :
    (k = 0 → (s.step (.crashIn k op)).db = s.disk ∧ (s.step (.crashIn k op)).udb = s.udisk ∧
      (s.step (.crashIn k op)).out = []) ∧
    (∀ p, 1 ≤ k → (s.atStart.stepPlain op).snaps[k - 1]? = some p →
      (s.step (.crashIn k op)).db = p.1 ∧ (s.step (.crashIn k op)).udb = p.2 ∧
      (s.step (.crashIn k op)).out = cutAtCommit k (s.atStart.stepPlain op).out ∧
      (s.step (.crashIn k op)).snaps = (s.atStart.stepPlain op).snaps) ∧
    ((s.atStart.stepPlain op).snaps.length < k →
      (s.step (.crashIn k op)).db = (s.atStart.stepPlain op).disk ∧
      (s.step (.crashIn k op)).udb = (s.atStart.stepPlain op).udisk ∧
      (s.step (.crashIn k op)).out = (s.atStart.stepPlain op).out ∧
      (s.step (.crashIn k op)).snaps = (s.atStart.stepPlain op).snaps) := by
  cases k with
  | zero => exact ⟨fun _ => ⟨rfl, rfl, rfl⟩, fun _ h => absurd h (by omega), fun h => absurd h (by omega)⟩
  | succ k =>
    refine ⟨fun h => absurd h (by omega), fun p _ h => ?_, fun hlt => ?_⟩
    · simp only [Nat.add_sub_cancel] at h
      rw [step_crash_succ, h]; exact ⟨rfl, rfl, rfl, rfl⟩
    · have h : (s.atStart.stepPlain op).snaps[k]? = none := by
        rw [List.getElem?_eq_none_iff]; omega
      rw [step_crash_succ, h]; exact ⟨rfl, rfl, rfl, rfl⟩

/-- the output of any step is an initial part of the output of the operation it executes, and
    (unless it is empty) its snapshots are those of that operation -/
theorem step_out_prefix (s : Sys) (op : Op) :
    (∃ r, (s.atStart.stepPlain op.body).out = (s.step op).out ++ r) ∧
    ((s.step op).out = [] ∨ (s.step op).snaps = (s.atStart.stepPlain op.body).snaps) := by
  cases op with
  | crashIn k op' =>
    show (∃ r, (s.atStart.stepPlain op').out = _ ++ r) ∧ (_ ∨ _ = (s.atStart.stepPlain op').snaps)
    have hc := crash_restores s k op'
    rcases Nat.eq_zero_or_pos k with h0 | hpos
    · obtain ⟨_, _, ho⟩ := hc.1 h0
      exact ⟨⟨_, by rw [ho]; rfl⟩, Or.inl ho⟩
    · cases h : (s.atStart.stepPlain op').snaps[k - 1]? with
      | some p =>
        obtain ⟨_, _, ho, hs⟩ := hc.2.1 p hpos h
        obtain ⟨r, hr⟩ := cutAtCommit_prefix k (s.atStart.stepPlain op').out
        exact ⟨⟨r, by rw [ho]; exact hr⟩, Or.inr hs⟩
      | none =>
        have hlt : (s.atStart.stepPlain op').snaps.length < k := by
          rw [List.getElem?_eq_none_iff] at h; omega
        obtain ⟨_, _, ho, hs⟩ := hc.2.2 hlt
        exact ⟨⟨[], by rw [ho]; simp⟩, Or.inr hs⟩
  | connect c => exact ⟨⟨[], by simp [Op.body, Sys.step, atStart]⟩, Or.inr rfl⟩
  | recv c t id cmd => exact ⟨⟨[], by simp [Op.body, Sys.step, atStart]⟩, Or.inr rfl⟩
  | drop c => exact ⟨⟨[], by simp [Op.body, Sys.step, atStart]⟩, Or.inr rfl⟩
  | sweep now fault => exact ⟨⟨[], by simp [Op.body, Sys.step, atStart]⟩, Or.inr rfl⟩
  | restart t => exact ⟨⟨[], by simp [Op.body, Sys.step, atStart]⟩, Or.inr rfl⟩

/-- **per-frame statement, any state** (no invariant needed): the frame at `pre` was sent by the
    logged state `m`; its flag is `m.synced`; the files a kill leaves at that point are `m`'s disk -/
theorem ack_files (s : Sys) (op : Op) {L : List Sys}
    (hL : Exec s.atStart (s.atStart.stepPlain op.body) L)
    {pre : List Event} {c f b post} (ho : (s.step op).out = pre ++ .frame c f b :: post) :
    ∃ m ∈ L, m.out = pre ∧ m.snaps = (s.step op).snaps.take (commitCount pre) ∧ b = m.synced ∧
      lastSnap (s.disk, s.udisk) ((s.step op).snaps.take (commitCount pre)) = (m.disk, m.udisk) := by
  obtain ⟨⟨r, hr⟩, hsn⟩ := step_out_prefix s op
  have hsn' : (s.step op).snaps = (s.atStart.stepPlain op.body).snaps := by
    rcases hsn with h | h
    · rw [h] at ho; simp at ho
    · exact h
  rw [hsn']
  apply (stepPlain_sends s op.body hL).frame (c := c) (f := f) (b := b) (post := post ++ r)
  rw [hr, ho]; simp

end Sys

open Sys

/-! ## 6. the property -/

/-- **C09, second clause (`C09_ack_durable`).**  For every state satisfying the invariant, every
    operation (crashes included), every execution log `L` of the step and every frame of its
    output, `out = pre ++ frame c f b :: post`:
    the frame was sent with `synced = true` from a state `m` of the log — an intermediate state of
    the step with `m.out = pre` and the snapshots committed so far — which had nothing uncommitted;
    and the files a kill right after this frame leaves (the last snapshot committed before it, the
    files the step started with if there is none) are exactly the databases `m` was acting on. -/
theorem C09_ack_durable {g : GSys} (hI : g.GInv) (op : Op) {L : List Sys}
    (hL : Exec g.sys.atStart (g.sys.atStart.stepPlain op.body) L)
    {pre : List Event} {c : Nat} {f : Frame} {b : Bool} {post : List Event}
    (ho : (g.sys.step op).out = pre ++ .frame c f b :: post) :
    b = true ∧ ∃ m ∈ L, m.out = pre ∧ m.snaps = (g.sys.step op).snaps.take (commitCount pre) ∧
      m.db = m.disk ∧ m.udb = m.udisk ∧
      lastSnap (g.sys.disk, g.sys.udisk) ((g.sys.step op).snaps.take (commitCount pre)) = (m.db, m.udb) := by
  have hb : b = true := C09_step_all hI op (.frame c f b) (by rw [ho]; simp) c f b rfl
  obtain ⟨m, hm, h1, h2, h3, h4⟩ := ack_files g.sys op hL ho
  have hs := (synced_iff m).1 (by rw [← h3]; exact hb)
  exact ⟨hb, m, hm, h1, h2, hs.1, hs.2, by rw [h4, hs.1, hs.2]⟩

/-- the log quantified over in `C09_ack_durable` exists -/
theorem C09_ack_durable_log (s : Sys) (op : Op) : ∃ L, Exec s.atStart (s.atStart.stepPlain op.body) L :=
  stepPlain_exec _ _

/-- `C09_ack_durable` for reachable states, log supplied -/
theorem C09_ack_durable_reach {g : GSys} (hg : g.Reach) (op : Op) :
    ∃ L, Exec g.sys.atStart (g.sys.atStart.stepPlain op.body) L ∧
      ∀ pre c f b post, (g.sys.step op).out = pre ++ .frame c f b :: post →
        b = true ∧ ∃ m ∈ L, m.out = pre ∧ m.snaps = (g.sys.step op).snaps.take (commitCount pre) ∧
          m.db = m.disk ∧ m.udb = m.udisk ∧
          lastSnap (g.sys.disk, g.sys.udisk) ((g.sys.step op).snaps.take (commitCount pre)) = (m.db, m.udb) := by
  obtain ⟨L, hL⟩ := C09_ack_durable_log g.sys op
  exact ⟨L, hL, fun _ _ _ _ _ ho => C09_ack_durable hg.ginv op hL ho⟩

/-- **the restored state is a `crashIn` state.**  `op` not a crash, a frame of its output with `j`
    commits before it: the step `crashIn j op` (the process dies right after the `j`-th commit; for
    `j = 0`, before the first) leaves exactly the databases the sender `m` of the frame was acting
    on; its output is the part of `pre` up to that commit (`r` has no commit: the files do not
    change between that commit and the frame). -/
theorem C09_ack_durable_crash {g : GSys} (hI : g.GInv) {op : Op} (hop : op.isCrash = false) {L : List Sys}
    (hL : Exec g.sys.atStart (g.sys.atStart.stepPlain op) L)
    {pre : List Event} {c : Nat} {f : Frame} {b : Bool} {post : List Event}
    (ho : (g.sys.step op).out = pre ++ .frame c f b :: post) :
    ∃ m ∈ L, m.out = pre ∧ m.db = m.disk ∧ m.udb = m.udisk ∧
      (g.sys.step (.crashIn (commitCount pre) op)).db = m.db ∧
      (g.sys.step (.crashIn (commitCount pre) op)).udb = m.udb ∧
      ∃ r, pre = (g.sys.step (.crashIn (commitCount pre) op)).out ++ r ∧ commitCount r = 0 := by
  have hbody := body_of_not_crash hop
  obtain ⟨_, m, hm, h1, _, h3, h4, h5⟩ := C09_ack_durable hI op (hbody.symm ▸ hL) ho
  have hstep : g.sys.step op = g.sys.atStart.stepPlain op := step_eq_of_not_crash g.sys hop
  have hf := (step_crash_files g.sys (commitCount pre) op).1
  rw [hstep] at h5 ho
  rw [h5] at hf
  have hdb := congrArg Prod.fst hf
  have hudb := congrArg Prod.snd hf
  refine ⟨m, hm, h1, h3, h4, hdb, hudb, ?_⟩
  have hcnt := (stepPlain_sends g.sys op hL).count
  have hc := crash_restores g.sys (commitCount pre) op
  rcases Nat.eq_zero_or_pos (commitCount pre) with h0 | hpos
  · obtain ⟨_, _, hout⟩ := hc.1 h0
    exact ⟨pre, by rw [hout]; rfl, h0⟩
  · have hle : commitCount pre - 1 < (g.sys.atStart.stepPlain op).snaps.length := by
      rw [hcnt, ho, commitCount_append]; omega
    obtain ⟨_, _, hout, _⟩ := hc.2.1 _ hpos (List.getElem?_eq_getElem hle)
    rw [hout, ho]
    exact cutAtCommit_count pre _

/-- **(B) the last frame / a crash after the last commit**: `op` not a crash; if the process dies
    after the last commit of `op` (in particular right after its answer frame), the files are the
    databases of the completed step -/
theorem C09_ack_durable_last {g : GSys} (hI : g.GInv) {op : Op} (hop : op.isCrash = false) {k : Nat}
    (hk : (g.sys.step op).snaps.length ≤ k) :
    (g.sys.step (.crashIn k op)).db = (g.sys.step op).db ∧
    (g.sys.step (.crashIn k op)).udb = (g.sys.step op).udb := by
  have hstep : g.sys.step op = g.sys.atStart.stepPlain op := step_eq_of_not_crash g.sys hop
  have hsy : (g.sys.step op).Synced := (Ok.step hI.synced hI.cinv.npOk hop).synced
  obtain ⟨L, hL⟩ := stepPlain_exec g.sys.atStart op
  have hlast := (stepPlain_sends g.sys op hL).last
  have hf := (step_crash_files g.sys k op).1
  rw [hstep] at hk hsy ⊢
  rw [List.take_of_length_le hk, hlast] at hf
  exact ⟨(congrArg Prod.fst hf).trans hsy.1.symm, (congrArg Prod.snd hf).trans hsy.2.symm⟩

/-! ### histories: every frame of the trace of every well-formed history -/

theorem GSys.c09c_wf_prefix {g : GSys} {a b : List Op} (h : g.WF (a ++ b)) : g.WF a := by
  induction a generalizing g with
  | nil => trivial
  | cons op rest ih => exact ⟨h.1, ih h.2⟩

/-- every event of the trace of a history belongs to the output of one of its steps -/
theorem Sys.trace_split : ∀ (ops : List Op) (s0 : Sys) (tpre : List Event) (e : Event) (tpost : List Event),
    (Sys.run s0 ops).2 = tpre ++ e :: tpost →
    ∃ a op rest pre post, ops = a ++ op :: rest ∧ tpre = (Sys.run s0 a).2 ++ pre ∧
      ((Sys.run s0 a).1.step op).out = pre ++ e :: post := by
  intro ops
  induction ops with
  | nil => intro s0 tpre e tpost h; simp [Sys.run] at h
  | cons op rest ih =>
    intro s0 tpre e tpost h
    simp only [Sys.run] at h
    rcases List.append_eq_append_iff.1 h with ⟨as, h1, h2⟩ | ⟨bs, h1, h2⟩
    · obtain ⟨a, op', rest', pre, post, e1, e2, e3⟩ := ih (s0.step op) as e tpost h2
      refine ⟨op :: a, op', rest', pre, post, by rw [e1]; rfl, ?_, ?_⟩
      · simp only [Sys.run]; rw [h1, e2, List.append_assoc]
      · simpa only [Sys.run] using e3
    · cases bs with
      | nil =>
        simp only [List.nil_append] at h2
        obtain ⟨a, op', rest', pre, post, e1, e2, e3⟩ := ih (s0.step op) [] e tpost h2.symm
        have hnil : (Sys.run (s0.step op) a).2 = [] ∧ pre = [] := by
          have := congrArg List.length e2; simp at this; exact ⟨List.eq_nil_of_length_eq_zero (by omega),
            List.eq_nil_of_length_eq_zero (by omega)⟩
        refine ⟨op :: a, op', rest', pre, post, by rw [e1]; rfl, ?_, ?_⟩
        · simp only [Sys.run]; rw [hnil.1, hnil.2]; simpa using h1.symm
        · simpa only [Sys.run] using e3
      | cons x bs =>
        simp only [List.cons_append, List.cons.injEq] at h2
        refine ⟨[], op, rest, tpre, bs, rfl, by simp [Sys.run], ?_⟩
        show (s0.step op).out = _
        rw [h1, h2.1]

/-- **C09, second clause, on traces.**  For every configuration, start time and well-formed
    history `ops` (crashes, sweeps, restarts included), every prefix `tpre ++ [frame c f fl]` of the
    trace: `fl = true`; the frame belongs to a step `op` of the history (`ops = a ++ op :: rest`,
    `tpre` = the trace of `a` followed by `pre`), executed from the state `s` reached by `a`; that
    step has an execution log `L` and in it the state `m` that sent the frame (`m.out = pre`),
    which had nothing uncommitted, and the files a kill right after the frame leaves — the last
    snapshot committed before it in that step, else the files `s` had — are the databases `m` was
    acting on. -/
theorem C09_ack_durable_trace (cfg : Cfg) (rb : Time) (ops : List Op) (hwf : (GSys.init cfg rb).WF ops)
    {tpre : List Event} {c : Nat} {f : Frame} {fl : Bool} {tpost : List Event}
    (ht : (Sys.run { cfg := cfg, rebooted := rb } ops).2 = tpre ++ .frame c f fl :: tpost) :
    fl = true ∧ ∃ a op rest pre post, ops = a ++ op :: rest ∧
      tpre = (Sys.run { cfg := cfg, rebooted := rb } a).2 ++ pre ∧
      ((Sys.run { cfg := cfg, rebooted := rb } a).1.step op).out = pre ++ .frame c f fl :: post ∧
      ∃ L, Exec (Sys.run { cfg := cfg, rebooted := rb } a).1.atStart
            ((Sys.run { cfg := cfg, rebooted := rb } a).1.atStart.stepPlain op.body) L ∧
        ∃ m ∈ L, m.out = pre ∧ m.db = m.disk ∧ m.udb = m.udisk ∧
          lastSnap ((Sys.run { cfg := cfg, rebooted := rb } a).1.disk, (Sys.run { cfg := cfg, rebooted := rb } a).1.udisk)
            (((Sys.run { cfg := cfg, rebooted := rb } a).1.step op).snaps.take (commitCount pre)) = (m.db, m.udb) := by
  obtain ⟨a, op, rest, pre, post, e1, e2, e3⟩ := Sys.trace_split ops _ _ _ _ ht
  have hreach : ((GSys.init cfg rb).run a).Reach :=
    GSys.reach_run (.init cfg rb) a (GSys.c09c_wf_prefix (b := op :: rest) (e1 ▸ hwf))
  have hI := hreach.ginv
  have hsys : ((GSys.init cfg rb).run a).sys = (Sys.run { cfg := cfg, rebooted := rb } a).1 := GSys.run_sys _ _
  obtain ⟨L, hL⟩ := C09_ack_durable_log ((GSys.init cfg rb).run a).sys op
  have e3' : (((GSys.init cfg rb).run a).sys.step op).out = pre ++ .frame c f fl :: post := by rw [hsys]; exact e3
  obtain ⟨hb, m, hm, h1, _, h3, h4, h5⟩ := C09_ack_durable hI op hL e3'
  rw [hsys] at hL h5
  exact ⟨hb, a, op, rest, pre, post, e1, e2, e3, L, hL, m, hm, h1, h3, h4, h5⟩

/-! ## 7. Non-vacuity: a `close` that commits three times (usage database on) -/

namespace C09cExample

/-- connect, bind, claim (new nameplate and mailbox), open, add -/
def hist : List Op :=
  [ .connect 1,
    .recv 1 10 (.int 1) (.bind (some "app") (some "s1") (some "impl") (some "v")),
    .recv 1 11 (.int 2) (.claim (some "4") "mb1"),
    .recv 1 12 (.int 3) (.open_ (some "mb1")),
    .recv 1 13 (.int 4) (.add (some (.str "pake")) (some (.str "body"))) ]

def g : GSys := (GSys.init { usage := true } 0).run hist

theorem g_reach : g.Reach := GSys.reach_of_wfB _ _ _ (by decide +kernel)

/-- the last side closes: side row updated + commit; nameplate and mailbox summaries written,
    rows deleted, usage commit; channel commit; answer -/
def closeOp : Op := .recv 1 14 (.int 5) (.close (some "mb1") (some "happy"))

def ackF : Event := .frame 1 (.ack (.int 5)) true
def closedF : Event := .frame 1 .closed true
def cC : Event := .commit .chan
def cU : Event := .commit .usage

/-- evaluated: the `ack` precedes all three commits, the answer follows them -/
theorem close_out : (g.sys.step closeOp).out = [ackF, cC, cU, cC, closedF] := by decide +kernel

example : (g.sys.step closeOp).snaps.length = 3 := by decide +kernel

/-- the three crash points are three different pairs of files, all different from the files the
    step started with; the last one is the databases of the completed step -/
example :
    let D0 := (g.sys.disk, g.sys.udisk)
    let sn := (g.sys.step closeOp).snaps
    lastSnap D0 (sn.take 0) = D0 ∧ lastSnap D0 (sn.take 1) ≠ D0 ∧
    lastSnap D0 (sn.take 2) ≠ lastSnap D0 (sn.take 1) ∧ lastSnap D0 (sn.take 3) ≠ lastSnap D0 (sn.take 2) ∧
    lastSnap D0 (sn.take 3) = ((g.sys.step closeOp).db, (g.sys.step closeOp).udb) := by
  decide +kernel

/-- `C09_ack_durable` applied to both frames of the step: the `ack` was sent from a state `m` with
    empty output acting on the files the step STARTED with — a kill right after the `ack` leaves
    those; the `closed` was sent from a state acting on the THIRD snapshot — a kill right after
    `closed` leaves that one (the mailbox gone, its usage rows written) -/
example : ∃ L, Exec g.sys.atStart (g.sys.atStart.stepPlain closeOp) L ∧
    (∃ m ∈ L, m.out = [] ∧ m.db = m.disk ∧ m.udb = m.udisk ∧ (g.sys.disk, g.sys.udisk) = (m.db, m.udb)) ∧
    (∃ m ∈ L, m.out = [ackF, cC, cU, cC] ∧ m.db = m.disk ∧ m.udb = m.udisk ∧
      lastSnap (g.sys.disk, g.sys.udisk) ((g.sys.step closeOp).snaps.take 3) = (m.db, m.udb)) := by
  obtain ⟨L, hL, H⟩ := C09_ack_durable_reach g_reach closeOp
  refine ⟨L, hL, ?_, ?_⟩
  · obtain ⟨_, m, hm, h1, _, h3, h4, h5⟩ := H [] 1 (.ack (.int 5)) true [cC, cU, cC, closedF] close_out
    exact ⟨m, hm, h1, h3, h4, h5⟩
  · obtain ⟨_, m, hm, h1, _, h3, h4, h5⟩ := H [ackF, cC, cU, cC] 1 .closed true [] close_out
    exact ⟨m, hm, h1, h3, h4, h5⟩

/-- `C09_ack_durable_crash` on the answer frame: the step `crashIn 3 closeOp` has the databases
    the sender of `closed` was acting on, and its output is `pre` itself here (`r = []` is forced:
    `pre` ends with a commit); on the `ack`: `crashIn 0 closeOp`, empty output, `r = pre = []` -/
example : ∃ L, Exec g.sys.atStart (g.sys.atStart.stepPlain closeOp) L ∧
    ∃ m ∈ L, m.out = [ackF, cC, cU, cC] ∧ (g.sys.step (.crashIn 3 closeOp)).db = m.db ∧
      (g.sys.step (.crashIn 3 closeOp)).udb = m.udb := by
  obtain ⟨L, hL⟩ := C09_ack_durable_log g.sys closeOp
  obtain ⟨m, hm, h1, _, _, h4, h5, _⟩ :=
    C09_ack_durable_crash g_reach.ginv (op := closeOp) rfl hL (pre := [ackF, cC, cU, cC]) (post := []) close_out
  exact ⟨L, hL, m, hm, h1, h4, h5⟩

example : (g.sys.step (.crashIn 3 closeOp)).out = [ackF, cC, cU, cC] ∧
    (g.sys.step (.crashIn 0 closeOp)).out = [] ∧
    (g.sys.step (.crashIn 0 closeOp)).db = g.sys.db ∧
    (g.sys.step (.crashIn 3 closeOp)).db = (g.sys.step closeOp).db ∧
    (g.sys.step (.crashIn 3 closeOp)).db ≠ g.sys.db := by decide +kernel

/-- the theorem covers crashed steps too: the `ack` that got out of `crashIn 2 closeOp` -/
example : (g.sys.step (.crashIn 2 closeOp)).out = [] ++ ackF :: [cC, cU] := by decide +kernel

example : ∃ L, Exec g.sys.atStart (g.sys.atStart.stepPlain closeOp) L ∧
    ∃ m ∈ L, m.out = [] ∧ (g.sys.disk, g.sys.udisk) = (m.db, m.udb) := by
  obtain ⟨L, hL, H⟩ := C09_ack_durable_reach g_reach (.crashIn 2 closeOp)
  obtain ⟨_, m, hm, h1, _, _, _, h5⟩ := H [] 1 (.ack (.int 5)) true [cC, cU] (by decide +kernel)
  exact ⟨L, hL, m, hm, h1, h5⟩

/-- `C09_ack_durable_last`: hypotheses satisfiable (`k = 3 = snaps.length`) -/
example : (g.sys.step (.crashIn 3 closeOp)).db = (g.sys.step closeOp).db ∧
    (g.sys.step (.crashIn 3 closeOp)).udb = (g.sys.step closeOp).udb :=
  C09_ack_durable_last g_reach.ginv (op := closeOp) rfl (by decide +kernel)

/-- `send_durable`: hypotheses satisfiable (the state a step starts from), conclusion non-trivial
    (the answer frame of `closeOp` is sent after three commits: see `close_out`) -/
example : AckInv0 (g.sys.disk, g.sys.udisk) g.sys.atStart ∧ g.sys.atStart.synced = true :=
  ⟨⟨rfl, rfl⟩, by decide +kernel⟩

/-- `Exec` itself does not force `synced = true`: a write followed by `send` without a commit is an
    execution, its frame carries `false`, and the files a kill leaves are NOT what the sender was
    acting on — `b = true` in `C09_ack_durable` comes from the commit discipline of the code -/
example :
    let s0 : Sys := {}
    let w : Chan → Chan := (·.insMailbox ⟨"app", "mb", 0, false⟩)
    Exec s0 ((s0.modDb w).send 1 .released) [s0.modDb w] ∧
    ((s0.modDb w).send 1 .released).out = [.frame 1 .released false] ∧
    lastSnap (s0.disk, s0.udisk) ((s0.modDb w).send 1 .released).snaps ≠ ((s0.modDb w).db, (s0.modDb w).udb) :=
  ⟨(Exec.start.modDb _).send 1 .released, by decide +kernel, by decide +kernel⟩

/-- `C09_ack_durable_trace`: its hypotheses hold for `hist ++ [closeOp]` (17 events) and the last
    event of its trace, the `closed` frame -/
example : (GSys.init { usage := true } 0).WF (hist ++ [closeOp]) ∧
    (Sys.run { cfg := { usage := true }, rebooted := 0 } (hist ++ [closeOp])).2 =
      (Sys.run { cfg := { usage := true }, rebooted := 0 } (hist ++ [closeOp])).2.take 16 ++ closedF :: [] :=
  ⟨GSys.wfB_sound (by decide +kernel), by decide +kernel⟩

end C09cExample

end Wormhole

#print axioms Wormhole.Sys.send_flag
#print axioms Wormhole.Sys.send_durable
#print axioms Wormhole.Sys.ackInv0_stepPlain
#print axioms Wormhole.Sys.Exec.sends
#print axioms Wormhole.Sys.stepPlain_exec
#print axioms Wormhole.Sys.stepPlain_sends
#print axioms Wormhole.Sys.step_crash_files
#print axioms Wormhole.Sys.crash_restores
#print axioms Wormhole.Sys.ack_files
#print axioms Wormhole.C09_ack_durable
#print axioms Wormhole.C09_ack_durable_log
#print axioms Wormhole.C09_ack_durable_reach
#print axioms Wormhole.C09_ack_durable_crash
#print axioms Wormhole.C09_ack_durable_last
#print axioms Wormhole.C09_ack_durable_trace
