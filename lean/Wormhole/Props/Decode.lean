/-
  Theorems about the decoder (`Wormhole/Decode.lean`): the classification of a received JSON object
  into the model's `Cmd`, and the welcome map.

  * `decode_congr`               `decodeCmd` depends only on the look-ups of the keys in `keysRead o`
  * `decode_ignores_extra_keys`  inserting (anywhere), overwriting or deleting a key that the handler of
                                 the object's type does not read changes neither `decodeCmd` nor (for a key
                                 other than "id") `decodeId`   -- "extra keys are ignored" as a THEOREM
  * `decode_order_independent`   a permutation of an object with distinct keys decodes alike
  * `decodeCmd_isSome_iff`       the EXACT domain: `decodeCmd o … ≠ none ↔ InDomain o`
  * `decode_total_on_domain`     string identifier fields, null/str/int scalar fields, null/str mood,
                                 indexable client_version of null/str items  ⟹  `decodeCmd` answers
  * `C17_spoofed_side_ignored`   an `add` carrying a "side" key is the same `Cmd.add`; with
                                 `C02_unmodified`: the broadcast carries the BINDER's side
  * `C17_welcome_configured`     `connect` sends `renderWelcome (mkWelcome motd adv err)`;
    `C17_welcome_configured_run`  the same after any history from the initial state of `mkCfg …`
  * `mkWelcome_*`                which keys the welcome map has, with which values;
    `renderWelcome_ascii`        the rendering is pure ASCII (`ensure_ascii=True`)
-/
import Wormhole.Decode
import Wormhole.Props.C02
import Wormhole.Props.C17
import Wormhole.Inv.UsageTrack

namespace Wormhole

/-! ## look-ups -/

theorem jget_append (o₁ o₂ : JObj) (k : String) :
    jget (o₁ ++ o₂) k = match jget o₂ k with | some w => some w | none => jget o₁ k := by
  induction o₁ with
  | nil => simp only [List.nil_append, jget]; cases jget o₂ k <;> rfl
  | cons p rest ih =>
    obtain ⟨k', v⟩ := p
    simp only [List.cons_append, jget, ih]
    cases jget o₂ k <;> rfl

theorem jget_singleton (k' : String) (v : JVal) (k : String) :
    jget [(k', v)] k = if k' = k then some v else none := rfl

/-- `msg[k] = v` then `msg.get(k')` -/
theorem jget_set (o : JObj) (k : String) (v : JVal) (k' : String) :
    jget (o.set k v) k' = if k = k' then some v else jget o k' := by
  unfold JObj.set
  rw [jget_append, jget_singleton]
  by_cases h : k = k' <;> simp [h]

/-- a pair inserted anywhere is invisible to the look-ups of the other keys -/
theorem jget_insert (o₁ o₂ : JObj) {k k' : String} (v : JVal) (h : k ≠ k') :
    jget (o₁ ++ (k, v) :: o₂) k' = jget (o₁ ++ o₂) k' := by
  rw [jget_append, jget_append]
  simp only [jget, if_neg h]
  cases jget o₂ k' <;> rfl

/-- deleting every pair of a key is invisible to the look-ups of the other keys -/
theorem jget_erase (o : JObj) {k k' : String} (h : k ≠ k') :
    jget (o.filter (fun p => ¬ p.1 = k)) k' = jget o k' := by
  induction o with
  | nil => rfl
  | cons p rest ih =>
    obtain ⟨k₀, v⟩ := p
    rw [List.filter_cons]
    by_cases hk : k₀ = k
    · subst hk
      rw [if_neg (by simp), ih]
      simp only [jget, if_neg h]
      cases jget rest k' <;> rfl
    · rw [if_pos (by simpa using hk)]
      simp only [jget, ih]

theorem jget_mem {o : JObj} {k : String} {v : JVal} (h : jget o k = some v) : (k, v) ∈ o := by
  induction o with
  | nil => cases h
  | cons p rest ih =>
    obtain ⟨k', v'⟩ := p
    simp only [jget] at h
    cases hr : jget rest k with
    | some w =>
      rw [hr] at h
      simp only [Option.some.injEq] at h
      subst h
      exact List.mem_cons_of_mem _ (ih hr)
    | none =>
      rw [hr] at h
      by_cases e : k' = k
      · simp only [if_pos e, Option.some.injEq] at h
        subst h; subst e
        exact List.mem_cons_self
      · simp only [if_neg e] at h
        cases h

/-- with distinct keys (what `json.dumps` of a dict produces) a look-up finds the pair of the key -/
theorem jget_eq_some_iff {o : JObj} (hd : o.Pairwise (fun a b => a.1 ≠ b.1)) (k : String) (v : JVal) :
    jget o k = some v ↔ (k, v) ∈ o := by
  refine ⟨jget_mem, ?_⟩
  induction o with
  | nil => intro h; cases h
  | cons p rest ih =>
    obtain ⟨k', v'⟩ := p
    rw [List.pairwise_cons] at hd
    intro h
    simp only [jget]
    rcases List.mem_cons.1 h with e | h'
    · cases e
      cases hr : jget rest k with
      | none => simp
      | some w => exact absurd rfl (hd.1 (k, w) (jget_mem hr))
    · rw [ih hd.2 h']

theorem jget_perm {o o' : JObj} (hp : o.Perm o') (hd : o.Pairwise (fun a b => a.1 ≠ b.1)) (k : String) :
    jget o k = jget o' k := by
  have hd' : o'.Pairwise (fun a b => a.1 ≠ b.1) := (hp.pairwise_iff (fun h => Ne.symm h)).1 hd
  apply Option.ext
  intro v
  rw [jget_eq_some_iff hd, jget_eq_some_iff hd']
  exact hp.mem_iff

/-! ## the decoder reads only the keys of `keysRead` -/

theorem type_mem_keysOf (g : String → Option JVal) : "type" ∈ keysOf g := by
  unfold keysOf; split <;> simp

theorem keysOf_congr {g g' : String → Option JVal} (h : g "type" = g' "type") : keysOf g = keysOf g' := by
  unfold keysOf; rw [h]

theorem decodeOf_congr {g g' : String → Option JVal} (h : ∀ k ∈ keysOf g, g k = g' k) (p : Nat)
    (d : List Nat) (f : String) : decodeOf g p d f = decodeOf g' p d f := by
  have ht : g "type" = g' "type" := h "type" (type_mem_keysOf g)
  unfold decodeOf
  rw [← ht]
  cases hty : g "type" with
  | none => rfl
  | some ty =>
    have hk : ∀ k, k = "id" ∨ k ∈ (match mtypeOf ty with
        | .ping => ["ping"]
        | .bind => ["appid", "side", "client_version"]
        | .claim => ["nameplate"]
        | .release => ["nameplate"]
        | .open_ => ["mailbox"]
        | .add => ["phase", "body"]
        | .close => ["mailbox", "mood"]
        | _ => []) → g k = g' k := by
      intro k hk
      apply h
      unfold keysOf
      rw [hty]
      simp only [List.mem_cons]
      rcases hk with e | e
      · exact Or.inr (Or.inl e)
      · exact Or.inr (Or.inr e)
    simp only []
    rw [← hk "id" (Or.inl rfl)]
    cases hm : mtypeOf ty <;> simp only [hm] at hk ⊢
    · rw [hk "ping" (by simp)]
    · rw [hk "appid" (by simp), hk "side" (by simp), hk "client_version" (by simp)]
    · rw [hk "nameplate" (by simp)]
    · rw [hk "nameplate" (by simp)]
    · rw [hk "mailbox" (by simp)]
    · rw [hk "phase" (by simp), hk "body" (by simp)]
    · rw [hk "mailbox" (by simp), hk "mood" (by simp)]

/-- **the decoder depends only on the look-ups of the keys it reads** -/
theorem decode_congr {o o' : JObj} (h : ∀ k ∈ keysRead o, jget o k = jget o' k) (p : Nat) (d : List Nat)
    (f : String) : decodeCmd o p d f = decodeCmd o' p d f ∧ keysRead o = keysRead o' :=
  ⟨decodeOf_congr h p d f, keysOf_congr (h "type" (type_mem_keysOf _))⟩

theorem decodeId_congr {o o' : JObj} (h : jget o "id" = jget o' "id") : decodeId o = decodeId o' := by
  unfold decodeId; rw [h]

/-- **extra keys are ignored.**  For every object `o₁ ++ o₂`, every key `k` that the handler of the
    object's type does not read, and every value `v`: the object with the pair `k: v` inserted at any
    position decodes to the same command; so does `msg[k] = v` (`JObj.set`, which also overwrites) and
    the object with every pair of `k` deleted.  Unless `k` is "id" the id is the same too. -/
theorem decode_ignores_extra_keys (o₁ o₂ : JObj) (k : String) (v : JVal) (hk : k ∉ keysRead (o₁ ++ o₂))
    (p : Nat) (d : List Nat) (f : String) :
    decodeCmd (o₁ ++ (k, v) :: o₂) p d f = decodeCmd (o₁ ++ o₂) p d f ∧
    (k ≠ "id" → decodeId (o₁ ++ (k, v) :: o₂) = decodeId (o₁ ++ o₂)) := by
  refine ⟨((decode_congr (o := o₁ ++ o₂) (o' := o₁ ++ (k, v) :: o₂) ?_ p d f).1).symm, ?_⟩
  · intro k' hk'
    exact (jget_insert o₁ o₂ v (fun e => hk (by rw [e]; exact hk'))).symm
  · intro hid
    exact decodeId_congr (jget_insert o₁ o₂ v hid)

theorem decode_ignores_set (o : JObj) (k : String) (v : JVal) (hk : k ∉ keysRead o)
    (p : Nat) (d : List Nat) (f : String) :
    decodeCmd (o.set k v) p d f = decodeCmd o p d f ∧ (k ≠ "id" → decodeId (o.set k v) = decodeId o) := by
  have := decode_ignores_extra_keys o [] k v (by simpa using hk) p d f
  simpa [JObj.set] using this

theorem decode_ignores_erase (o : JObj) (k : String) (hk : k ∉ keysRead o) (p : Nat) (d : List Nat) (f : String) :
    decodeCmd (o.filter (fun q => ¬ q.1 = k)) p d f = decodeCmd o p d f ∧
    (k ≠ "id" → decodeId (o.filter (fun q => ¬ q.1 = k)) = decodeId o) := by
  refine ⟨((decode_congr (o := o) (o' := o.filter (fun q => ¬ q.1 = k)) ?_ p d f).1).symm, ?_⟩
  · intro k' hk'
    exact (jget_erase o (fun e => hk (by rw [e]; exact hk'))).symm
  · intro hid
    exact decodeId_congr (jget_erase o hid)

/-- **the order of the keys does not matter** (objects with distinct keys, as every `json.dumps` of a
    dict is) -/
theorem decode_order_independent {o o' : JObj} (hp : o.Perm o') (hd : o.Pairwise (fun a b => a.1 ≠ b.1))
    (p : Nat) (d : List Nat) (f : String) :
    decodeCmd o p d f = decodeCmd o' p d f ∧ decodeId o = decodeId o' :=
  ⟨(decode_congr (fun k _ => jget_perm hp hd k) p d f).1, decodeId_congr (jget_perm hp hd "id")⟩

/-- non-vacuity: an `add` with an extra array-valued key and a spoofed side, in two orders -/
example :
    let o : JObj := [("type", .str "add"), ("phase", .str "pake"), ("body", .str "00"), ("id", .num 7)]
    "zzz" ∉ keysRead o ∧ "side" ∉ keysRead o ∧
    decodeCmd (("zzz", .other) :: o) 0 [] "" = some (.add (some (.str "pake")) (some (.str "00"))) ∧
    decodeCmd (o.set "side" (.str "spoofed")) 0 [] "" = some (.add (some (.str "pake")) (some (.str "00"))) ∧
    decodeCmd o.reverse 0 [] "" = some (.add (some (.str "pake")) (some (.str "00"))) ∧
    decodeId o.reverse = .int 7 := by decide
/-- … whereas a key that IS read matters (the statement is not vacuous in `hk`), and a repeated key is
    resolved like `json.loads` does (last occurrence) -/
example : decodeCmd [("type", .str "add"), ("phase", .str "p")] 0 [] "" = some (.add (some (.str "p")) none) ∧
    decodeCmd [("type", .str "add"), ("phase", .str "p"), ("body", .null)] 0 [] "" =
      some (.add (some (.str "p")) (some .null)) ∧
    decodeCmd [("type", .str "add"), ("type", .str "list")] 0 [] "" = some .list := by decide

/-! ## the exact domain -/

theorem fieldVal_isSome (x : Option JVal) : (fieldVal x).isSome = absentOr JVal.isScalar x := by
  cases x with
  | none => rfl
  | some v => cases v <;> rfl

theorem fieldId_isSome (x : Option JVal) : (fieldId x).isSome = absentOr JVal.isScalar x := by
  cases x with
  | none => rfl
  | some v => cases v <;> rfl

theorem fieldStr_isSome (x : Option JVal) : (fieldStr x).isSome = absentOr JVal.isStr x := by
  cases x with
  | none => rfl
  | some v => cases v <;> rfl

theorem fieldMood_isSome (x : Option JVal) : (fieldMood x).isSome = absentOr JVal.isStrOrNull x := by
  cases x with
  | none => rfl
  | some v => cases v <;> rfl

theorem fieldCv_isSome (x : Option JVal) : (fieldCv x).isSome = absentOr JVal.isCv x := by
  cases x with
  | none => rfl
  | some v =>
    cases v with
    | pair a b => cases a <;> cases b <;> rfl
    | _ => rfl

/-- **the exact domain of the decoder**: `decodeCmd` answers on `o` iff `InDomain o` (spelled out in
    Decode.lean; the random choices play no role) -/
theorem decodeCmd_isSome_iff (o : JObj) (p : Nat) (d : List Nat) (f : String) :
    (decodeCmd o p d f).isSome = true ↔ InDomain o := by
  unfold decodeCmd decodeOf InDomain
  cases jget o "type" with
  | none => simp
  | some ty =>
    simp only []
    rw [← fieldId_isSome]
    cases hid : fieldId (jget o "id") with
    | none => simp
    | some i =>
      simp only [Option.isSome_some, true_and]
      cases mtypeOf ty <;> simp only []
      · rw [← fieldVal_isSome]; simp
      · rw [← fieldStr_isSome, ← fieldStr_isSome, ← fieldCv_isSome]
        cases fieldStr (jget o "appid") <;> cases fieldStr (jget o "side") <;>
          cases fieldCv (jget o "client_version") <;> simp
      · simp
      · simp
      · rw [← fieldStr_isSome]; simp
      · rw [← fieldStr_isSome]; simp
      · rw [← fieldStr_isSome]; simp
      · rw [← fieldVal_isSome, ← fieldVal_isSome]
        cases fieldVal (jget o "phase") <;> cases fieldVal (jget o "body") <;> simp [and_assoc]
      · rw [← fieldStr_isSome, ← fieldMood_isSome]
        cases fieldStr (jget o "mailbox") <;> cases fieldMood (jget o "mood") <;> simp
      · simp

theorem decodeCmd_eq_none_iff (o : JObj) (p : Nat) (d : List Nat) (f : String) :
    decodeCmd o p d f = none ↔ ¬ InDomain o := by
  rw [← decodeCmd_isSome_iff o p d f]
  cases decodeCmd o p d f <;> simp

/-- the typing discipline of the protocol: identifier fields are strings, scalar fields are null, a string
    or an integer, `mood` is null or a string, `client_version` is indexable with null / string items -/
structure WellTyped (o : JObj) : Prop where
  ident : ∀ k ∈ ["appid", "side", "nameplate", "mailbox"], ∀ v, jget o k = some v → v.isStr = true
  scalar : ∀ k ∈ ["id", "ping", "phase", "body"], ∀ v, jget o k = some v → v.isScalar = true
  mood : ∀ v, jget o "mood" = some v → v.isStrOrNull = true
  cv : ∀ v, jget o "client_version" = some v → v.isCv = true
  /-- the integers among the stored scalars are signed 64-bit integers (what SQLite can hold; K-int64-overflow) -/
  int64 : ∀ k ∈ ["id", "phase", "body"], ∀ v, jget o k = some v → v.fitsInt64 = true

theorem absentOr_of {p : JVal → Bool} {x : Option JVal} (h : ∀ v, x = some v → p v = true) :
    absentOr p x = true := by
  cases x with
  | none => rfl
  | some v => exact h v rfl

theorem WellTyped.inDomain {o : JObj} (h : WellTyped o) : InDomain o := by
  unfold InDomain
  split
  · trivial
  · refine ⟨absentOr_of (h.scalar "id" (by simp)), ?_⟩
    split
    · exact absentOr_of (h.scalar "ping" (by simp))
    · exact ⟨absentOr_of (h.ident "appid" (by simp)), absentOr_of (h.ident "side" (by simp)), absentOr_of h.cv⟩
    · exact absentOr_of (h.ident "nameplate" (by simp))
    · exact absentOr_of (h.ident "nameplate" (by simp))
    · exact absentOr_of (h.ident "mailbox" (by simp))
    · exact ⟨absentOr_of (h.scalar "phase" (by simp)), absentOr_of (h.scalar "body" (by simp)),
        absentOr_of (h.int64 "phase" (by simp)), absentOr_of (h.int64 "body" (by simp)), absentOr_of (h.int64 "id" (by simp))⟩
    · exact ⟨absentOr_of (h.ident "mailbox" (by simp)), absentOr_of h.mood⟩
    · trivial

/-- **the decoder is total on the protocol's domain**: whatever the "type" (a known string, an unknown
    string, not a string at all, or missing), whatever other keys there are -/
theorem decode_total_on_domain {o : JObj} (h : WellTyped o) (p : Nat) (d : List Nat) (f : String) :
    ∃ cmd, decodeCmd o p d f = some cmd :=
  Option.isSome_iff_exists.1 ((decodeCmd_isSome_iff o p d f).2 h.inDomain)

/-- non-vacuity: a well-typed `bind` with nested junk under an unread key; and the refused shapes -/
example : WellTyped [("type", .str "bind"), ("appid", .str "a"), ("side", .str "s"),
    ("client_version", .pair (.str "python") .null), ("junk", .other)] := by
  refine ⟨?_, ?_, ?_, ?_, ?_⟩ <;> decide
/-- an `add` whose id is 2^63 is outside the domain (the code raises OverflowError: K-int64-overflow); 2^63 - 1 is inside -/
example : decodeCmd [("type", .str "add"), ("phase", .str "p"), ("body", .str "b"), ("id", .num 9223372036854775808)] 0 [] "" = none ∧
    decodeCmd [("type", .str "add"), ("phase", .str "p"), ("body", .str "b"), ("id", .num 9223372036854775807)] 0 [] "" =
      some (.add (some (.str "p")) (some (.str "b"))) := by decide
example : decodeCmd [("type", .str "bind"), ("appid", .str "a"), ("side", .str "s"),
    ("client_version", .pair (.str "python") .null), ("junk", .other)] 0 [] "" =
      some (.bind (some "a") (some "s") (some "python") none) := by decide
example : decodeCmd [("type", .str "ping"), ("ping", .bool true)] 0 [] "" = none ∧
    decodeCmd [("type", .str "claim"), ("nameplate", .num 4)] 0 [] "" = none ∧
    decodeCmd [("type", .str "claim"), ("nameplate", .null)] 0 [] "" = none ∧
    decodeCmd [("type", .str "close"), ("mood", .num 1)] 0 [] "" = none ∧
    decodeCmd [("type", .str "list"), ("id", .other)] 0 [] "" = none ∧
    decodeCmd [("type", .str "bind"), ("client_version", .null)] 0 [] "" = none ∧
    decodeCmd [("nameplate", .num 4), ("id", .other)] 0 [] "" = some .noType ∧
    decodeCmd [("type", .num 4)] 0 [] "" = some .unknown ∧
    decodeCmd [("type", .str "PING")] 0 [] "" = some .unknown := by decide

/-! ## C17: a spoofed side -/

/-- **C17 (a `side` key inside `add` is ignored).**  For every object whose type is "add" and every
    value `v`: setting `"side": v` changes neither the decoded command nor the id.  Hence
    (`C02_unmodified`) for every state satisfying the global invariant, if the object with the spoofed
    side decodes to an `add` with phase and body and the adding connection `c` is bound to `(a, σ)` and
    holds the handle of `m`, every `message` frame of the step carries side `σ` -- the side `c` BOUND
    to -- and phase, body, id exactly as in the object. -/
theorem C17_spoofed_side_ignored (o : JObj) (v : JVal) (hty : jget o "type" = some (.str "add"))
    (p : Nat) (d : List Nat) (f : String) :
    decodeCmd (o.set "side" v) p d f = decodeCmd o p d f ∧ decodeId (o.set "side" v) = decodeId o ∧
    ∀ {g : GSys}, g.GInv → ∀ {c : Nat} {x : Conn} {a σ m : String} (t : Time) {ph bd : Val},
      decodeCmd (o.set "side" v) p d f = some (.add (some ph) (some bd)) →
      g.sys.findConn c = some x → x.app = some a → x.side = some σ → x.mailbox = some m →
      ∀ {c' : Nat} {sd : String} {ph' bd' : Val} {rx : Time} {id' : Val} {b : Bool},
        Event.frame c' (.message sd ph' bd' rx id') b ∈
          (g.step (.recv c t (decodeId (o.set "side" v)) (.add (some ph) (some bd)))).sys.out →
        sd = σ ∧ ph' = ph ∧ bd' = bd ∧ rx = t ∧ id' = decodeId o ∧ c' ∈ g.sys.listeners a m := by
  have hk : "side" ∉ keysRead o := by
    unfold keysRead keysOf
    rw [hty]
    decide
  obtain ⟨h1, h2⟩ := decode_ignores_set o "side" v hk p d f
  have h2 := h2 (by decide)
  refine ⟨h1, h2, ?_⟩
  intro g hI c x a σ m t ph bd _ hx ha hσ hm c' sd ph' bd' rx id' b he
  obtain ⟨e1, e2, e3, e4, e5, _, e7⟩ := C02_unmodified hI t _ ph bd hx ha hσ hm he
  exact ⟨e1, e2, e3, e4, e5.trans h2, e7⟩

/-- non-vacuity: the `add` the generator's "spoofed side" profile sends -/
example : jget [("type", .str "add"), ("phase", .str "pake"), ("body", .str "00")] "type" = some (.str "add") ∧
    decodeCmd (JObj.set [("type", .str "add"), ("phase", .str "pake"), ("body", .str "00")] "side" (.str "spoofed"))
      0 [] "" = some (.add (some (.str "pake")) (some (.str "00"))) := by decide

/-! ## the welcome map -/

theorem truthy_eq_some {x : Option String} {s : String} : truthy x = some s ↔ x = some s ∧ s ≠ "" := by
  cases x with
  | none => simp [truthy]
  | some y =>
    unfold truthy
    by_cases hy : y = ""
    · subst hy
      simp only [if_true, Option.some.injEq]
      constructor
      · intro h; cases h
      · rintro ⟨rfl, h⟩; exact absurd rfl h
    · simp only [if_neg hy, Option.some.injEq]
      constructor
      · rintro rfl; exact ⟨rfl, hy⟩
      · rintro ⟨h, _⟩; exact h

theorem mem_mkWelcome {motd adv err : Option String} {k v : String} :
    (k, v) ∈ mkWelcome motd adv err ↔
      (k = "motd" ∧ motd = some v) ∨ (k = "current_cli_version" ∧ adv = some v ∧ v ≠ "") ∨
      (k = "error" ∧ err = some v ∧ v ≠ "") := by
  have ha := @truthy_eq_some adv v
  have he := @truthy_eq_some err v
  unfold mkWelcome
  cases motd <;> cases hta : truthy adv <;> cases hte : truthy err <;>
    simp only [hta, hte, List.nil_append, List.append_nil, List.cons_append, List.mem_cons, List.not_mem_nil,
      Prod.mk.injEq, or_false, reduceCtorEq, false_iff, Option.some.injEq] at ha he ⊢ <;> grind

/-- `motd` is a key of the welcome map iff `--motd` was given (even empty), with that text -/
theorem mkWelcome_motd (motd adv err : Option String) (v : String) :
    ("motd", v) ∈ mkWelcome motd adv err ↔ motd = some v := by
  rw [mem_mkWelcome]; simp

theorem mkWelcome_motd_key (motd adv err : Option String) :
    "motd" ∈ (mkWelcome motd adv err).map (·.1) ↔ motd.isSome = true := by
  simp only [List.mem_map, Prod.exists, exists_and_right, exists_eq_right, mkWelcome_motd]
  cases motd <;> simp

/-- `current_cli_version` iff `--advertise-version` was given and is not empty -/
theorem mkWelcome_version (motd adv err : Option String) (v : String) :
    ("current_cli_version", v) ∈ mkWelcome motd adv err ↔ adv = some v ∧ v ≠ "" := by
  rw [mem_mkWelcome]; simp

/-- `error` iff `--signal-error` was given and is not empty -/
theorem mkWelcome_error (motd adv err : Option String) (v : String) :
    ("error", v) ∈ mkWelcome motd adv err ↔ err = some v ∧ v ≠ "" := by
  rw [mem_mkWelcome]; simp

/-- no other key, and no key twice -/
theorem mkWelcome_keys (motd adv err : Option String) :
    (∀ p ∈ mkWelcome motd adv err, p.1 = "motd" ∨ p.1 = "current_cli_version" ∨ p.1 = "error") ∧
    (mkWelcome motd adv err).Pairwise (fun a b => a.1 ≠ b.1) := by
  constructor
  · rintro ⟨k, v⟩ h
    rcases mem_mkWelcome.1 h with h | h | h
    · exact Or.inl h.1
    · exact Or.inr (Or.inl h.1)
    · exact Or.inr (Or.inr h.1)
  · unfold mkWelcome
    cases motd <;> cases truthy adv <;> cases truthy err <;> simp

/-- **C17 (welcome, configured)**: on a server whose configuration was made from the options
    `--motd`, `--advertise-version`, `--signal-error` (`mkCfg`), `connect` emits exactly one frame: the
    welcome carrying `json.dumps` of the map `make_server` builds from them. -/
theorem C17_welcome_configured (s : Sys) (c : Nat) {al us : Bool} {blur : Option Nat}
    {motd adv err : Option String} (hcfg : s.cfg = mkCfg al us blur motd adv err) :
    (s.step (.connect c)).out = [.frame c (.welcome (renderWelcome (mkWelcome motd adv err))) s.synced] := by
  rw [(C17_welcome s c).1, hcfg]
  rfl

/-- the same after any history (crashes and restarts included) of a server started with these options -/
theorem C17_welcome_configured_run (al us : Bool) (blur : Option Nat) (motd adv err : Option String)
    (rb : Time) (ops : List Op) (c : Nat) :
    (((GSys.init (mkCfg al us blur motd adv err) rb).run ops).sys.step (.connect c)).out =
      [.frame c (.welcome (renderWelcome (mkWelcome motd adv err)))
        ((GSys.init (mkCfg al us blur motd adv err) rb).run ops).sys.synced] := by
  apply C17_welcome_configured
  generalize hg : GSys.init (mkCfg al us blur motd adv err) rb = g
  have hc : g.sys.cfg = mkCfg al us blur motd adv err := by rw [← hg]; rfl
  clear hg
  induction ops generalizing g with
  | nil => exact hc
  | cons op rest ih => exact ih (g.step op) ((Sys.step_cfg _ op).trans hc)

/-! ### the rendering is ASCII (`ensure_ascii=True`) -/

theorem hexDigitLower_ascii : ∀ n, n < 16 → (hexDigitLower n).toNat < 128 := by decide

theorem uEscape_ascii (n : Nat) : ∀ c ∈ uEscape n, c.toNat < 128 := by
  intro c hc
  simp only [uEscape, List.mem_cons, List.not_mem_nil, or_false] at hc
  rcases hc with rfl | rfl | rfl | rfl | rfl | rfl <;>
    first | decide | exact hexDigitLower_ascii _ (Nat.mod_lt _ (by decide))

theorem jsonEscapeChar_ascii (c : Char) : ∀ x ∈ jsonEscapeChar c, x.toNat < 128 := by
  intro x hx
  unfold jsonEscapeChar at hx
  simp only [] at hx
  repeat' split at hx
  all_goals first
    | (simp only [List.mem_cons, List.not_mem_nil, or_false] at hx
       rcases hx with rfl | rfl <;> decide)
    | (simp only [List.mem_cons, List.not_mem_nil, or_false] at hx; subst hx; omega)
    | exact uEscape_ascii _ x hx
    | (rcases List.mem_append.1 hx with h | h <;> exact uEscape_ascii _ x h)

theorem jsonString_ascii (s : String) : ∀ x ∈ jsonString s, x.toNat < 128 := by
  intro x hx
  simp only [jsonString, List.mem_cons, List.mem_append, List.mem_flatMap, List.not_mem_nil, or_false] at hx
  rcases hx with rfl | ⟨c, _, h⟩ | rfl
  · decide
  · exact jsonEscapeChar_ascii c x h
  · decide

theorem jsonItems_ascii : ∀ (l : List (String × String)), ∀ x ∈ jsonItems l, x.toNat < 128
  | [], x, hx => by simp [jsonItems] at hx
  | [(k, v)], x, hx => by
    simp only [jsonItems, List.mem_append, List.mem_cons, List.not_mem_nil, or_false] at hx
    rcases hx with (h | rfl | rfl) | h
    · exact jsonString_ascii k x h
    · decide
    · decide
    · exact jsonString_ascii v x h
  | (k, v) :: p :: rest, x, hx => by
    simp only [jsonItems, List.mem_append, List.mem_cons, List.not_mem_nil, or_false] at hx
    rcases hx with (((h | rfl | rfl) | h) | rfl | rfl) | h
    · exact jsonString_ascii k x h
    · decide
    · decide
    · exact jsonString_ascii v x h
    · decide
    · decide
    · exact jsonItems_ascii (p :: rest) x h

/-- `ensure_ascii`: the rendering is pure ASCII whatever the options contain -/
theorem renderWelcome_ascii (d : List (String × String)) : ∀ x ∈ (renderWelcome d).toList, x.toNat < 128 := by
  intro x hx
  rw [renderWelcome, String.toList_ofList] at hx
  simp only [renderWelcomeChars, List.mem_cons, List.mem_append, List.not_mem_nil, or_false] at hx
  rcases hx with rfl | h | rfl
  · decide
  · exact jsonItems_ascii _ x h
  · decide
/-- non-vacuity, and the rendering on the options the C17 profile `general` uses (non-ASCII motd) -/
example : renderWelcome (mkWelcome (some "mötd") (some "1.2.3") (some "go away")) =
    "{\"current_cli_version\": \"1.2.3\", \"error\": \"go away\", \"motd\": \"m\\u00f6td\"}" := by
  rw [renderWelcome, ← String.toList_inj, String.toList_ofList]; decide +kernel
example : renderWelcome (mkWelcome none (some "") none) = "{}" := by
  rw [renderWelcome, ← String.toList_inj, String.toList_ofList]; decide +kernel
/-- quote, backslash, newline, DEL, a control character and a character outside the BMP -/
example : renderWelcome (mkWelcome (some "a\"b\\c\nd\x7f\x01😀") none none) =
    "{\"motd\": \"a\\\"b\\\\c\\nd\\u007f\\u0001\\ud83d\\ude00\"}" := by
  rw [renderWelcome, ← String.toList_inj, String.toList_ofList]; decide +kernel
example : ((GSys.init (mkCfg true false none (some "hello") none none) 0).sys.step (.connect 1)).out =
    [.frame 1 (.welcome (renderWelcome (mkWelcome (some "hello") none none))) true] :=
  C17_welcome_configured _ 1 rfl

end Wormhole

#print axioms Wormhole.decode_congr
#print axioms Wormhole.decode_ignores_extra_keys
#print axioms Wormhole.decode_ignores_set
#print axioms Wormhole.decode_ignores_erase
#print axioms Wormhole.decode_order_independent
#print axioms Wormhole.decodeCmd_isSome_iff
#print axioms Wormhole.decodeCmd_eq_none_iff
#print axioms Wormhole.decode_total_on_domain
#print axioms Wormhole.C17_spoofed_side_ignored
#print axioms Wormhole.mkWelcome_motd
#print axioms Wormhole.mkWelcome_motd_key
#print axioms Wormhole.mkWelcome_version
#print axioms Wormhole.mkWelcome_error
#print axioms Wormhole.mkWelcome_keys
#print axioms Wormhole.renderWelcome_ascii
#print axioms Wormhole.C17_welcome_configured
#print axioms Wormhole.C17_welcome_configured_run
