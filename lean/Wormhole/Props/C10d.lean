/-
  C10 (re-send clause), second part: BOTH databases, every crash point, the usual client forms.

  Props/C10b.lean / C10c.lean prove "same answers, same stored state" for the CHANNEL database only, for a
  pre-state reachable WITHOUT crashes, for `k ≥ 1` and for commands that name their nameplate / mailbox.
  An independent audit (AUDIT_A, problems 1 and 2) found
    (1) the USAGE database diverges and this was not a recorded finding  -->  **K-usage-crash-dup** below;
    (2) the hypotheses are narrower than the property's quantifier.
  This file repairs both.

  FINDING K-usage-crash-dup (server.py `release_nameplate` 343-344, `Mailbox.close` 176-177:
  `usage_db.commit()` PRECEDES `db.commit()`).  With a usage database, a crash between the two commits leaves
  the usage record on disk while the channel rows survive; the re-sent command -- or, if the client never
  returns, the next sweep (`C10_release_crash_then_sweep_two_records`) -- then writes a record for the same
  object a SECOND time.  A re-sent `close` that arrives after the channel commit creates the mailbox again,
  deletes it and writes one more record `(for_nameplate = 0, total = 0)`.
  In `prune` the order is the REVERSE (`db.commit()` first, 555-557): a sweep killed between its two commits
  has deleted the expired rows and recorded nothing, for good (`C10_sweep_crash_loses_usage_counterexample`).
  Both are outside C15's "exactly one record per retired object", which is proved for crash-free steps.

  WHAT IS PROVED (`resend`, `Resend`, `Answered` as in Inv/UsageResend.lean, Inv/DupOrig.lean)
  (a) `C10_resend_usage_equal_nousage`: with `cfg.usage = false` the usage database is untouched by the
      uncrashed step and by crash + restart + reconnect + bind + re-send, for EVERY operation, every `k`:
      both runs end with the usage database of before.  With `C10_resend_all_partial` below this is "same
      stored state" for BOTH databases in that configuration (`C10_resend_both_nousage`).
  (b) `C10dExample.C10_resend_usage_dup_counterexample` (release, `decide +kernel`): a concrete state reachable
      without crashes, `release` crashed right after its usage commit (`k = 2`: the usage row is on disk, the
      nameplate row still exists), restarted, re-sent: the usage `nameplates` table ends with TWO rows, the
      uncrashed run has ONE.  `C10_resend_usage_dup_close_counterexample`: the same for `close` (`k = 2`: the
      usage `mailboxes` row duplicated; `k = 3`: one surplus row `(for_nameplate=0, total=0)`).
  (c) the positive statements with a usage database, EXACT:
      `C10_resend_release_all`  the usage `mailboxes` table of the re-sent run EQUALS that of the uncrashed
         run; the usage `nameplates` table is that of the uncrashed run, or that of the uncrashed run FOLLOWED
         BY THE ROWS THE UNCRASHED STEP WROTE (at most one) -- the latter only when the crash state already
         has the usage rows of the uncrashed run while its channel database is not the final one;
      `C10_resend_close_all_partial`  the same for `close` (both tables; under the guards of K-crowded-rejoin
         and up to K-close-touch on the channel side as in C10b), plus the third case: the crash state is
         the FINAL state of a deleting close, then exactly one surplus usage `mailboxes` row `goneRecord`
         (`for_nameplate = 0`, one side, the submitted mood, `started = blur t`, `total = 0`);
      `C10_resend_claim_all`, `C10_resend_open_all`: claim / open write neither table: EQUAL.
      In all cases the uncrashed run's rows are a PREFIX of the re-sent run's rows
      (`C10_resend_usage_prefix_partial`).
  GENERALISATIONS (audit problem 2), in the same theorems:
    * `g.Reach` instead of `g.ReachCF`: the pre-state may itself be the result of earlier crashes.  NO fact
      used by C10b needed `SInv`: every step uses `GInv` (which holds after crashes), `HandleRow` and
      `handleId` (both proved for `Reach`).  The crash-freeness of C10b's hypotheses was not needed.
    * every `k`, `k = 0` included (crash before the first commit: the command is lost entirely and the
      re-send is the original command on a fresh connection); for `claim` with `k = 0` the re-sent claim must
      carry the same generated id (`1 ≤ k ∨ f' = fresh`): with another id a NEW nameplate gets another
      mailbox id, which is not a defect.
    * `release none` / `close none` (the usual client forms) via `Resend x cmd cmd'`: the original may omit
      the name, the re-send names it.
  Still as in C10b: restart, bind and re-send happen at the instant `t` of the original (audit 2c).
-/
import Wormhole.Props.C10c
import Wormhole.Props.C15b

namespace Wormhole
open Sys Sys.Np

/-! ## 0. Commit points as PAIRS (channel database, usage database) -/

namespace Sys

/-- `P` holds of the committed pair and of every snapshot taken in this step -/
def PairAll (P : Chan → Usage → Prop) (s : Sys) : Prop := P s.disk s.udisk ∧ ∀ p ∈ s.snaps, P p.1 p.2

theorem PairAll.of_eq {P} {s s1 : Sys} (h : PairAll P s) (h1 : s1.disk = s.disk) (h2 : s1.udisk = s.udisk)
    (h3 : s1.snaps = s.snaps) : PairAll P s1 := by
  unfold PairAll; rw [h1, h2, h3]; exact h

theorem PairAll.commit {P} {s : Sys} (h : PairAll P s) (hp : P s.db s.udisk) : PairAll P s.commit := by
  unfold Sys.commit
  split
  · exact h
  · refine ⟨hp, ?_⟩
    intro p hp'
    simp only [List.mem_append, List.mem_singleton] at hp'
    rcases hp' with h' | rfl
    · exact h.2 p h'
    · exact hp

theorem PairAll.ucommit {P} {s : Sys} (h : PairAll P s) (hp : P s.disk s.udb) : PairAll P s.ucommit := by
  unfold Sys.ucommit
  split
  · exact h
  · refine ⟨hp, ?_⟩
    intro p hp'
    simp only [List.mem_append, List.mem_singleton] at hp'
    rcases hp' with h' | rfl
    · exact h.2 p h'
    · exact hp

theorem PairAll.mono {P Q : Chan → Usage → Prop} {s : Sys} (h : PairAll P s) (hpq : ∀ d u, P d u → Q d u) :
    PairAll Q s := ⟨hpq _ _ h.1, fun p hp => hpq _ _ (h.2 p hp)⟩

/-- the pair a crash after the `k`-th commit leaves (ANY `k`, `0` included) satisfies every property of
    the pair before the step and of all commit points of the uncrashed run -/
theorem crash_pair_of_pairAll {P : Chan → Usage → Prop} (s : Sys) (hS : s.Synced) (k : Nat) (op : Op)
    (h0 : P s.db s.udb) (h : PairAll P (({ s with out := [], snaps := [] } : Sys).stepPlain op)) :
    P (s.step (.crashIn k op)).db (s.step (.crashIn k op)).udb := by
  obtain ⟨p, hp, e1, _, e3, _, _⟩ := GSys.step_crash_spec s k op
  rw [e1, e3]
  rcases hp with hp | rfl | rfl
  · exact h.2 p hp
  · exact h.1
  · show P s.disk s.udisk
    rw [← hS.1, ← hS.2]; exact h0

theorem crash_cfg (s : Sys) (k : Nat) (op : Op) : (s.step (.crashIn k op)).cfg = s.cfg := step_cfg s _

/-! ### `release_nameplate` -/

end Sys

/-- the usage `nameplates` rows `release_nameplate(a, n, σ, t)` writes (when a usage database exists):
    one record if the release retires the nameplate, none otherwise -/
def Chan.releaseRecs (d : Chan) (blur : Time → Time) (a n σ : String) (t : Time) : List UNameplate :=
  match d.findNameplate a n with
  | none => []
  | some np =>
    match d.findNpSide np.id σ with
    | none => []
    | some _ =>
      if ((d.unclaim np.id σ).npSidesOf np.id).any (·.claimed) then []
      else [npRecord blur a (((d.unclaim np.id σ).npSidesOf np.id).map (·.added)) t false]

theorem Chan.releaseRecs_length (d : Chan) (blur : Time → Time) (a n σ : String) (t : Time) :
    (d.releaseRecs blur a n σ t).length ≤ 1 := by
  unfold Chan.releaseRecs
  split
  · simp
  · split
    · simp
    · split <;> simp

namespace Sys

/-- **`release_nameplate`: the usage database afterwards** -/
theorem releaseNameplate_udb (s : Sys) (a n σ : String) (t : Time) :
    (s.releaseNameplate a n σ t).1.udb =
      if s.cfg.usage then
        { s.udb with nameplates := s.udb.nameplates ++ s.db.releaseRecs s.blurTime a n σ t }
      else s.udb := by
  unfold releaseNameplate Chan.releaseRecs
  cases hnp : s.db.findNameplate a n with
  | none => simp
  | some np =>
    dsimp only
    cases hs : s.db.findNpSide np.id σ with
    | none => simp
    | some r0 =>
      dsimp only
      simp only [commit_db, modDb_db]
      by_cases hany : ((s.db.unclaim np.id σ).npSidesOf np.id).any (·.claimed) = true
      · simp [hany]
      · simp only [hany, Bool.false_eq_true, if_false, modDb_cfg, commit_cfg]
        cases hu : s.cfg.usage with
        | false => simp
        | true =>
          simp only [if_true]
          rw [storeNameplateUsage_eq _ _ _ _ (npSidesOf_unclaim_ne_nil hs)]
          simp

/-- **the commit points of `release_nameplate` as pairs**: from a state with nothing uncommitted in the
    usage database: (after the UPDATE, usage as before), (after the UPDATE, usage final) -- the usage
    commit precedes the channel commit --, (final, final) -/
theorem releaseNameplate_pairAll {P} (s : Sys) (a n σ : String) (t : Time) (hA : PairAll P s)
    (hsy : s.udb = s.udisk)
    (h1 : P (s.db.releaseMid a n σ) s.udb)
    (h2 : P (s.db.releaseMid a n σ) (s.releaseNameplate a n σ t).1.udb)
    (h3 : P (s.db.releaseDb a n σ) (s.releaseNameplate a n σ t).1.udb) :
    PairAll P (s.releaseNameplate a n σ t).1 := by
  rw [releaseNameplate_udb] at h2 h3
  unfold Chan.releaseRecs at h2 h3
  unfold Chan.releaseMid at h1 h2
  unfold Chan.releaseDb at h3
  unfold releaseNameplate
  cases hnp : s.db.findNameplate a n with
  | none => exact hA
  | some np =>
    rw [hnp] at h1 h2 h3
    dsimp only at h1 h2 h3 ⊢
    cases hs : s.db.findNpSide np.id σ with
    | none => exact hA
    | some r0 =>
      rw [hs] at h2 h3
      dsimp only at h2 h3 ⊢
      have hc : PairAll P ((s.modDb (·.unclaim np.id σ)).commit) :=
        PairAll.commit (s := s.modDb (·.unclaim np.id σ)) hA (by show P _ s.udisk; rw [← hsy]; exact h1)
      simp only [commit_db, modDb_db]
      by_cases hany : ((s.db.unclaim np.id σ).npSidesOf np.id).any (·.claimed) = true
      · simp only [hany, if_true]
        exact hc
      · simp only [hany, Bool.false_eq_true, if_false, modDb_cfg, commit_cfg] at h2 h3 ⊢
        cases hu : s.cfg.usage with
        | false =>
          rw [hu] at h2 h3
          simp only [Bool.false_eq_true, if_false] at h2 h3 ⊢
          refine PairAll.commit (s := ((s.modDb _).commit).modDb _) (hc.of_eq rfl rfl rfl) ?_
          simp only [modDb_db, commit_db, modDb_udisk, commit_udisk]
          rw [← hsy]; exact h3
        | true =>
          rw [hu] at h2 h3
          simp only [if_true] at h2 h3 ⊢
          rw [storeNameplateUsage_eq _ _ _ _ (npSidesOf_unclaim_ne_nil hs)]
          dsimp only
          refine PairAll.commit (PairAll.ucommit (hc.of_eq rfl rfl rfl) ?_) ?_
          · simp only [modUdb_disk, modDb_disk, commit_disk, modDb_db, modUdb_udb, modDb_udb, commit_udb,
              blurTime_modDb, blurTime_commit]
            exact h2
          · simp only [ucommit_db, modUdb_db, modDb_db, commit_db, ucommit_udisk, modUdb_udb, modDb_udb,
              commit_udb, blurTime_modDb, blurTime_commit]
            exact h3


/-- the usage database after an accepted `release` resolving to nameplate `n` -/
def releaseUdb (s : Sys) (a n σ : String) (t : Time) : Usage :=
  if s.cfg.usage then { s.udb with nameplates := s.udb.nameplates ++ s.db.releaseRecs s.blurTime a n σ t }
  else s.udb

/-- **an accepted `release` (named or not), the whole step**: exact events, both databases as functions
    of the state before, and the commit points as pairs -/
theorem release_step_pairs {s : Sys} (hS : s.Synced) {c : Nat} {x : Conn} (hx : s.findConn c = some x)
    {nm : Option String} (hr : rejectText x (.release nm) = none) {a : String} (happ : x.app = some a)
    {n : String} (hn : Np.releaseTarget x nm = some n) (t : Time) (id : Val) :
    (∃ commits, (∀ e ∈ commits, IsCommit e) ∧
      (s.step (.recv c t id (.release nm))).out =
        .frame c (.ack id) true :: (commits ++ [.frame c .released true])) ∧
    (s.step (.recv c t id (.release nm))).db = s.db.releaseDb a n (x.side.getD "") ∧
    (s.step (.recv c t id (.release nm))).udb = s.releaseUdb a n (x.side.getD "") t ∧
    ∀ P : Chan → Usage → Prop, P s.db s.udb → P (s.db.releaseMid a n (x.side.getD "")) s.udb →
      P (s.db.releaseMid a n (x.side.getD "")) (s.releaseUdb a n (x.side.getD "") t) →
      P (s.db.releaseDb a n (x.side.getD "")) (s.releaseUdb a n (x.side.getD "") t) →
      PairAll P (({ s with out := [], snaps := [] } : Sys).stepPlain (.recv c t id (.release nm))) := by
  obtain ⟨n', hn', hstep⟩ := step_release_eq t id nm hx happ hr
  have : n' = n := by rw [hn] at hn'; cases hn'; rfl
  subst this
  have hsy : s.synced = true := (synced_iff s).2 hS
  generalize hX : ((({ s with out := [], snaps := [] } : Sys).send c (.ack id)).updConn c
    (fun y => { y with didRelease := true })) = X at hstep
  have hXdb : X.db = s.db := by rw [← hX]; rfl
  have hXdisk : X.disk = s.disk := by rw [← hX]; rfl
  have hXudb : X.udb = s.udb := by rw [← hX]; rfl
  have hXudisk : X.udisk = s.udisk := by rw [← hX]; rfl
  have hXcfg : X.cfg = s.cfg := by rw [← hX]; rfl
  have hXsn : X.snaps = [] := by rw [← hX]; rfl
  have hXout : X.out = [.frame c (.ack id) true] := by rw [← hX, ← hsy]; rfl
  have hdbf := releaseNameplate_db X a n' (x.side.getD "") t
  have hudbf : (X.releaseNameplate a n' (x.side.getD "") t).1.udb = s.releaseUdb a n' (x.side.getD "") t := by
    rw [releaseNameplate_udb, hXcfg, hXudb, hXdb, blurTime_congr hXcfg]; rfl
  have hcp := fun (P : Chan → Usage → Prop) hA h1 h2 h3 =>
    releaseNameplate_pairAll (P := P) X a n' (x.side.getD "") t hA (by rw [hXudb, hXudisk]; exact hS.2) h1 h2 h3
  have hcx := CExt.releaseNameplate (OutExt.refl (s := X)) (app := a) (name := n') (side := x.side.getD "") (t := t)
  cases e : X.releaseNameplate a n' (x.side.getD "") t with
  | mk s1 b1 =>
    rw [e] at hstep hdbf hudbf hcp hcx
    obtain ⟨hb, _, _⟩ := releaseNameplate_exact e
    subst hb
    obtain ⟨_, _, hsync⟩ := releaseNameplate_spec e
    have hs1 : s1.Synced := hsync ⟨by rw [hXdb, hXdisk]; exact hS.1, by rw [hXudb, hXudisk]; exact hS.2⟩
    dsimp only at hstep hdbf hudbf hcp hcx
    obtain ⟨commits, hout, hc⟩ := hcx
    refine ⟨⟨commits, hc, ?_⟩, ?_, ?_, ?_⟩
    · rw [hstep]
      show s1.out ++ [Event.frame c .released s1.synced] = _
      rw [(synced_iff s1).2 hs1, hout, hXout]; simp
    · rw [hstep]
      show s1.db = _
      rw [hdbf, hXdb]
    · rw [hstep]
      exact hudbf
    · intro P h0 h1 h2 h3
      have : ({ s with out := [], snaps := [] } : Sys).stepPlain (.recv c t id (.release nm)) =
          s1.send c .released := hstep
      rw [this]
      have hA : PairAll P X :=
        ⟨by rw [hXdisk, hXudisk, ← hS.1, ← hS.2]; exact h0, by rw [hXsn]; simp⟩
      refine (hcp P hA (by rw [hXdb, hXudb]; exact h1) (by rw [hXdb, hudbf]; exact h2)
        (by rw [hXdb, hudbf]; exact h3)).of_eq rfl rfl rfl

end Sys


/-! ## 1. restart, connect, bind: the usage tables `nameplates` / `mailboxes` are not written -/

namespace Sys

/-- the bound state of the re-send has the usage `nameplates` / `mailboxes` tables of the crash state -/
theorem resend_bound_udb {sk : Sys} (hS : sk.Synced) (c' : Nat) (t : Time) (id₁ : Val) (a σ : String)
    (impl ver : Option String) :
    (((sk.step (.restart t)).step (.connect c')).step
        (.recv c' t id₁ (.bind (some a) (some σ) impl ver))).udb.nameplates = sk.udb.nameplates ∧
    (((sk.step (.restart t)).step (.connect c')).step
        (.recv c' t id₁ (.bind (some a) (some σ) impl ver))).udb.mailboxes = sk.udb.mailboxes := by
  have h0 : ((sk.step (.restart t)).step (.connect c')).udb = sk.udb := hS.2.symm
  have hk := Keep.onMessage
    (Keep.start ({ ((sk.step (.restart t)).step (.connect c')) with out := [], snaps := [] } : Sys)) c' t id₁
    (cmd := .bind (some a) (some σ) impl ver) (by intro n; simp) (by intro m mood; simp)
  exact ⟨hk.unp.trans (congrArg _ h0), hk.umb.trans (congrArg _ h0)⟩

end Sys

/-! ## 2. `release` -/

namespace Chan

theorem releaseRecs_releaseMid (d : Chan) (blur : Time → Time) (a n σ : String) (t : Time) :
    (d.releaseMid a n σ).releaseRecs blur a n σ t = d.releaseRecs blur a n σ t := by
  unfold releaseMid releaseRecs
  cases hnp : d.findNameplate a n with
  | none => simp only [hnp]
  | some np =>
    dsimp only
    rw [findNameplate_unclaim, hnp]
    dsimp only
    rw [findNpSide_unclaim]
    cases hs : d.findNpSide np.id σ with
    | none => simp
    | some r0 => simp only [Option.map_some, unclaim_unclaim]

theorem releaseRecs_releaseDb {d : Chan} (hP : d.PInv) (blur : Time → Time) (a n σ : String) (t : Time) :
    (d.releaseDb a n σ).releaseRecs blur a n σ t = [] := by
  cases hnp : d.findNameplate a n with
  | none =>
    have : d.releaseDb a n σ = d := by unfold releaseDb; rw [hnp]
    rw [this]; unfold releaseRecs; rw [hnp]
  | some np =>
    cases hs : d.findNpSide np.id σ with
    | none =>
      have : d.releaseDb a n σ = d := by unfold releaseDb; rw [hnp]; dsimp only; rw [hs]
      rw [this]; unfold releaseRecs; rw [hnp]; dsimp only; rw [hs]
    | some r0 =>
      by_cases hany : ((d.unclaim np.id σ).npSidesOf np.id).any (·.claimed) = true
      · have e : d.releaseDb a n σ = d.releaseMid a n σ := by
          unfold releaseDb releaseMid; rw [hnp]; dsimp only; rw [hs]; dsimp only; rw [if_pos hany]
        rw [e, releaseRecs_releaseMid]
        unfold releaseRecs; rw [hnp]; dsimp only; rw [hs]; dsimp only; rw [if_pos hany]
      · have e : d.releaseDb a n σ = ((d.unclaim np.id σ).delNpSidesOf np.id).delNameplate np.id := by
          unfold releaseDb; rw [hnp]; dsimp only; rw [hs]; dsimp only; rw [if_neg hany]
        have hgone : (d.releaseDb a n σ).findNameplate a n = none := by
          rw [e]
          simp only [findNameplate, delNameplate, delNpSidesOf, unclaim, List.find?_eq_none, List.mem_filter,
            decide_not, Bool.not_eq_eq_eq_not, Bool.not_true, decide_eq_false_iff_not, decide_eq_true_eq, not_and,
            and_imp]
          intro r hr hne ha hn
          have hnpm : np ∈ d.nameplates := List.mem_of_find?_eq_some hnp
          have hk := List.find?_some hnp
          simp only [decide_eq_true_eq] at hk
          have : r = np := hP.np_eq_of_key hr hnpm (ha.trans hk.1.symm) (hn.trans hk.2.symm)
          exact hne (by rw [this])
        unfold releaseRecs; rw [hgone]

end Chan

/-- an answered command was not rejected -/
theorem not_rejected_of_released {s : Sys} {c : Nat} {x : Conn} (hx : s.findConn c = some x) {nm : Option String}
    (t : Time) (id : Val) {b : Bool}
    (hans : Event.frame c .released b ∈ (s.step (.recv c t id (.release nm))).out) :
    rejectText x (.release nm) = none := by
  cases hr : rejectText x (.release nm) with
  | none => rfl
  | some text => rcases rejected_out t id hx hr _ hans with ⟨_, e⟩ | ⟨_, e⟩ <;> cases e

/-- **C10 (re-sent `release`), both databases, every crash point.**  `g` reachable (earlier crashes
    allowed), `c` bound to `(a, σ)`, a well-formed `release` -- with or without the name -- that resolves to
    nameplate `n` and is answered `released`; ANY `k` (`0`: the command is lost before its first commit).
    Crash, restart, reconnect, bind, `release n`, all at `t`.  Then
    * the answers are the same and the CHANNEL databases are equal;
    * the usage `mailboxes` tables are equal;
    * the usage `nameplates` table of the uncrashed run is that of before plus `recs` (at most one row), and
      the re-sent run ends with the same table, OR with that table FOLLOWED BY `recs` once more -- the
      latter only if the crash state already holds the usage rows of the uncrashed run while its channel
      database is not yet the final one (K-usage-crash-dup: the crash fell between `usage_db.commit()`
      and `db.commit()`). -/
theorem C10_resend_release_all {g : GSys} (hg : g.Reach) {c : Nat} {x : Conn} {a σ : String}
    (hx : g.sys.findConn c = some x) (happ : x.app = some a) (hside : x.side = some σ)
    {nm : Option String} {n : String} (hn : Np.releaseTarget x nm = some n) (t : Time) (id : Val)
    (hw : g.WFOp (.recv c t id (.release nm))) {b : Bool}
    (hans : Event.frame c .released b ∈ (g.sys.step (.recv c t id (.release nm))).out)
    (k : Nat) (c' : Nat) (id₁ : Val) (impl ver : Option String) :
    (g.sys.step (.recv c t id (.release nm))).frames = [.frame c (.ack id) true, .frame c .released true] ∧
    (resend (g.sys.step (.crashIn k (.recv c t id (.release nm)))) c' t id₁ id a σ impl ver
      (.release (some n))).frames = [.frame c' (.ack id) true, .frame c' .released true] ∧
    (resend (g.sys.step (.crashIn k (.recv c t id (.release nm)))) c' t id₁ id a σ impl ver
      (.release (some n))).db = (g.sys.step (.recv c t id (.release nm))).db ∧
    (resend (g.sys.step (.crashIn k (.recv c t id (.release nm)))) c' t id₁ id a σ impl ver
      (.release (some n))).udb.mailboxes = (g.sys.step (.recv c t id (.release nm))).udb.mailboxes ∧
    ∃ recs : List UNameplate, recs.length ≤ 1 ∧
      (g.sys.step (.recv c t id (.release nm))).udb.nameplates = g.sys.udb.nameplates ++ recs ∧
      (g.sys.cfg.usage = false → recs = []) ∧
      ((resend (g.sys.step (.crashIn k (.recv c t id (.release nm)))) c' t id₁ id a σ impl ver
          (.release (some n))).udb.nameplates = (g.sys.step (.recv c t id (.release nm))).udb.nameplates ∨
        ((resend (g.sys.step (.crashIn k (.recv c t id (.release nm)))) c' t id₁ id a σ impl ver
            (.release (some n))).udb.nameplates =
            (g.sys.step (.recv c t id (.release nm))).udb.nameplates ++ recs ∧
          (g.sys.step (.crashIn k (.recv c t id (.release nm)))).udb =
            (g.sys.step (.recv c t id (.release nm))).udb ∧
          (g.sys.step (.crashIn k (.recv c t id (.release nm)))).db ≠
            (g.sys.step (.recv c t id (.release nm))).db)) := by
  have hI := hg.ginv
  have hP := hI.cinv.toPInv
  have hIk : (g.step (.crashIn k (.recv c t id (.release nm)))).GInv := hI.step _ (hw.crashIn rfl k)
  have hr := not_rejected_of_released hx t id hans
  obtain ⟨⟨commits, hc, hout⟩, hdb, hudb, hcp⟩ := release_step_pairs hI.synced hx hr happ hn t id
  rw [getD_of_side hside] at hdb hudb hcp
  refine ⟨frames_of_answer hc (by rfl) hout, ?_⟩
  -- the crash point, as a pair
  have hcrash := crash_pair_of_pairAll g.sys hI.synced k (.recv c t id (.release nm))
    (P := fun d u => (d = g.sys.db ∧ u = g.sys.udb) ∨ (d = g.sys.db.releaseMid a n σ ∧ u = g.sys.udb) ∨
      (d = g.sys.db.releaseMid a n σ ∧ u = g.sys.releaseUdb a n σ t) ∨
      (d = g.sys.db.releaseDb a n σ ∧ u = g.sys.releaseUdb a n σ t))
    (Or.inl ⟨rfl, rfl⟩)
    (hcp _ (Or.inl ⟨rfl, rfl⟩) (Or.inr (Or.inl ⟨rfl, rfl⟩)) (Or.inr (Or.inr (Or.inl ⟨rfl, rfl⟩)))
      (Or.inr (Or.inr (Or.inr ⟨rfl, rfl⟩))))
  have hkcfg : (g.sys.step (.crashIn k (.recv c t id (.release nm)))).cfg = g.sys.cfg := crash_cfg _ _ _
  generalize hsk : g.sys.step (.crashIn k (.recv c t id (.release nm))) = sk at hcrash hkcfg ⊢
  have hSk : sk.Synced := by rw [← hsk]; exact hIk.synced
  obtain ⟨hRdb, hRsy, hRconns, hRcfg, hR⟩ := resend_ready hSk c' t id₁ a σ impl ver
  obtain ⟨hbn, hbm⟩ := resend_bound_udb hSk c' t id₁ a σ impl ver
  have hf : ∀ y ∈ (sk.step (.restart t)).conns, y.id ≠ c' := by rw [hRconns]; simp
  have hxb := hR.findConn hf
  have hSb := hR.synced hRsy
  generalize hsb : ((sk.step (.restart t)).step (.connect c')).step
      (.recv c' t id₁ (.bind (some a) (some σ) impl ver)) = sb at hR hbn hbm hxb hSb
  have hbcfg : sb.cfg = g.sys.cfg := by rw [hR.cfg, hRcfg, hkcfg]
  obtain ⟨⟨commits', hc', hout'⟩, hdb', hudb', _⟩ := release_step_pairs hSb hxb (nm := some n) (n := n)
    (by simp [rejectText, needBind, dupConn]) (a := a) rfl rfl t id
  have hside' : (dupConn c' a σ).side.getD "" = σ := rfl
  rw [hside', hR.db, hRdb] at hdb'
  rw [hside'] at hudb'
  have hresend : resend sk c' t id₁ id a σ impl ver (.release (some n)) =
      sb.step (.recv c' t id (.release (some n))) := by unfold resend; rw [hsb]
  rw [hresend]
  refine ⟨frames_of_answer hc' (by rfl) hout', ?_, ?_, ?_⟩
  · -- channel database
    rw [hdb', hdb]
    rcases hcrash with h | h | h | h <;> rw [h.1]
    · exact Chan.releaseDb_releaseMid _ _ _ _
    · exact Chan.releaseDb_releaseMid _ _ _ _
    · exact Chan.releaseDb_releaseDb hP _ _ _
  · -- usage mailboxes
    rw [hudb', hudb]
    have e1 : (sb.releaseUdb a n σ t).mailboxes = sb.udb.mailboxes := by unfold releaseUdb; split <;> rfl
    have e2 : (g.sys.releaseUdb a n σ t).mailboxes = g.sys.udb.mailboxes := by unfold releaseUdb; split <;> rfl
    rw [e1, e2, hbm]
    rcases hcrash with h | h | h | h <;> rw [h.2]
    · exact e2
    · exact e2
  · -- usage nameplates
    refine ⟨if g.sys.cfg.usage then g.sys.db.releaseRecs g.sys.blurTime a n σ t else [], ?_, ?_, ?_, ?_⟩
    · split
      · exact Chan.releaseRecs_length _ _ _ _ _ _
      · simp
    · rw [hudb]; unfold releaseUdb; split <;> simp
    · intro hu; simp [hu]
    · rw [hudb', hudb]
      have hbl : sb.blurTime = g.sys.blurTime := blurTime_congr hbcfg
      have e1 : (sb.releaseUdb a n σ t).nameplates =
          sk.udb.nameplates ++ (if g.sys.cfg.usage then sk.db.releaseRecs g.sys.blurTime a n σ t else []) := by
        unfold releaseUdb
        rw [hbcfg, hbl, hR.db, hRdb]
        split
        · show sb.udb.nameplates ++ _ = _; rw [hbn]
        · rw [hbn]; simp
      have e2 : (g.sys.releaseUdb a n σ t).nameplates =
          g.sys.udb.nameplates ++ (if g.sys.cfg.usage then g.sys.db.releaseRecs g.sys.blurTime a n σ t else []) := by
        unfold releaseUdb; split <;> simp
      rw [e1]
      rcases hcrash with h | h | h | h
      · left; rw [h.1, h.2, e2]
      · left; rw [h.1, h.2, e2, Chan.releaseRecs_releaseMid]
      · by_cases hfin : g.sys.db.releaseMid a n σ = g.sys.db.releaseDb a n σ
        · left
          rw [h.1, h.2, hfin, Chan.releaseRecs_releaseDb hP]
          simp
        · right
          refine ⟨by rw [h.1, h.2, Chan.releaseRecs_releaseMid], by rw [h.2], ?_⟩
          rw [h.1, hdb]; exact hfin
      · left
        rw [h.1, h.2, Chan.releaseRecs_releaseDb hP]
        simp


/-! ## 3. Without a usage database: nothing is ever written, so both databases agree -/

/-- **(a)** with `cfg.usage = false` the usage database is untouched by the uncrashed step and by
    crash + restart + reconnect + bind + re-send: EVERY operation `op`, every `k`, every re-sent command -/
theorem C10_resend_usage_equal_nousage {s : Sys} (hS : s.udb = s.udisk) (hu : s.cfg.usage = false) (op : Op)
    (k : Nat) (c' : Nat) (t : Time) (id₁ id : Val) (a σ : String) (impl ver : Option String) (cmd' : Cmd) :
    (s.step op).udb = s.udb ∧
    (resend (s.step (.crashIn k op)) c' t id₁ id a σ impl ver cmd').udb = s.udb ∧
    (resend (s.step (.crashIn k op)) c' t id₁ id a σ impl ver cmd').udb = (s.step op).udb := by
  have h0 := (C15_no_usage_db_no_writes hS hu op).1
  have key : ∀ (z : Sys) (o : Op), z.udb = z.udisk → z.cfg.usage = false →
      (z.step o).udb = z.udb ∧ (z.step o).udb = (z.step o).udisk ∧ (z.step o).cfg.usage = false := by
    intro z o h1 h2
    obtain ⟨e1, e2⟩ := C15_no_usage_db_no_writes h1 h2 o
    exact ⟨e1, e1.trans e2.symm, by rw [step_cfg]; exact h2⟩
  obtain ⟨a1, b1, c1⟩ := key s (.crashIn k op) hS hu
  obtain ⟨a2, b2, c2⟩ := key _ (.restart t) b1 c1
  obtain ⟨a3, b3, c3⟩ := key _ (.connect c') b2 c2
  obtain ⟨a4, b4, c4⟩ := key _ (.recv c' t id₁ (.bind (some a) (some σ) impl ver)) b3 c3
  obtain ⟨a5, _, _⟩ := key _ (.recv c' t id cmd') b4 c4
  have : (resend (s.step (.crashIn k op)) c' t id₁ id a σ impl ver cmd').udb = s.udb := by
    unfold resend
    rw [a5, a4, a3, a2, a1]
  exact ⟨h0, this, this.trans h0.symm⟩

/-! ## 4. `claim` -/

namespace Sys

/-- the usage database is `U` everywhere: in the connection, on disk, in every snapshot of the step -/
def USame (U : Usage) (s : Sys) : Prop := s.udb = U ∧ s.udisk = U ∧ ∀ p ∈ s.snaps, p.2 = U

variable {U : Usage}

theorem USame.commit {s : Sys} (h : USame U s) : USame U s.commit := by
  unfold Sys.commit
  split
  · exact h
  · refine ⟨h.1, h.2.1, ?_⟩
    intro p hp
    simp only [List.mem_append, List.mem_singleton] at hp
    rcases hp with hp | rfl
    · exact h.2.2 p hp
    · exact h.2.1

theorem USame.modDb {s : Sys} (h : USame U s) (f) : USame U (s.modDb f) := h
theorem USame.updConn {s : Sys} (h : USame U s) (c f) : USame U (s.updConn c f) := h
theorem USame.emit {s : Sys} (h : USame U s) (e) : USame U (s.emit e) := h
theorem USame.send {s : Sys} (h : USame U s) (c f) : USame U (s.send c f) := h
theorem USame.sendError {s : Sys} (h : USame U s) (c x) : USame U (s.sendError c x) := h
theorem USame.internalErr {s : Sys} (h : USame U s) (c x) : USame U (s.internalErr c x) := h

theorem USame.mailboxOpen {s : Sys} (h : USame U s) (mb side t) : USame U (s.mailboxOpen mb side t) := by
  unfold Sys.mailboxOpen
  split
  · exact ((h.modDb _).modDb _).commit
  · exact (h.modDb _).commit

theorem USame.addMailbox {s s1 : Sys} (h : USame U s) {app mb forNp t}
    (e : s.addMailbox app mb forNp t = some s1) : USame U s1 := by
  unfold Sys.addMailbox at e
  split at e
  · cases e; exact h
  · split at e
    · cases e
    · cases e; exact h.modDb _

theorem USame.openMailbox {s : Sys} (h : USame U s) (app mb side t) : USame U (s.openMailbox app mb side t).1 := by
  unfold Sys.openMailbox
  cases e : s.addMailbox app mb false t with
  | none => exact h
  | some s1 =>
    dsimp only
    split <;> exact ((h.addMailbox e).mailboxOpen _ _ _).commit

theorem USame.claimCont {s : Sys} (h : USame U s) (app npid mb side t) :
    USame U (claimCont s app npid mb side t).1 := by
  unfold Sys.claimCont
  dsimp only
  have h1 := h.commit.openMailbox app mb side t
  split
  · rename_i s3 e; rw [e] at h1; exact h1
  · rename_i s3 e; rw [e] at h1; exact h1
  · rename_i s3 e; rw [e] at h1; split <;> exact h1

theorem USame.claimTail {s : Sys} (h : USame U s) (app npid mb side t) :
    USame U (s.claimTail app npid mb side t).1 := by
  rw [claimTail_eq]
  split
  · exact (h.modDb _).claimCont _ _ _ _ _
  · split
    · exact h.claimCont _ _ _ _ _
    · exact h

theorem USame.claimNameplate {s : Sys} (h : USame U s) (app name side t fresh) :
    USame U (s.claimNameplate app name side t fresh).1 := by
  unfold Sys.claimNameplate
  split
  · cases e : s.addMailbox app fresh true t with
    | none => exact h
    | some s1 => exact ((h.addMailbox e).modDb _).claimTail _ _ _ _ _
  · exact h.claimTail _ _ _ _ _

/-- the usage database a crash (any `k`) leaves when it is `U` at every commit point -/
theorem crash_udb_of_uSame (s : Sys) (hS : s.Synced) (k : Nat) (op : Op)
    (h : USame s.udb (({ s with out := [], snaps := [] } : Sys).stepPlain op)) :
    (s.step (.crashIn k op)).udb = s.udb := by
  obtain ⟨p, hp, _, _, e3, _, _⟩ := GSys.step_crash_spec s k op
  rw [e3]
  rcases hp with hp | rfl | rfl
  · exact h.2.2 p hp
  · exact h.2.1
  · exact hS.2.symm

/-- the channel database a crash before the first commit leaves -/
theorem crash_zero_db (s : Sys) (op : Op) : (s.step (.crashIn 0 op)).db = s.disk := rfl

/-- `claim_nameplate` is a function of the channel database (for a generated id that is new) -/
theorem claimNameplate_det {s s' s1 s2 : Sys} {a n σ : String} {t : Time} {f m : String} {r' : ClaimRes}
    (hP : s.db.PInv) (hdb : s'.db = s.db) (hfresh : ∀ mm ∈ s.db.mailboxes, mm.id ≠ f)
    (h : s.claimNameplate a n σ t f = (s1, .ok m)) (h' : s'.claimNameplate a n σ t f = (s2, r')) :
    s2.db = s1.db ∧ r' = .ok m := by
  cases hrow : s.db.findNameplate a n with
  | none =>
    obtain ⟨e1, _, e3⟩ := claimNameplate_new hP hrow hfresh h
    obtain ⟨e1', _, e3'⟩ := claimNameplate_new (by rw [hdb]; exact hP) (by rw [hdb]; exact hrow)
      (by rw [hdb]; exact hfresh) h'
    exact ⟨by rw [e1', e1, hdb], by rw [e3', e3]⟩
  | some row =>
    rcases claimNameplate_present hP hrow h with ⟨_, _, _, _, e⟩ | ⟨hall, e1, _, e3⟩
    · cases e
    · rcases claimNameplate_present (by rw [hdb]; exact hP) (by rw [hdb]; exact hrow) h' with
        ⟨r0, hr0, hcl, _, _⟩ | ⟨_, e1', _, e3'⟩
      · rw [hdb] at hr0
        rw [hall r0 hr0] at hcl; cases hcl
      · have : s2.db = s1.db := by rw [e1', e1, hdb]
        exact ⟨this, by rw [e3', this, ← e3]⟩

end Sys

/-- **C10 (re-sent `claim`), both databases, every crash point.**  As `C10_resend_claim` (C10b) but for a
    pre-state reachable WITH crashes and ANY `k`; for `k = 0` (nothing committed: the command is lost) the
    re-sent claim must carry the same generated id, `1 ≤ k ∨ f' = fresh`.  A claim writes no usage
    `nameplates` / `mailboxes` row: these tables are EQUAL in the two runs (and equal to those before). -/
theorem C10_resend_claim_all {g : GSys} (hg : g.Reach) {c : Nat} {x : Conn} {a σ : String}
    (hx : g.sys.findConn c = some x) (happ : x.app = some a) (hside : x.side = some σ)
    {n fresh : String} (t : Time) (id : Val)
    (hw : g.WFOp (.recv c t id (.claim (some n) fresh)))
    {m : String} {b : Bool}
    (hans : Event.frame c (.claimed m) b ∈ (g.sys.step (.recv c t id (.claim (some n) fresh))).out)
    (k : Nat) (c' : Nat) (id₁ : Val) (impl ver : Option String) (f' : String) (hk : 1 ≤ k ∨ f' = fresh) :
    (g.sys.step (.recv c t id (.claim (some n) fresh))).frames =
      [.frame c (.ack id) true, .frame c (.claimed m) true] ∧
    (resend (g.sys.step (.crashIn k (.recv c t id (.claim (some n) fresh)))) c' t id₁ id a σ impl ver
      (.claim (some n) f')).frames = [.frame c' (.ack id) true, .frame c' (.claimed m) true] ∧
    (resend (g.sys.step (.crashIn k (.recv c t id (.claim (some n) fresh)))) c' t id₁ id a σ impl ver
      (.claim (some n) f')).db = (g.sys.step (.recv c t id (.claim (some n) fresh))).db ∧
    (g.sys.step (.recv c t id (.claim (some n) fresh))).udb = g.sys.udb ∧
    (resend (g.sys.step (.crashIn k (.recv c t id (.claim (some n) fresh)))) c' t id₁ id a σ impl ver
      (.claim (some n) f')).udb.nameplates = g.sys.udb.nameplates ∧
    (resend (g.sys.step (.crashIn k (.recv c t id (.claim (some n) fresh)))) c' t id₁ id a σ impl ver
      (.claim (some n) f')).udb.mailboxes = g.sys.udb.mailboxes := by
  have hI := hg.ginv
  have hP := hI.cinv.toPInv
  have hI' : (g.step (.recv c t id (.claim (some n) fresh))).GInv := hI.step _ hw
  have hIk : (g.step (.crashIn k (.recv c t id (.claim (some n) fresh)))).GInv := hI.step _ (hw.crashIn rfl k)
  -- the original
  have hr : rejectText x (.claim (some n) fresh) = none := by
    cases hr : rejectText x (.claim (some n) fresh) with
    | none => rfl
    | some text => rcases rejected_out t id hx hr _ hans with ⟨_, e⟩ | ⟨_, e⟩ <;> cases e
  obtain ⟨_, hdc, _⟩ := claim_accepted hr
  obtain ⟨s1, r, e, ⟨commits, hc, hout⟩, hdb, hsy, _⟩ := claim_step hP hI.synced hx hr happ t id
  have hrm : r = .ok m := by
    rw [hout] at hans
    simp only [List.mem_cons, List.mem_append, List.not_mem_nil, or_false] at hans
    rcases hans with h | h | h
    · cases h
    · obtain ⟨w, hw'⟩ := hc _ h; cases hw'
    · cases r <;> simp [claimAnswer] at h
      exact congrArg _ h.1.symm
  subst hrm
  rw [getD_of_side hside] at e
  have hfresh : ∀ mm ∈ g.sys.db.mailboxes, mm.id ≠ fresh := by
    intro mm hm e'
    exact hw.idFresh fresh rfl (e' ▸ hI.used mm hm)
  have hstep := step_claim_eq (s := g.sys) t id n fresh hx happ hdc
  rw [getD_of_side hside] at hstep
  generalize hX : ((({ g.sys with out := [], snaps := [] } : Sys).send c (.ack id)).updConn c
    (fun y => { y with didClaim := true, nameplateId := some n })) = X at e hstep
  have hX0 : X.db = g.sys.db := by rw [← hX]; rfl
  have hXsn : X.snaps = [] := by rw [← hX]; rfl
  have hXU : USame g.sys.udb X := by rw [← hX]; exact ⟨rfl, hI.synced.2.symm, fun p hp => absurd hp List.not_mem_nil⟩
  obtain ⟨D1, row, hrow, hrm, hrside, hfin, hres, hsnap⟩ :=
    claimNameplate_mid (s := X) (by rw [hX0]; exact hP) (by rw [hX0]; exact hfresh) e
  have hframes := frames_of_answer hc (by rfl) hout
  refine ⟨hframes, ?_⟩
  have hplain : ({ g.sys with out := [], snaps := [] } : Sys).stepPlain (.recv c t id (.claim (some n) fresh)) =
      s1.send c (.claimed m) := by
    rw [e] at hstep; exact hstep
  -- the commit points of the uncrashed run
  have hall : DbAll (fun d => d = D1 ∨ d = s1.db)
      (({ g.sys with out := [], snaps := [] } : Sys).stepPlain (.recv c t id (.claim (some n) fresh))) := by
    rw [hplain]
    refine ⟨Or.inr ?_, ?_⟩
    · show s1.disk = s1.db
      have := hsy.1
      rw [hdb] at this
      have h2 : (g.sys.step (.recv c t id (.claim (some n) fresh))).disk = s1.disk := by
        show (({ g.sys with out := [], snaps := [] } : Sys).stepPlain _).disk = _
        rw [hplain]; rfl
      rw [h2] at this
      exact this.symm
    · intro p hp
      rcases hsnap p hp with h | h
      · rw [hXsn] at h; exact absurd h List.not_mem_nil
      · exact h
  have hUall : USame g.sys.udb
      (({ g.sys with out := [], snaps := [] } : Sys).stepPlain (.recv c t id (.claim (some n) fresh))) := by
    rw [hplain]
    have := hXU.claimNameplate a n σ t fresh
    rw [e] at this
    exact this.send _ _
  have hcrash : (g.sys.step (.crashIn k (.recv c t id (.claim (some n) fresh)))).db = g.sys.db ∧ k = 0 ∨
      (g.sys.step (.crashIn k (.recv c t id (.claim (some n) fresh)))).db = D1 ∨
      (g.sys.step (.crashIn k (.recv c t id (.claim (some n) fresh)))).db = s1.db := by
    cases k with
    | zero => exact Or.inl ⟨(crash_zero_db _ _).trans hI.synced.1.symm, rfl⟩
    | succ k' => exact Or.inr (crash_db_of_dbAll g.sys (by omega) _ hall)
  have hcrashU := crash_udb_of_uSame g.sys hI.synced k _ hUall
  have hudb1 : (g.sys.step (.recv c t id (.claim (some n) fresh))).udb = g.sys.udb := hUall.1
  -- the re-send
  generalize hsk : g.sys.step (.crashIn k (.recv c t id (.claim (some n) fresh))) = sk at hcrash hcrashU ⊢
  have hSk : sk.Synced := by rw [← hsk]; exact hIk.synced
  have hPk : sk.db.PInv := by rw [← hsk]; exact hIk.cinv.toPInv
  obtain ⟨hRdb, hRsy, hRconns, _, hR⟩ := resend_ready hSk c' t id₁ a σ impl ver
  obtain ⟨hbn, hbm⟩ := resend_bound_udb hSk c' t id₁ a σ impl ver
  have hf : ∀ y ∈ (sk.step (.restart t)).conns, y.id ≠ c' := by rw [hRconns]; simp
  have hxb := hR.findConn hf
  have hSb := hR.synced hRsy
  generalize hsb : ((sk.step (.restart t)).step (.connect c')).step
      (.recv c' t id₁ (.bind (some a) (some σ) impl ver)) = sb at hR hbn hbm hxb hSb
  have hPb : sb.db.PInv := by rw [hR.db, hRdb]; exact hPk
  have hrb : rejectText (dupConn c' a σ) (.claim (some n) f') = none := by simp [rejectText, needBind, dupConn]
  obtain ⟨s2, r', e', ⟨commits', hc', hout'⟩, hdb', _, _⟩ :=
    claim_step hPb hSb hxb (name := n) (fresh := f') hrb (app := a) rfl t id
  have hside' : (dupConn c' a σ).side.getD "" = σ := rfl
  rw [hside'] at e'
  have hstep' := step_claim_eq (s := sb) t id n f' hxb (a := a) rfl (by rfl)
  rw [hside'] at hstep'
  generalize hX' : ((({ sb with out := [], snaps := [] } : Sys).send c' (.ack id)).updConn c'
        (fun y => { y with didClaim := true, nameplateId := some n })) = X' at e' hstep'
  have hXdb : X'.db = sk.db := by
    rw [← hX']
    show sb.db = sk.db
    rw [hR.db, hRdb]
  have hXU' : USame sb.udb X' := by rw [← hX']; exact ⟨rfl, hSb.2.symm, fun p hp => absurd hp List.not_mem_nil⟩
  have hudb2 : (sb.step (.recv c' t id (.claim (some n) f'))).udb = sb.udb := by
    rw [hstep']
    have := hXU'.claimNameplate a n σ t f'
    have h3 : ∀ (q : Sys × ClaimRes), USame sb.udb q.1 →
        (match q with
          | (s1, .ok mb) => s1.send c' (.claimed mb)
          | (s1, .crowded) => s1.sendError c' "crowded"
          | (s1, .reclaimed) => s1.sendError c' "reclaimed"
          | (s1, .integrity) => s1.internalErr c' "IntegrityError").udb = sb.udb := by
      rintro ⟨q1, q2⟩ hq
      cases q2 <;> exact hq.1
    exact h3 _ this
  have key : s2.db = s1.db ∧ r' = .ok m := by
    rcases hcrash with ⟨hD, hk0⟩ | hD | hD
    · have hff : f' = fresh := by
        rcases hk with hk | hk
        · omega
        · exact hk
      subst hff
      exact claimNameplate_det (s := X) (s' := X') (by rw [hX0]; exact hP) (by rw [hXdb, hD, hX0])
        (by rw [hX0]; exact hfresh) e e'
    · obtain ⟨k1, k2, _⟩ := claimNameplate_from_mid (by rw [hXdb]; exact hPk) (hXdb.trans hD) hrow hrm hrside
        (by rw [← hfin]; exact hres) e'
      exact ⟨k1.trans hfin.symm, k2⟩
    · have hP1 : s1.db.PInv := by rw [← hdb]; exact hI'.cinv.toPInv
      have hD1 := claimNameplate_ok_done hP1 e
      obtain ⟨s2', e2, k1, _⟩ := claimNameplate_again (by rw [hXdb]; exact hPk)
        (by rw [hXdb, hD]; exact hD1) f'
      rw [e'] at e2
      cases e2
      exact ⟨k1.trans (hXdb.trans hD), rfl⟩
  obtain ⟨k1, k2⟩ := key
  subst k2
  have hresend : resend sk c' t id₁ id a σ impl ver (.claim (some n) f') =
      sb.step (.recv c' t id (.claim (some n) f')) := by unfold resend; rw [hsb]
  rw [hresend]
  exact ⟨frames_of_answer hc' (by rfl) hout', by rw [hdb', k1, hdb], hudb1,
    by rw [hudb2, hbn, hcrashU], by rw [hudb2, hbm, hcrashU]⟩


/-! ## 5. `open` -/

namespace Sys

variable {U : Usage}

theorem USame.foldl_send {α : Type} (g : α → Nat) (fr : α → Frame) (l : List α) :
    ∀ {s : Sys}, USame U s → USame U (l.foldl (fun s a => s.send (g a) (fr a)) s) := by
  induction l with
  | nil => intro s h; exact h
  | cons a l ih => intro s h; exact ih (h.send _ _)

theorem USame.handleOpen {s : Sys} (h : USame U s) (x : Conn) (app side : String) (t : Time) (m : Option String) :
    USame U (s.handleOpen x app side t m) := by
  unfold Sys.handleOpen
  split
  · exact h.sendError _ _
  · split
    · exact h.sendError _ _
    · rename_i mb
      dsimp only
      have h1 := (h.updConn x.id (fun y => { y with mailboxId := some mb })).openMailbox app mb side t
      split
      · rename_i s1 e; rw [e] at h1; exact h1.sendError _ _
      · rename_i s1 e; rw [e] at h1; exact h1.internalErr _ _
      · rename_i s1 e; rw [e] at h1
        unfold Sys.replay
        exact USame.foldl_send _ _ _ (h1.updConn _ _)

/-- an `open` by a bound connection writes nothing to the usage database, at any commit point -/
theorem open_uSame {s : Sys} (hS : s.Synced) {c : Nat} {x : Conn} (hx : s.findConn c = some x) {a : String}
    (happ : x.app = some a) (t : Time) (id : Val) (mo : Option String) :
    USame s.udb (({ s with out := [], snaps := [] } : Sys).stepPlain (.recv c t id (.open_ mo))) := by
  have hstep : ({ s with out := [], snaps := [] } : Sys).stepPlain (.recv c t id (.open_ mo)) =
      (({ s with out := [], snaps := [] } : Sys).send c (.ack id)).handleOpen x a (x.side.getD "") t mo := by
    show ({ s with out := [], snaps := [] } : Sys).onMessage c t id (.open_ mo) = _
    unfold onMessage
    have : ({ s with out := [], snaps := [] } : Sys).findConn c = some x := hx
    simp only [this, happ]
  rw [hstep]
  have h0 : USame s.udb ({ s with out := [], snaps := [] } : Sys) :=
    ⟨rfl, hS.2.symm, fun p hp => absurd hp List.not_mem_nil⟩
  exact (h0.send c (.ack id)).handleOpen x a (x.side.getD "") t mo

/-- the database a crash leaves (ANY `k`) satisfies every property of the database before and of all
    commit points of the uncrashed run -/
theorem crash_db_of_dbAll_any {P : Chan → Prop} (s : Sys) (hS : s.Synced) (k : Nat) (op : Op) (h0 : P s.db)
    (h : DbAll P (({ s with out := [], snaps := [] } : Sys).stepPlain op)) : P (s.step (.crashIn k op)).db :=
  crash_pair_of_pairAll (P := fun d _ => P d) s hS k op h0 ⟨h.1, h.2⟩

end Sys

/-- **C10 (re-sent `open`), both databases, every crash point.**  As `C10_resend_open` (C10b) for a
    pre-state reachable WITH crashes and ANY `k`.  An `open` writes no usage `nameplates` / `mailboxes` row. -/
theorem C10_resend_open_all {g : GSys} (hg : g.Reach) {c : Nat} {x : Conn} {a σ : String}
    (hx : g.sys.findConn c = some x) (happ : x.app = some a) (hside : x.side = some σ)
    {mb : String} (t : Time) (id : Val) (hw : g.WFOp (.recv c t id (.open_ (some mb))))
    (hans : ∀ e ∈ (g.sys.step (.recv c t id (.open_ (some mb)))).out, e.isFailure = false)
    (k : Nat) (c' : Nat) (id₁ : Val) (impl ver : Option String) :
    (g.sys.step (.recv c t id (.open_ (some mb)))).frames =
      .frame c (.ack id) true :: replayFrames (g.sys.step (.recv c t id (.open_ (some mb)))).db c a mb ∧
    (resend (g.sys.step (.crashIn k (.recv c t id (.open_ (some mb))))) c' t id₁ id a σ impl ver
      (.open_ (some mb))).frames =
      .frame c' (.ack id) true :: replayFrames (g.sys.step (.recv c t id (.open_ (some mb)))).db c' a mb ∧
    (resend (g.sys.step (.crashIn k (.recv c t id (.open_ (some mb))))) c' t id₁ id a σ impl ver
      (.open_ (some mb))).db = (g.sys.step (.recv c t id (.open_ (some mb)))).db ∧
    (g.sys.step (.recv c t id (.open_ (some mb)))).udb = g.sys.udb ∧
    (resend (g.sys.step (.crashIn k (.recv c t id (.open_ (some mb))))) c' t id₁ id a σ impl ver
      (.open_ (some mb))).udb.nameplates = g.sys.udb.nameplates ∧
    (resend (g.sys.step (.crashIn k (.recv c t id (.open_ (some mb))))) c' t id₁ id a σ impl ver
      (.open_ (some mb))).udb.mailboxes = g.sys.udb.mailboxes := by
  have hI := hg.ginv
  have hP := hI.cinv.toPInv
  have hIk : (g.step (.crashIn k (.recv c t id (.open_ (some mb))))).GInv := hI.step _ (hw.crashIn rfl k)
  have hr : rejectText x (.open_ (some mb)) = none := by
    cases hr : rejectText x (.open_ (some mb)) with
    | none => rfl
    | some text =>
      exfalso
      have h1 := (C17_validation_error t id hx (rejected_of_rejectText hr)).1
      have := hans (.frame c (.error text) g.sys.synced) (by rw [h1]; simp)
      simp [Event.isFailure] at this
  obtain ⟨m, hm, hdb, hlen, commits, hc, hout⟩ := orig_open hI hx happ hside hans
  cases hm
  have hfr : ∀ (z : Sys) (cc : Nat) (cm : List Event) (d : Chan), (∀ e ∈ cm, IsCommit e) →
      z.out = .frame cc (.ack id) true :: (cm ++ replayFrames d cc a mb) →
      z.frames = .frame cc (.ack id) true :: replayFrames d cc a mb := by
    intro z cc cm d h1 h2
    unfold Sys.frames
    rw [h2]
    exact filter_isFrame_answer h1 (replayFrames_isFrame d cc a mb)
  refine ⟨hfr _ c commits _ hc hout, ?_⟩
  have hcp := open_commit_points hP hI.synced hx hr happ t id
    (P := fun d => d = g.sys.db ∨ d = g.sys.db.openDb a mb σ t) (Or.inl rfl)
    (Or.inr (by rw [getD_of_side hside]))
  have hcrash := crash_db_of_dbAll_any g.sys hI.synced k _ (Or.inl rfl) hcp
  have hUall := open_uSame hI.synced hx happ t id (some mb)
  have hcrashU := crash_udb_of_uSame g.sys hI.synced k _ hUall
  have hudb1 : (g.sys.step (.recv c t id (.open_ (some mb)))).udb = g.sys.udb := hUall.1
  -- what the answer of the original says about the database before
  have hnc : ¬ g.sys.db.Clash a mb := by
    intro hcl
    obtain ⟨h1, _, _⟩ := open_step hP hI.synced hx hr happ t id
    have := hans (.internal (some c) "IntegrityError") (by rw [(h1 hcl).1]; simp)
    simp [Event.isFailure] at this
  generalize hsk : g.sys.step (.crashIn k (.recv c t id (.open_ (some mb)))) = sk at hcrash hcrashU ⊢
  have hSk : sk.Synced := by rw [← hsk]; exact hIk.synced
  have hPk : sk.db.PInv := by rw [← hsk]; exact hIk.cinv.toPInv
  obtain ⟨hRdb, hRsy, hRconns, _, hR⟩ := resend_ready hSk c' t id₁ a σ impl ver
  obtain ⟨hbn, hbm⟩ := resend_bound_udb hSk c' t id₁ a σ impl ver
  have hf : ∀ y ∈ (sk.step (.restart t)).conns, y.id ≠ c' := by rw [hRconns]; simp
  have hxb := hR.findConn hf
  have hSb := hR.synced hRsy
  generalize hsb : ((sk.step (.restart t)).step (.connect c')).step
      (.recv c' t id₁ (.bind (some a) (some σ) impl ver)) = sb at hR hbn hbm hxb hSb
  obtain ⟨_, _, h3⟩ := open_step (by rw [hR.db, hRdb]; exact hPk) hSb hxb (mb := mb)
    (by simp [rejectText, needBind, dupConn]) (app := a) rfl t id
  have hside' : (dupConn c' a σ).side.getD "" = σ := rfl
  rw [hside', hR.db, hRdb] at h3
  have hopen : sk.db.openDb a mb σ t = g.sys.db.openDb a mb σ t ∧ ¬ sk.db.Clash a mb := by
    rcases hcrash with h | h
    · rw [h]; exact ⟨rfl, hnc⟩
    · rw [h]
      exact ⟨Chan.openDb_idem _ _ _ _ _, fun hcl => hcl.2 (Chan.openDb_hasBox _ _ _ _ _)⟩
  rw [hopen.1] at h3
  obtain ⟨⟨commits', hc', hout'⟩, hdb', _⟩ := h3 hopen.2 (by rw [← hdb]; omega)
  have hudb2 : (sb.step (.recv c' t id (.open_ (some mb)))).udb = sb.udb :=
    (open_uSame hSb hxb (a := a) rfl t id (some mb)).1
  have hresend : resend sk c' t id₁ id a σ impl ver (.open_ (some mb)) =
      sb.step (.recv c' t id (.open_ (some mb))) := by unfold resend; rw [hsb]
  rw [hresend, hdb]
  exact ⟨hfr _ c' commits' _ hc' hout', hdb', hudb1, by rw [hudb2, hbn, hcrashU], by rw [hudb2, hbm, hcrashU]⟩


/-! ## 6. `close` -/

namespace Sys

theorem storeNameplateUsage_frame {s s1 : Sys} {app sides t p b}
    (h : s.storeNameplateUsage app sides t p = (s1, b)) :
    s1.disk = s.disk ∧ s1.udisk = s.udisk ∧ s1.snaps = s.snaps ∧ s1.db = s.db ∧ s1.cfg = s.cfg := by
  unfold storeNameplateUsage at h
  split at h <;>
  · simp only [Prod.mk.injEq] at h
    obtain ⟨rfl, rfl⟩ := h
    exact ⟨rfl, rfl, rfl, rfl, rfl⟩

theorem storeNameplatesOfMailbox_frame {app t} (l : List Nameplate) :
    ∀ {s s1 : Sys} {b}, s.storeNameplatesOfMailbox app t l = (s1, b) →
      s1.disk = s.disk ∧ s1.udisk = s.udisk ∧ s1.snaps = s.snaps ∧ s1.db = s.db ∧ s1.cfg = s.cfg := by
  induction l with
  | nil =>
    intro s s1 b h
    simp only [storeNameplatesOfMailbox, Prod.mk.injEq] at h
    obtain ⟨rfl, rfl⟩ := h
    exact ⟨rfl, rfl, rfl, rfl, rfl⟩
  | cons np rest ih =>
    intro s s1 b h
    unfold storeNameplatesOfMailbox at h
    split at h
    · rename_i s0 e
      simp only [Prod.mk.injEq] at h
      obtain ⟨rfl, rfl⟩ := h
      exact storeNameplateUsage_frame e
    · rename_i s0 e
      obtain ⟨a1, a2, a3, a4, a5⟩ := storeNameplateUsage_frame e
      obtain ⟨b1, b2, b3, b4, b5⟩ := ih h
      exact ⟨b1.trans a1, b2.trans a2, b3.trans a3, b4.trans a4, b5.trans a5⟩

theorem PairAll.modDb {P} {s : Sys} (h : PairAll P s) (f) : PairAll P (s.modDb f) := h
theorem PairAll.modUdb {P} {s : Sys} (h : PairAll P s) (f) : PairAll P (s.modUdb f) := h
theorem PairAll.updConn {P} {s : Sys} (h : PairAll P s) (c f) : PairAll P (s.updConn c f) := h
theorem PairAll.emit {P} {s : Sys} (h : PairAll P s) (e) : PairAll P (s.emit e) := h
theorem PairAll.send {P} {s : Sys} (h : PairAll P s) (c f) : PairAll P (s.send c f) := h
theorem PairAll.sendError {P} {s : Sys} (h : PairAll P s) (c x) : PairAll P (s.sendError c x) := h
theorem PairAll.internalErr {P} {s : Sys} (h : PairAll P s) (c x) : PairAll P (s.internalErr c x) := h
theorem PairAll.stopListeners {P} {s : Sys} (h : PairAll P s) (a m) : PairAll P (s.stopListeners a m) := h
theorem PairAll.storeMailboxUsage {P} {s : Sys} (h : PairAll P s) (a f sd t p) :
    PairAll P (s.storeMailboxUsage a f sd t p) := h

theorem mailboxClose_pairAll {P} {s s1 : Sys} {app mb side mood t b}
    (h : s.mailboxClose app mb side mood t = (s1, b)) (hA : PairAll P s) (hsy : s.udb = s.udisk)
    (h1 : P (s.db.closeSide mb side mood) s.udb) (h2 : P (s.db.closeSide mb side mood) s1.udb)
    (h3 : P s1.db s1.udb) : PairAll P s1 := by
  unfold mailboxClose at h
  split at h
  · simp only [Prod.mk.injEq] at h
    obtain ⟨rfl, rfl⟩ := h
    exact hA
  · split at h
    · simp only [Prod.mk.injEq] at h
      obtain ⟨rfl, rfl⟩ := h
      exact hA
    · have hc : PairAll P ((s.modDb (·.closeSide mb side mood)).commit) :=
        PairAll.commit (s := s.modDb (·.closeSide mb side mood)) hA (by show P _ s.udisk; rw [← hsy]; exact h1)
      dsimp only at h
      split at h
      · simp only [Prod.mk.injEq] at h
        obtain ⟨rfl, rfl⟩ := h
        exact hc
      · cases hu : s.cfg.usage with
        | false =>
          simp only [commit_cfg, modDb_cfg, hu, Bool.false_eq_true, if_false, Bool.not_true] at h
          simp only [Prod.mk.injEq] at h
          obtain ⟨rfl, rfl⟩ := h
          simp only [stopListeners_db, commit_db, stopListeners_udb, commit_udb, modDb_udb, modDb_db] at h2 h3
          refine PairAll.stopListeners (PairAll.commit (hc.modDb _) ?_) _ _
          simp only [modDb_db, commit_db, modDb_udisk, commit_udisk]
          rw [← hsy]; exact h3
        | true =>
          simp only [commit_cfg, modDb_cfg, hu, if_true] at h
          cases hE : ((s.modDb (·.closeSide mb side mood)).commit).storeNameplatesOfMailbox app t
              (((s.modDb (·.closeSide mb side mood)).commit).db.nameplatesOfMailbox app mb) with
          | mk s2 ok =>
            obtain ⟨f1, f2, f3, f4, f5⟩ := storeNameplatesOfMailbox_frame _ hE
            have h2' : PairAll P s2 := hc.of_eq f1 f2 f3
            rw [hE] at h
            dsimp only at h
            cases ok with
            | false =>
              simp only [Bool.not_false, if_true, Prod.mk.injEq] at h
              obtain ⟨rfl, rfl⟩ := h
              exact h2'
            | true =>
              have hu2 : s2.cfg.usage = true := by rw [f5]; simpa using hu
              simp only [Bool.not_true, Bool.false_eq_true, if_false, hu2, if_true, Prod.mk.injEq] at h
              obtain ⟨rfl, rfl⟩ := h
              simp only [stopListeners_db, commit_db, stopListeners_udb, commit_udb, ucommit_udb, ucommit_db] at h2 h3
              refine PairAll.stopListeners (PairAll.commit (PairAll.ucommit ((h2'.modDb _).storeMailboxUsage _ _ _ _ _) ?_) ?_) _ _
              · have : ∀ f a b c, ((s2.modDb f).storeMailboxUsage app a b c false).disk = s.db.closeSide mb side mood := by
                  intro f a b c
                  show s2.disk = _; rw [f1]; simp
                rw [this]
                simp only [commit_db]
                exact h2
              · simp only [ucommit_db, ucommit_udisk, commit_db]
                exact h3

theorem addMailbox_frame {s s1 : Sys} {app mb forNp t} (h : s.addMailbox app mb forNp t = some s1) :
    s1.disk = s.disk ∧ s1.udisk = s.udisk ∧ s1.snaps = s.snaps := by
  unfold addMailbox at h
  split at h
  · cases h; exact ⟨rfl, rfl, rfl⟩
  · split at h
    · cases h
    · cases h; exact ⟨rfl, rfl, rfl⟩

theorem mailboxOpen_udisk' (s : Sys) (mb side : String) (t : Time) : (s.mailboxOpen mb side t).udisk = s.udisk := by
  unfold mailboxOpen; split <;> simp

theorem mailboxOpen_pairAll {P} (s : Sys) (mb side : String) (t : Time) (hA : PairAll P s)
    (hp : P (s.mailboxOpen mb side t).db s.udisk) : PairAll P (s.mailboxOpen mb side t) := by
  unfold mailboxOpen at hp ⊢
  split at hp <;> simp only [commit_db] at hp
  · exact PairAll.commit ((hA.modDb _).modDb _) hp
  · exact PairAll.commit (hA.modDb _) hp

/-- `open_mailbox` commits the channel database only: every new commit point pairs the final channel
    database with the usage database on disk before -/
theorem openMailbox_pairAll {P} {s s1 : Sys} {app mb side t r} (h : s.openMailbox app mb side t = (s1, r))
    (hA : PairAll P s) (hp : P s1.db s.udisk) : PairAll P s1 := by
  unfold openMailbox at h
  split at h
  · simp only [Prod.mk.injEq] at h
    obtain ⟨rfl, rfl⟩ := h
    exact hA
  · rename_i s0 e
    obtain ⟨f1, f2, f3⟩ := addMailbox_frame e
    have h0 : PairAll P s0 := hA.of_eq f1 f2 f3
    dsimp only at h
    split at h <;>
    · simp only [Prod.mk.injEq] at h
      obtain ⟨rfl, rfl⟩ := h
      rw [commit_db] at hp
      refine PairAll.commit (mailboxOpen_pairAll _ _ _ _ h0 (by rw [f2]; exact hp)) ?_
      rw [mailboxOpen_udisk', f2]; exact hp


/-- **the commit points of an accepted `close` acting on mailbox `m`, as pairs**: the state before;
    after the implicit `open_mailbox` (`closePre`) with the usage database of before; after the UPDATE that
    closes the side's row, usage as before; THE SAME CHANNEL STATE WITH THE FINAL USAGE DATABASE (the usage
    commit precedes the channel commit); the final pair -/
theorem close_pair_points {s : Sys} (hP : s.db.PInv) (hS : s.Synced) {c : Nat} {x : Conn}
    (hx : s.findConn c = some x) {mo mood : Option String}
    (hr : rejectText x (.close mo mood) = none) {a : String} (happ : x.app = some a) {m : String}
    (htg : x.closeTarget mo = some m) (t : Time) (id : Val) {P : Chan → Usage → Prop} (h0 : P s.db s.udb)
    (h1 : P (closePre s x a m t) s.udb) (h2 : P ((closePre s x a m t).closeSide m (x.side.getD "") mood) s.udb)
    (h3 : P ((closePre s x a m t).closeSide m (x.side.getD "") mood) (s.step (.recv c t id (.close mo mood))).udb)
    (h4 : P (s.step (.recv c t id (.close mo mood))).db (s.step (.recv c t id (.close mo mood))).udb) :
    PairAll P (({ s with out := [], snaps := [] } : Sys).stepPlain (.recv c t id (.close mo mood))) := by
  obtain ⟨_, _, ⟨mb, hn⟩, _⟩ := close_accepted hr
  have hstep := step_close_eq (s := s) (t := t) (id := id) hx hr happ hn
  have hpl : ({ s with out := [], snaps := [] } : Sys).stepPlain (.recv c t id (.close mo mood)) =
      s.step (.recv c t id (.close mo mood)) := rfl
  rw [hpl, hstep]
  rw [hstep] at h3 h4
  generalize hA : (({ s with out := [], snaps := [] } : Sys).send c (.ack id)) = sA at h3 h4 ⊢
  have hAdb : sA.db = s.db := by rw [← hA]; rfl
  have hAdisk : sA.disk = s.disk := by rw [← hA]; rfl
  have hAudb : sA.udb = s.udb := by rw [← hA]; rfl
  have hAudisk : sA.udisk = s.udisk := by rw [← hA]; rfl
  have hAsnaps : sA.snaps = [] := by rw [← hA]; rfl
  have hA0 : PairAll P sA :=
    ⟨by rw [hAdisk, hAudisk, ← hS.1, ← hS.2]; exact h0, by rw [hAsnaps]; simp⟩
  cases hh : x.mailbox with
  | some h =>
    have htgt : m = h := by simp [Conn.closeTarget, hh] at htg; exact htg.symm
    subst htgt
    have hpre : closePre s x a m t = s.db := by simp [closePre, hh]
    rw [hpre] at h2 h3
    simp only [closeGo, hh] at h3 h4 ⊢
    cases e : (sA.updConn x.id (fun y => { y with listening := false, didClose := true })).mailboxClose
        a m (x.side.getD "") mood t with
    | mk s3 b =>
      rw [e] at h3 h4
      have h3' : P (s.db.closeSide m (x.side.getD "") mood) s3.udb := by cases b <;> exact h3
      have h4' : P s3.db s3.udb := by cases b <;> exact h4
      have hd := mailboxClose_pairAll e (P := P) (hA0.updConn _ _)
        (by show sA.udb = sA.udisk; rw [hAudb, hAudisk]; exact hS.2)
        (by show P (sA.db.closeSide _ _ _) sA.udb; rw [hAdb, hAudb]; exact h2)
        (by show P (sA.db.closeSide _ _ _) s3.udb; rw [hAdb]; exact h3') h4'
      cases b
      · exact hd.internalErr _ _
      · exact (hd.updConn _ _).send _ _
  | none =>
    have htgt : mb = m := by
      simp only [Conn.closeTarget, hh] at htg
      rw [hn] at htg; cases htg; rfl
    subst htgt
    have hpre : closePre s x a mb t = s.db.openDb a mb (x.side.getD "") t := by simp [closePre, hh]
    rw [hpre] at h1 h2 h3
    cases e : sA.openMailbox a mb (x.side.getD "") t with
    | mk s1 r =>
      obtain ⟨_, hsame, hne, _⟩ := openMailbox_exact (by rw [hAdb]; exact hP) e
      rw [hAdb] at hne
      have h1' : PairAll P s1 := by
        by_cases hri : r = .integrity
        · rw [hsame hri]; exact hA0
        · exact openMailbox_pairAll e hA0 (by rw [(hne hri).1, hAudisk, ← hS.2]; exact h1)
      simp only [closeGo, hh, e] at h3 h4 ⊢
      cases r with
      | integrity => exact (h1'.updConn _ _).internalErr _ _
      | crowded => exact (h1'.updConn _ _).sendError _ _
      | ok =>
        simp only [if_true] at h3 h4 ⊢
        obtain ⟨hdb1, _, hrest⟩ := hne (by simp)
        cases e2 : ((s1.updConn x.id (fun y => { y with mailbox := some mb })).updConn x.id
            (fun y => { y with listening := false, didClose := true })).mailboxClose a mb (x.side.getD "") mood t with
        | mk s3 b =>
          rw [e2] at h3 h4
          have h3' : P ((s.db.openDb a mb (x.side.getD "") t).closeSide mb (x.side.getD "") mood) s3.udb := by
            cases b <;> exact h3
          have h4' : P s3.db s3.udb := by cases b <;> exact h4
          have hd := mailboxClose_pairAll e2 (P := P) ((h1'.updConn _ _).updConn _ _)
            (by show s1.udb = s1.udisk; rw [hrest.udb, hrest.udisk, hAudb, hAudisk]; exact hS.2)
            (by show P (s1.db.closeSide _ _ _) s1.udb; rw [hdb1, hrest.udb, hAudb]; exact h2)
            (by show P (s1.db.closeSide _ _ _) s3.udb; rw [hdb1]; exact h3') h4'
          cases b
          · exact hd.internalErr _ _
          · exact (hd.updConn _ _).send _ _

end Sys


/-! ### the usage rows of a deleting `close`, as functions of the channel database it works on -/

/-- the usage `nameplates` rows a deleting `close` of `(a, m)` writes: one per nameplate pointing at it -/
def Chan.closeRecsNp (pre : Chan) (blur : Time → Time) (a m : String) (t : Time) : List UNameplate :=
  (pre.nameplatesOfMailbox a m).map (fun np => npRecord blur a ((pre.npSidesOf np.id).map (·.added)) t false)

/-- the usage `mailboxes` row a deleting `close` of `(a, m)` by side `σ` writes -/
def Chan.closeRecsMb (pre : Chan) (blur : Time → Time) (a m σ : String) (mood : Option String) (t : Time) :
    List UMailbox :=
  match pre.findMailbox a m with
  | some row => [mbRecord blur a row.forNp ((pre.closeSide m σ mood).mbSidesOf m) t false]
  | none => []

/-- **the surplus row of a re-sent `close` of a mailbox that is gone**: `for_nameplate = 0`, one side
    (the closing one, added at `t`, with the submitted mood), retired at `t` -/
def goneRecord (blur : Time → Time) (a m σ : String) (mood : Option String) (t : Time) : UMailbox :=
  mbRecord blur a false [⟨m, false, σ, t, mood⟩] t false

namespace Chan

theorem closeRecsMb_length (pre : Chan) (blur : Time → Time) (a m σ : String) (mood : Option String) (t : Time) :
    (pre.closeRecsMb blur a m σ mood t).length ≤ 1 := by
  unfold closeRecsMb; split <;> simp

theorem findMailbox_touch (d : Chan) (m' : String) (t' : Time) (a m : String) :
    (d.touch m' t').findMailbox a m =
      (d.findMailbox a m).map (fun r => if r.id = m' then { r with updated := t' } else r) := by
  unfold findMailbox touch
  apply dup_find?_map
  intro x
  split <;> rfl

theorem closeRecsNp_touch (d : Chan) (m' : String) (t' : Time) (blur : Time → Time) (a m : String) (t : Time) :
    (d.touch m' t').closeRecsNp blur a m t = d.closeRecsNp blur a m t := rfl

theorem closeRecsMb_touch (d : Chan) (m' : String) (t' : Time) (blur : Time → Time) (a m σ : String)
    (mood : Option String) (t : Time) :
    (d.touch m' t').closeRecsMb blur a m σ mood t = d.closeRecsMb blur a m σ mood t := by
  unfold closeRecsMb
  rw [findMailbox_touch]
  cases d.findMailbox a m with
  | none => rfl
  | some row =>
    simp only [Option.map_some]
    have : (if row.id = m' then { row with updated := t' } else row).forNp = row.forNp := by split <;> rfl
    rw [this]
    rfl

theorem otherOpen_touch (d : Chan) (m' : String) (t' : Time) (m σ : String) :
    (d.touch m' t').OtherOpen m σ ↔ d.OtherOpen m σ := Iff.rfl

theorem closeRecsNp_closeSide (d : Chan) (m' σ' : String) (mood' : Option String) (blur : Time → Time)
    (a m : String) (t : Time) :
    (d.closeSide m' σ' mood').closeRecsNp blur a m t = d.closeRecsNp blur a m t := rfl

theorem closeRecsMb_closeSide (d : Chan) (blur : Time → Time) (a m σ : String) (mood : Option String) (t : Time) :
    (d.closeSide m σ mood).closeRecsMb blur a m σ mood t = d.closeRecsMb blur a m σ mood t := by
  unfold closeRecsMb
  rw [closeSide_eq_self (closeSide_closed d m σ mood)]
  rfl

theorem closeRecsNp_openDb (d : Chan) (a' m' σ' : String) (t' : Time) (blur : Time → Time) (a m : String)
    (t : Time) :
    (d.openDb a' m' σ' t').closeRecsNp blur a m t = d.closeRecsNp blur a m t := rfl

/-- re-opening the mailbox a deleting `close` removed, and closing it again: no nameplate record ... -/
theorem closeRecsNp_gone (d : Chan) (blur : Time → Time) (a m σ : String) (t' t : Time) :
    ((d.dropMailbox a m).openDb a m σ t').closeRecsNp blur a m t = [] := by
  rw [closeRecsNp_openDb]
  unfold closeRecsNp nameplatesOfMailbox
  have : (d.dropMailbox a m).nameplates.filter (fun r => r.app = a ∧ r.mailbox = m) = [] := by
    rw [List.filter_eq_nil_iff]
    intro n hn
    have := ((mem_dropMailbox_nameplates d a m).1 hn).2
    simpa using this
  rw [this]; rfl

/-- ... and exactly the `goneRecord` -/
theorem closeRecsMb_gone {d : Chan} (hids : d.mailboxes.Pairwise (fun a b => ¬ a.id = b.id)) {a m : String}
    (hb : d.HasBox a m) (blur : Time → Time) (σ : String) (mood : Option String) (t : Time) :
    ((d.dropMailbox a m).openDb a m σ t).closeRecsMb blur a m σ mood t = [goneRecord blur a m σ mood t] := by
  have hnone : (d.dropMailbox a m).findMailbox a m = none := by
    rw [findMailbox_eq_none]
    rintro ⟨r, hr, _, hid⟩
    exact dropMailbox_noId hids hb r hr hid
  have hsnone : (d.dropMailbox a m).findMbSide m σ = none := by
    rw [findMbSide_eq_none]
    intro r hr hk
    exact ((mem_dropMailbox_mbSides d a m).1 hr).2 hk.1
  have hfind : ((d.dropMailbox a m).openDb a m σ t).findMailbox a m = some ⟨a, m, t, false⟩ := by
    unfold openDb
    simp only [hnone]
    unfold findMailbox at hnone ⊢
    exact Sys.find?_append_of_none hnone _ (by simp)
  unfold closeRecsMb
  rw [hfind]
  dsimp only
  have hsides : (((d.dropMailbox a m).openDb a m σ t).closeSide m σ mood).mbSidesOf m = [⟨m, false, σ, t, mood⟩] := by
    have h1 : ((d.dropMailbox a m).openDb a m σ t).mbSides = (d.dropMailbox a m).mbSides ++ [⟨m, true, σ, t, none⟩] := by
      unfold openDb; simp only [hsnone]
    have h2 : (d.dropMailbox a m).mbSides.filter (fun r => r.mailbox = m) = [] := dropMailbox_mbSidesOf_self d a m
    unfold mbSidesOf closeSide
    simp only [h1, List.map_append, List.filter_append, List.map_cons, List.map_nil]
    have h3 : ((d.dropMailbox a m).mbSides.map
        (fun r => if r.mailbox = m ∧ r.side = σ then { r with opened := false, mood := mood } else r)).filter
        (fun r => r.mailbox = m) = [] := by
      rw [List.filter_eq_nil_iff]
      intro r hr
      obtain ⟨r0, hr0, rfl⟩ := List.mem_map.1 hr
      have hne : ¬ r0.mailbox = m := ((mem_dropMailbox_mbSides d a m).1 hr0).2
      split <;> simpa using hne
    rw [h3]
    simp
  rw [hsides]
  rfl

end Chan
namespace Sys

/-- the usage database after an accepted `close` of `(a, m)` by side `σ`, `pre` being the channel database
    after the implicit `open_mailbox` -/
def closeUdb (s : Sys) (pre : Chan) (a m σ : String) (mood : Option String) (t : Time) : Usage :=
  if s.cfg.usage = true ∧ ¬ pre.OtherOpen m σ then
    { s.udb with
      nameplates := s.udb.nameplates ++ pre.closeRecsNp s.blurTime a m t
      mailboxes := s.udb.mailboxes ++ pre.closeRecsMb s.blurTime a m σ mood t }
  else s.udb

/-- **an accepted `close`, neither `IntegrityError` nor `crowded`: the usage database afterwards** -/
theorem close_step_udb_all {s : Sys} (hP : s.db.PInv) (hN : s.db.NpHasSide) (hS : s.Synced)
    {c : Nat} {x : Conn} (hx : s.findConn c = some x) {mo mood : Option String}
    (hr : rejectText x (.close mo mood) = none) {a : String} (happ : x.app = some a)
    {m : String} (htg : x.closeTarget mo = some m) (t : Time) (id : Val)
    (hnot : ¬ (x.mailbox = none ∧ (s.db.Clash a m ∨ ((closePre s x a m t).mbSidesOf m).length > 2)))
    (hb : (closePre s x a m t).HasBox a m) (hs : (closePre s x a m t).findMbSide m (x.side.getD "") ≠ none) :
    (s.step (.recv c t id (.close mo mood))).udb = s.closeUdb (closePre s x a m t) a m (x.side.getD "") mood t := by
  unfold closeUdb
  cases hu : s.cfg.usage with
  | false =>
    rw [(C15_no_usage_db_no_writes hS.2 hu _).1]
    simp
  | true =>
    by_cases ho : (closePre s x a m t).OtherOpen m (x.side.getD "")
    · obtain ⟨_, _, h3⟩ := close_step hP hN hS hx hr happ htg t id
      obtain ⟨_, _, _, _, _, hsurv, _⟩ := h3 hnot
      rw [(hsurv (fun h => h.2.2 ho)).2]
      simp [ho]
    · obtain ⟨row, hrow⟩ := Option.isSome_iff_exists.1 (Chan.findMailbox_isSome.2 hb)
      obtain ⟨r0, hr0⟩ := Option.ne_none_iff_exists'.1 hs
      have hany : (((closePre s x a m t).closeSide m (x.side.getD "") mood).mbSidesOf m).any (·.opened) = false := by
        have := (not_congr (Chan.closeSide_any_opened (closePre s x a m t) m (x.side.getD "") mood)).2 ho
        simpa using this
      rw [close_step_udb hP hN hu hx hr happ htg t id hnot hrow hr0 hany]
      rw [if_pos ⟨rfl, ho⟩]
      unfold Chan.closeRecsNp Chan.closeRecsMb
      rw [hrow]

end Sys

namespace Chan

/-- the re-run `close` (implicit `open_mailbox` first) from `D` sees the same "other side open" test and
    computes the same usage rows as the `close` that worked on `pre` -/
def SameRecs (pre pre' : Chan) (a m σ : String) (mood : Option String) : Prop :=
  (pre'.OtherOpen m σ ↔ pre.OtherOpen m σ) ∧
  ∀ (blur : Time → Time) (t : Time), pre'.closeRecsNp blur a m t = pre.closeRecsNp blur a m t ∧
    pre'.closeRecsMb blur a m σ mood t = pre.closeRecsMb blur a m σ mood t

theorem sameRecs_points {pre : Chan} (hids : pre.mailboxes.Pairwise (fun a b => ¬ a.id = b.id)) {a m σ : String}
    (mood : Option String) (t : Time) (hb : pre.HasBox a m) (hs : pre.findMbSide m σ ≠ none) :
    SameRecs pre (pre.openDb a m σ t) a m σ mood ∧
    SameRecs pre ((pre.closeSide m σ mood).openDb a m σ t) a m σ mood := by
  have hb' : (pre.closeSide m σ mood).HasBox a m := hb
  have hs' : (pre.closeSide m σ mood).findMbSide m σ ≠ none := closeSide_findMbSide_ne_none.2 hs
  constructor
  · rw [openDb_eq_touch hids hb hs]
    exact ⟨otherOpen_touch _ _ _ _ _, fun blur t' => ⟨closeRecsNp_touch _ _ _ _ _ _ _, closeRecsMb_touch _ _ _ _ _ _ _ _ _⟩⟩
  · rw [openDb_eq_touch (d := pre.closeSide m σ mood) hids hb' hs']
    refine ⟨(otherOpen_touch _ _ _ _ _).trans closeSide_otherOpen, fun blur t' => ⟨?_, ?_⟩⟩
    · rw [closeRecsNp_touch, closeRecsNp_closeSide]
    · rw [closeRecsMb_touch, closeRecsMb_closeSide]

end Chan

/-- an answered command was not rejected -/
theorem not_rejected_of_closed' {s : Sys} {c : Nat} {x : Conn} (hx : s.findConn c = some x) {mo mood : Option String}
    (t : Time) (id : Val) {b : Bool}
    (hans : Event.frame c .closed b ∈ (s.step (.recv c t id (.close mo mood))).out) :
    rejectText x (.close mo mood) = none := by
  cases hr : rejectText x (.close mo mood) with
  | none => rfl
  | some text => rcases rejected_out t id hx hr _ hans with ⟨_, e⟩ | ⟨_, e⟩ <;> cases e

/-- **C10 (re-sent `close`), both databases, every crash point** — partial for the channel database for
    exactly the two known findings, as in C10b (K-crowded-rejoin: `hguard`; K-close-touch: equal up to
    `touch m t`, EQUAL when the mailbox was deleted), and for the usage database for K-usage-crash-dup:
    `recsN`, `recsM` are the usage rows the uncrashed step wrote (none unless it deleted the mailbox and a
    usage database exists; at most one `mailboxes` row); the re-sent run ends with
      (i)   the usage tables of the uncrashed run, or
      (ii)  those tables FOLLOWED BY `recsN` / `recsM` ONCE MORE -- only if the crash state holds the usage
            database of the uncrashed run but not its channel database (crash between the two commits), or
      (iii) the `nameplates` table of the uncrashed run and its `mailboxes` table followed by ONE row
            `goneRecord` -- only if the crash state is the final state of the deleting close (the re-sent
            close re-creates the mailbox, deletes it and records it).
    `close` with or without the mailbox name (`htg`: it acts on `m`); pre-state reachable WITH crashes;
    ANY `k`. -/
theorem C10_resend_close_all_partial {g : GSys} (hg : g.Reach) {c : Nat} {x : Conn} {a σ : String}
    (hx : g.sys.findConn c = some x) (happ : x.app = some a) (hside : x.side = some σ)
    {mo : Option String} {m : String} {mood : Option String} (t : Time) (id : Val)
    (hw : g.WFOp (.recv c t id (.close mo mood)))
    (htg : x.closeTarget mo = some m) {b : Bool}
    (hans : Event.frame c .closed b ∈ (g.sys.step (.recv c t id (.close mo mood))).out)
    (hguard : x.mailbox ≠ none → (g.sys.db.mbSidesOf m).length ≤ 2)
    (k : Nat) (c' : Nat) (id₁ : Val) (impl ver : Option String) :
    (g.sys.step (.recv c t id (.close mo mood))).frames = [.frame c (.ack id) true, .frame c .closed true] ∧
    (resend (g.sys.step (.crashIn k (.recv c t id (.close mo mood)))) c' t id₁ id a σ impl ver
      (.close (some m) mood)).frames = [.frame c' (.ack id) true, .frame c' .closed true] ∧
    ((resend (g.sys.step (.crashIn k (.recv c t id (.close mo mood)))) c' t id₁ id a σ impl ver
        (.close (some m) mood)).db = (g.sys.step (.recv c t id (.close mo mood))).db ∨
      (resend (g.sys.step (.crashIn k (.recv c t id (.close mo mood)))) c' t id₁ id a σ impl ver
        (.close (some m) mood)).db = (g.sys.step (.recv c t id (.close mo mood))).db.touch m t) ∧
    (¬ (g.sys.step (.recv c t id (.close mo mood))).db.HasId m →
      (resend (g.sys.step (.crashIn k (.recv c t id (.close mo mood)))) c' t id₁ id a σ impl ver
        (.close (some m) mood)).db = (g.sys.step (.recv c t id (.close mo mood))).db) ∧
    ∃ (recsN : List UNameplate) (recsM : List UMailbox),
      (g.sys.step (.recv c t id (.close mo mood))).udb.nameplates = g.sys.udb.nameplates ++ recsN ∧
      (g.sys.step (.recv c t id (.close mo mood))).udb.mailboxes = g.sys.udb.mailboxes ++ recsM ∧
      recsM.length ≤ 1 ∧
      (g.sys.cfg.usage = false → recsN = [] ∧ recsM = []) ∧
      ((g.sys.step (.recv c t id (.close mo mood))).db.HasId m → recsN = [] ∧ recsM = []) ∧
      (((resend (g.sys.step (.crashIn k (.recv c t id (.close mo mood)))) c' t id₁ id a σ impl ver
            (.close (some m) mood)).udb.nameplates = (g.sys.step (.recv c t id (.close mo mood))).udb.nameplates ∧
          (resend (g.sys.step (.crashIn k (.recv c t id (.close mo mood)))) c' t id₁ id a σ impl ver
            (.close (some m) mood)).udb.mailboxes = (g.sys.step (.recv c t id (.close mo mood))).udb.mailboxes) ∨
        ((resend (g.sys.step (.crashIn k (.recv c t id (.close mo mood)))) c' t id₁ id a σ impl ver
            (.close (some m) mood)).udb.nameplates =
              (g.sys.step (.recv c t id (.close mo mood))).udb.nameplates ++ recsN ∧
          (resend (g.sys.step (.crashIn k (.recv c t id (.close mo mood)))) c' t id₁ id a σ impl ver
            (.close (some m) mood)).udb.mailboxes =
              (g.sys.step (.recv c t id (.close mo mood))).udb.mailboxes ++ recsM ∧
          (g.sys.step (.crashIn k (.recv c t id (.close mo mood)))).udb =
            (g.sys.step (.recv c t id (.close mo mood))).udb ∧
          (g.sys.step (.crashIn k (.recv c t id (.close mo mood)))).db ≠
            (g.sys.step (.recv c t id (.close mo mood))).db) ∨
        ((resend (g.sys.step (.crashIn k (.recv c t id (.close mo mood)))) c' t id₁ id a σ impl ver
            (.close (some m) mood)).udb.nameplates = (g.sys.step (.recv c t id (.close mo mood))).udb.nameplates ∧
          (resend (g.sys.step (.crashIn k (.recv c t id (.close mo mood)))) c' t id₁ id a σ impl ver
            (.close (some m) mood)).udb.mailboxes =
              (g.sys.step (.recv c t id (.close mo mood))).udb.mailboxes ++
                [goneRecord g.sys.blurTime a m σ mood t] ∧
          (g.sys.step (.crashIn k (.recv c t id (.close mo mood)))).db =
            (g.sys.step (.recv c t id (.close mo mood))).db ∧
          ¬ (g.sys.step (.recv c t id (.close mo mood))).db.HasId m ∧ g.sys.cfg.usage = true)) := by
  have hI := hg.ginv
  have hP := hI.cinv.toPInv
  have hN := hI.cinv.npHasSide
  have hH : g.sys.HandleRow := C05.handleRow_reach (fun _ h => h.ginv) hg
  have hIk : (g.step (.crashIn k (.recv c t id (.close mo mood)))).GInv := hI.step _ (hw.crashIn rfl k)
  have hr := not_rejected_of_closed' hx t id hans
  obtain ⟨h1, h2, h3⟩ := close_step hP hN hI.synced hx hr happ htg t id
  rw [getD_of_side hside] at h3
  -- the answer `closed` excludes IntegrityError and `crowded`
  have hnot : ¬ (x.mailbox = none ∧ (g.sys.db.Clash a m ∨ ((closePre g.sys x a m t).mbSidesOf m).length > 2)) := by
    rintro ⟨hm, hcl | hcr⟩
    · rw [(h1 hm hcl).1] at hans
      simp at hans
    · by_cases hcl : g.sys.db.Clash a m
      · rw [(h1 hm hcl).1] at hans; simp at hans
      · obtain ⟨⟨cm, hcm, ho⟩, _⟩ := h2 hm hcl hcr
        rw [ho] at hans
        simp only [List.mem_cons, List.mem_append, List.not_mem_nil, or_false] at hans
        rcases hans with h | h | h
        · cases h
        · obtain ⟨w, hw'⟩ := hcm _ h; cases hw'
        · cases h
  obtain ⟨⟨commits, hc, hout⟩, hdb, _, _, _, _, _⟩ := h3 hnot
  have hxmem := findConn_mem hx
  have hudbO := close_step_udb_all hP hN hI.synced hx hr happ htg t id hnot
  rw [getD_of_side hside] at hudbO
  have hcpp := fun (P : Chan → Usage → Prop) => close_pair_points hP hI.synced hx hr happ htg t id (P := P)
  simp only [getD_of_side hside] at hcpp
  generalize hpre : closePre g.sys x a m t = pre at hnot hdb hudbO hcpp
  -- the database at the entry of `Mailbox.close`
  have hpre' : pre = (if x.mailbox = none then g.sys.db.openDb a m σ t else g.sys.db) := by
    rw [← hpre]; unfold closePre; rw [getD_of_side hside]
  have hncl : ¬ (x.mailbox = none ∧ g.sys.db.Clash a m) := fun h => hnot ⟨h.1, Or.inl h.2⟩
  have hpreP : pre.PInv := by
    rw [hpre']
    split
    · rename_i hm; exact hP.openDb _ _ (fun hcl => hncl ⟨hm, hcl⟩)
    · exact hP
  have hb : pre.HasBox a m := by
    rw [hpre']
    cases hh : x.mailbox with
    | none => simp only [if_true]; exact Chan.openDb_hasBox _ _ _ _ _
    | some h =>
      have : m = h := by simp [Conn.closeTarget, hh] at htg; exact htg.symm
      subst this
      simp only [reduceCtorEq, if_false]
      obtain ⟨_, a', ha', row, hrow, hid, hra⟩ := hI.conn.handle x hxmem m hh
      rw [happ] at ha'; cases ha'
      exact ⟨row, hrow, hra, hid⟩
  have hs : pre.findMbSide m σ ≠ none := by
    rw [hpre']
    cases hh : x.mailbox with
    | none => simp only [if_true]; exact Chan.openDb_findMbSide_ne_none _ _ _ _ _
    | some h =>
      have : m = h := by simp [Conn.closeTarget, hh] at htg; exact htg.symm
      subst this
      simp only [reduceCtorEq, if_false]
      obtain ⟨r, hr', hm', hs'⟩ := hH x hxmem m hh
      rw [getD_of_side hside] at hs'
      intro hnone
      exact (Chan.findMbSide_eq_none.1 hnone) r hr' ⟨hm', hs'⟩
  have hlen : (pre.mbSidesOf m).length ≤ 2 := by
    cases hh : x.mailbox with
    | none =>
      have : ¬ (pre.mbSidesOf m).length > 2 := fun h => hnot ⟨hh, Or.inr h⟩
      omega
    | some h =>
      rw [hpre', hh]; simp only [reduceCtorEq, if_false]
      exact hguard (by rw [hh]; simp)
  have hudbO' := hudbO hb hs
  refine ⟨frames_of_answer hc (by rfl) hout, ?_⟩
  -- commit points, as pairs
  have hcrash := crash_pair_of_pairAll g.sys hI.synced k (.recv c t id (.close mo mood))
    (P := fun d u => (d = g.sys.db ∧ u = g.sys.udb) ∨ (d = pre ∧ u = g.sys.udb) ∨
      (d = pre.closeSide m σ mood ∧ u = g.sys.udb) ∨
      (d = pre.closeSide m σ mood ∧ u = g.sys.closeUdb pre a m σ mood t) ∨
      (d = pre.closeDb a m σ mood ∧ u = g.sys.closeUdb pre a m σ mood t))
    (Or.inl ⟨rfl, rfl⟩)
    (hcpp _ (Or.inl ⟨rfl, rfl⟩) (Or.inr (Or.inl ⟨rfl, rfl⟩)) (Or.inr (Or.inr (Or.inl ⟨rfl, rfl⟩)))
      (Or.inr (Or.inr (Or.inr (Or.inl ⟨rfl, hudbO'⟩)))) (Or.inr (Or.inr (Or.inr (Or.inr ⟨hdb, hudbO'⟩)))))
  have hkcfg : (g.sys.step (.crashIn k (.recv c t id (.close mo mood)))).cfg = g.sys.cfg := crash_cfg _ _ _
  rw [hdb, hudbO']
  generalize hsk : g.sys.step (.crashIn k (.recv c t id (.close mo mood))) = sk at hcrash hkcfg ⊢
  have hSk : sk.Synced := by rw [← hsk]; exact hIk.synced
  have hPk : sk.db.PInv := by rw [← hsk]; exact hIk.cinv.toPInv
  have hNk : sk.db.NpHasSide := by rw [← hsk]; exact hIk.cinv.npHasSide
  obtain ⟨hRdb, hRsy, hRconns, hRcfg, hR⟩ := resend_ready hSk c' t id₁ a σ impl ver
  obtain ⟨hbn, hbm⟩ := resend_bound_udb hSk c' t id₁ a σ impl ver
  have hf : ∀ y ∈ (sk.step (.restart t)).conns, y.id ≠ c' := by rw [hRconns]; simp
  have hxb := hR.findConn hf
  have hSb := hR.synced hRsy
  generalize hsb : ((sk.step (.restart t)).step (.connect c')).step
      (.recv c' t id₁ (.bind (some a) (some σ) impl ver)) = sb at hR hbn hbm hxb hSb
  have hbcfg : sb.cfg = g.sys.cfg := by rw [hR.cfg, hRcfg, hkcfg]
  have hPb : sb.db.PInv := by rw [hR.db, hRdb]; exact hPk
  have hNb : sb.db.NpHasSide := by rw [hR.db, hRdb]; exact hNk
  obtain ⟨_, _, k3⟩ := close_step hPb hNb hSb hxb
    (dupConn_close_valid c' a σ m mood) (app := a) rfl (dupConn_closeTarget c' a σ m) t id
  have hudbR := close_step_udb_all hPb hNb hSb hxb (dupConn_close_valid c' a σ m mood) (a := a) rfl
    (dupConn_closeTarget c' a σ m) t id
  rw [dupConn_closePre, hR.db, hRdb] at k3 hudbR
  have hside' : (dupConn c' a σ).side.getD "" = σ := rfl
  rw [hside'] at k3 hudbR
  have hresend : resend sk c' t id₁ id a σ impl ver (.close (some m) mood) =
      sb.step (.recv c' t id (.close (some m) mood)) := by unfold resend; rw [hsb]
  rw [hresend]
  have hcrashDb : sk.db = g.sys.db ∨ sk.db = pre ∨ sk.db = pre.closeSide m σ mood ∨ sk.db = pre.closeDb a m σ mood := by
    rcases hcrash with h | h | h | h | h
    · exact Or.inl h.1
    · exact Or.inr (Or.inl h.1)
    · exact Or.inr (Or.inr (Or.inl h.1))
    · exact Or.inr (Or.inr (Or.inl h.1))
    · exact Or.inr (Or.inr (Or.inr h.1))
  -- the three facts the re-send needs at the crash point: no clash, not crowded, where it ends
  have key : ¬ sk.db.Clash a m ∧ ((sk.db.openDb a m σ t).mbSidesOf m).length ≤ 2 ∧
      (sk.db.closeRun a m σ mood t = pre.closeDb a m σ mood ∨
        sk.db.closeRun a m σ mood t = (pre.closeDb a m σ mood).touch m t) := by
    obtain ⟨p1, p2, p3⟩ := Chan.closeRun_points hpreP.mbIds mood t hb hs
    obtain ⟨l1, l2, l3⟩ := Chan.closeRun_sides (a := a) mood t hs
    have hbox_nc : ∀ d : Chan, d.HasBox a m → ¬ d.Clash a m := fun d hbx hcl => hcl.2 hbx
    have fromPre : sk.db = pre → ¬ sk.db.Clash a m ∧ ((sk.db.openDb a m σ t).mbSidesOf m).length ≤ 2 ∧
        (sk.db.closeRun a m σ mood t = pre.closeDb a m σ mood ∨
          sk.db.closeRun a m σ mood t = (pre.closeDb a m σ mood).touch m t) := by
      intro h
      rw [h]
      exact ⟨hbox_nc _ hb, by rw [l1]; exact hlen, Or.inr p1⟩
    rcases hcrashDb with h | h | h | h
    · -- the database before the step
      cases hh : x.mailbox with
      | some hd =>
        apply fromPre
        rw [h, hpre', hh]; simp
      | none =>
        have hpo : pre = g.sys.db.openDb a m σ t := by rw [hpre', hh]; simp
        rw [h]
        refine ⟨fun hcl => hnot ⟨hh, Or.inl hcl⟩, by rw [← hpo]; exact hlen, Or.inl ?_⟩
        unfold Chan.closeRun; rw [← hpo]
    · exact fromPre h
    · rw [h]
      exact ⟨hbox_nc _ hb, by rw [l2]; exact hlen, Or.inr p2⟩
    · rw [h, Chan.closeDb_of_box hb hs] at *
      by_cases ho : pre.OtherOpen m σ
      · rw [if_pos ho] at p3 ⊢
        exact ⟨hbox_nc _ hb, by rw [l2]; exact hlen, Or.inr p3⟩
      · rw [if_neg ho] at p3 ⊢
        refine ⟨?_, by rw [l3]; omega, Or.inr p3⟩
        rintro ⟨⟨row, hrow, hid, _⟩, _⟩
        exact Chan.dropMailbox_noId hpreP.mbIds hb row hrow hid
  obtain ⟨kc, kl, kdb⟩ := key
  have hnotR : ¬ ((dupConn c' a σ).mailbox = none ∧
      (sk.db.Clash a m ∨ ((sk.db.openDb a m σ t).mbSidesOf m).length > 2)) := by
    rintro ⟨_, h | h⟩
    · exact kc h
    · omega
  obtain ⟨⟨commits', hc', hout'⟩, hdb', _⟩ := k3 hnotR
  have hudbR' := hudbR hnotR (Chan.openDb_hasBox _ _ _ _ _) (Chan.openDb_findMbSide_ne_none _ _ _ _ _)
  refine ⟨frames_of_answer hc' (by rfl) hout', ?_, ?_, ?_⟩
  · rw [hdb']
    exact kdb
  · intro hgone
    rw [hdb']
    rcases kdb with h | h
    · exact h
    · exact h.trans (Chan.touch_eq_self_of_noId (fun r hr e => hgone ⟨r, hr, e⟩) t)
  · -- the usage database
    have hbl : sb.blurTime = g.sys.blurTime := blurTime_congr hbcfg
    have hcd := Chan.closeDb_of_box (mood := mood) hb hs
    have hnoId : ¬ pre.OtherOpen m σ → ¬ (pre.closeDb a m σ mood).HasId m := by
      intro ho
      rw [hcd, if_neg ho]
      rintro ⟨r, hr, hid⟩
      exact Chan.dropMailbox_noId hpreP.mbIds hb r hr hid
    refine ⟨if g.sys.cfg.usage = true ∧ ¬ pre.OtherOpen m σ then pre.closeRecsNp g.sys.blurTime a m t else [],
      if g.sys.cfg.usage = true ∧ ¬ pre.OtherOpen m σ then pre.closeRecsMb g.sys.blurTime a m σ mood t else [],
      ?_, ?_, ?_, ?_, ?_, ?_⟩
    · unfold closeUdb; split <;> simp
    · unfold closeUdb; split <;> simp
    · split
      · exact Chan.closeRecsMb_length _ _ _ _ _ _ _
      · simp
    · intro hu; simp [hu]
    · intro hid
      have ho : pre.OtherOpen m σ := Classical.byContradiction (fun ho => hnoId ho hid)
      simp [ho]
    · rw [hudbR']
      -- the usage tables of the re-sent run, from the crash state's
      have hR1 : ∀ pre' : Chan, (sb.closeUdb pre' a m σ mood t).nameplates = sk.udb.nameplates ++
          (if g.sys.cfg.usage = true ∧ ¬ pre'.OtherOpen m σ then pre'.closeRecsNp g.sys.blurTime a m t else []) ∧
          (sb.closeUdb pre' a m σ mood t).mailboxes = sk.udb.mailboxes ++
          (if g.sys.cfg.usage = true ∧ ¬ pre'.OtherOpen m σ then pre'.closeRecsMb g.sys.blurTime a m σ mood t else []) := by
        intro pre'
        unfold closeUdb
        rw [hbcfg, hbl]
        split
        · exact ⟨by show sb.udb.nameplates ++ _ = _; rw [hbn], by show sb.udb.mailboxes ++ _ = _; rw [hbm]⟩
        · exact ⟨by rw [hbn]; simp, by rw [hbm]; simp⟩
      have hO1 : (g.sys.closeUdb pre a m σ mood t).nameplates = g.sys.udb.nameplates ++
          (if g.sys.cfg.usage = true ∧ ¬ pre.OtherOpen m σ then pre.closeRecsNp g.sys.blurTime a m t else []) ∧
          (g.sys.closeUdb pre a m σ mood t).mailboxes = g.sys.udb.mailboxes ++
          (if g.sys.cfg.usage = true ∧ ¬ pre.OtherOpen m σ then pre.closeRecsMb g.sys.blurTime a m σ mood t else []) := by
        unfold closeUdb; split <;> simp
      obtain ⟨hsr1, hsr2⟩ := Chan.sameRecs_points hpreP.mbIds mood t hb hs
      -- with the same records: the crash state's tables followed by the records of the uncrashed step
      have hsame : Chan.SameRecs pre (sk.db.openDb a m σ t) a m σ mood →
          (sb.closeUdb (sk.db.openDb a m σ t) a m σ mood t).nameplates = sk.udb.nameplates ++
            (if g.sys.cfg.usage = true ∧ ¬ pre.OtherOpen m σ then pre.closeRecsNp g.sys.blurTime a m t else []) ∧
          (sb.closeUdb (sk.db.openDb a m σ t) a m σ mood t).mailboxes = sk.udb.mailboxes ++
            (if g.sys.cfg.usage = true ∧ ¬ pre.OtherOpen m σ then pre.closeRecsMb g.sys.blurTime a m σ mood t else []) := by
        intro hs'
        obtain ⟨e1, e2⟩ := hR1 (sk.db.openDb a m σ t)
        rw [e1, e2]
        have hiff : (g.sys.cfg.usage = true ∧ ¬ (sk.db.openDb a m σ t).OtherOpen m σ) ↔
            (g.sys.cfg.usage = true ∧ ¬ pre.OtherOpen m σ) := by rw [hs'.1]
        simp only [hiff, (hs'.2 _ _).1, (hs'.2 _ _).2, and_self]
      have hbefore : sk.db = g.sys.db → Chan.SameRecs pre (sk.db.openDb a m σ t) a m σ mood := by
        intro h
        rw [h]
        cases hh : x.mailbox with
        | some hd =>
          have : pre = g.sys.db := by rw [hpre', hh]; simp
          rw [← this]; exact hsr1
        | none =>
          have : pre = g.sys.db.openDb a m σ t := by rw [hpre', hh]; simp
          rw [← this]
          exact ⟨Iff.rfl, fun _ _ => ⟨rfl, rfl⟩⟩
      rcases hcrash with h | h | h | h | h
      · left
        obtain ⟨e1, e2⟩ := hsame (hbefore h.1)
        rw [e1, e2, h.2, hO1.1, hO1.2]
        exact ⟨rfl, rfl⟩
      · left
        obtain ⟨e1, e2⟩ := hsame (by rw [h.1]; exact hsr1)
        rw [e1, e2, h.2, hO1.1, hO1.2]
        exact ⟨rfl, rfl⟩
      · left
        obtain ⟨e1, e2⟩ := hsame (by rw [h.1]; exact hsr2)
        rw [e1, e2, h.2, hO1.1, hO1.2]
        exact ⟨rfl, rfl⟩
      · obtain ⟨e1, e2⟩ := hsame (by rw [h.1]; exact hsr2)
        by_cases hd : g.sys.cfg.usage = true ∧ ¬ pre.OtherOpen m σ
        · right; left
          refine ⟨by rw [e1, h.2], by rw [e2, h.2], h.2, ?_⟩
          rw [h.1]
          intro heq
          apply hnoId hd.2
          rw [← heq]
          obtain ⟨r, hr, _, hid⟩ := hb
          exact ⟨r, hr, hid⟩
        · left
          rw [e1, e2, h.2, if_neg hd, if_neg hd]
          simp
      · by_cases ho : pre.OtherOpen m σ
        · left
          rw [hcd, if_pos ho] at h
          obtain ⟨e1, e2⟩ := hsame (by rw [h.1]; exact hsr2)
          have hd : ¬ (g.sys.cfg.usage = true ∧ ¬ pre.OtherOpen m σ) := fun hd => hd.2 ho
          rw [e1, e2, h.2, if_neg hd, if_neg hd]
          simp
        · have hk := h
          rw [hcd, if_neg ho] at hk
          obtain ⟨e1, e2⟩ := hR1 (sk.db.openDb a m σ t)
          have hno' : ¬ (sk.db.openDb a m σ t).OtherOpen m σ := by
            rw [Chan.otherOpen_openDb, hk.1]
            exact Chan.dropMailbox_not_otherOpen pre a m σ
          have hrn : (sk.db.openDb a m σ t).closeRecsNp g.sys.blurTime a m t = [] := by
            rw [hk.1]; exact Chan.closeRecsNp_gone _ _ _ _ _ _ _
          have hrm : (sk.db.openDb a m σ t).closeRecsMb g.sys.blurTime a m σ mood t =
              [goneRecord g.sys.blurTime a m σ mood t] := by
            rw [hk.1]; exact Chan.closeRecsMb_gone hpreP.mbIds hb _ _ _ _
          rw [e1, e2, hrn, hrm, h.2]
          cases hu : g.sys.cfg.usage with
          | false => left; simp
          | true =>
            right; right
            simp only [hno', not_false_eq_true, and_self, if_true, List.append_nil, true_and]
            exact ⟨h.1, hnoId ho, trivial⟩


/-! ## 7. The four commands together -/

/-- the guard of K-crowded-rejoin, needed for `close` only: a connection that holds a handle closes a
    mailbox with at most two side rows (`ResendGuard'` of C10c, for a `close` that may omit the name) -/
def ResendGuardT (d : Chan) (x : Conn) : Cmd → Prop
  | .close mo _ => ∀ m, x.closeTarget mo = some m → x.mailbox ≠ none → (d.mbSidesOf m).length ≤ 2
  | _ => True

/-- which crash points are covered: all, except that a `claim` lost before its first commit (`k = 0`) must be
    re-sent with the same generated id -/
def ResendK (k : Nat) : Cmd → Cmd → Prop
  | .claim _ f, .claim _ f' => 1 ≤ k ∨ f' = f
  | _, _ => True

/-- **C10_resend_all_partial.**  For a REACHABLE state (crashes allowed before), a connection bound to
    `(a, σ)`, a well-formed, successfully answered `claim` / `release` / `open` / `close` -- `release` and
    `close` with or without the name (`Resend x cmd cmd'`: the re-send names it) -- and EVERY `k`
    (`ResendK`): crash after the `k`-th commit, restart, reconnect, bind `(a, σ)` and send the command again.
    * the frames the new connection gets are those the original got in the uncrashed step (re-addressed);
    * the channel database equals the one after the uncrashed step -- for `close` under `ResendGuardT`
      (K-crowded-rejoin), up to `touch m t` (K-close-touch);
    * the usage `nameplates` / `mailboxes` tables of the uncrashed run are a PREFIX of those of the re-sent run
      (K-usage-crash-dup: the surplus is exactly described in `C10_resend_release_all`,
      `C10_resend_close_all_partial`; none for `claim` / `open`);
    * without a usage database the usage databases are EQUAL. -/
theorem C10_resend_all_partial {g : GSys} (hg : g.Reach) {c : Nat} {x : Conn} {a σ : String}
    (hx : g.sys.findConn c = some x) (happ : x.app = some a) (hside : x.side = some σ)
    {cmd cmd' : Cmd} (hcmd : Resend x cmd cmd') (t : Time) (id : Val) (hw : g.WFOp (.recv c t id cmd))
    (hans : Answered (g.sys.step (.recv c t id cmd)).out c id cmd) (hguard : ResendGuardT g.sys.db x cmd)
    (k : Nat) (hk : ResendK k cmd cmd') (c' : Nat) (id₁ : Val) (impl ver : Option String) :
    (resend (g.sys.step (.crashIn k (.recv c t id cmd))) c' t id₁ id a σ impl ver cmd').frames =
      (g.sys.step (.recv c t id cmd)).frames.map (Event.toConn c') ∧
    ((resend (g.sys.step (.crashIn k (.recv c t id cmd))) c' t id₁ id a σ impl ver cmd').db =
        (g.sys.step (.recv c t id cmd)).db ∨
      ∃ mo m mood, cmd = .close mo mood ∧ x.closeTarget mo = some m ∧
        (resend (g.sys.step (.crashIn k (.recv c t id cmd))) c' t id₁ id a σ impl ver cmd').db =
          (g.sys.step (.recv c t id cmd)).db.touch m t) ∧
    (g.sys.step (.recv c t id cmd)).udb.nameplates <+:
      (resend (g.sys.step (.crashIn k (.recv c t id cmd))) c' t id₁ id a σ impl ver cmd').udb.nameplates ∧
    (g.sys.step (.recv c t id cmd)).udb.mailboxes <+:
      (resend (g.sys.step (.crashIn k (.recv c t id cmd))) c' t id₁ id a σ impl ver cmd').udb.mailboxes ∧
    (g.sys.cfg.usage = false →
      (resend (g.sys.step (.crashIn k (.recv c t id cmd))) c' t id₁ id a σ impl ver cmd').udb =
        (g.sys.step (.recv c t id cmd)).udb) := by
  have hnou := fun hu => (C10_resend_usage_equal_nousage hg.ginv.synced.2 hu (.recv c t id cmd) k c' t id₁ id a σ
    impl ver cmd').2.2
  cases hcmd with
  | claim n f f' =>
    obtain ⟨m, b, hA⟩ := hans
    obtain ⟨h1, h2, h3, h4, h5, h6⟩ := C10_resend_claim_all hg hx happ hside t id hw hA k c' id₁ impl ver f' hk
    exact ⟨by rw [h1, h2]; rfl, Or.inl h3, by rw [h4, h5]; exact List.prefix_refl _,
      by rw [h4, h6]; exact List.prefix_refl _, hnou⟩
  | release nm n hn =>
    obtain ⟨b, hA⟩ := hans
    obtain ⟨h1, h2, h3, h4, recs, _, _, _, h8⟩ := C10_resend_release_all hg hx happ hside hn t id hw hA k c' id₁ impl ver
    refine ⟨by rw [h1, h2]; rfl, Or.inl h3, ?_, by rw [h4]; exact List.prefix_refl _, hnou⟩
    rcases h8 with h | ⟨h, _⟩
    · rw [h]; exact List.prefix_refl _
    · rw [h]; exact List.prefix_append _ _
  | open_ m =>
    obtain ⟨h1, h2, h3, h4, h5, h6⟩ := C10_resend_open_all hg hx happ hside t id hw hans.2 k c' id₁ impl ver
    refine ⟨?_, Or.inl h3, by rw [h4, h5]; exact List.prefix_refl _, by rw [h4, h6]; exact List.prefix_refl _, hnou⟩
    rw [h1, h2, List.map_cons, replayFrames_toConn]
    rfl
  | close mo m mood htg =>
    obtain ⟨b, hA⟩ := hans
    obtain ⟨h1, h2, h3, _, recsN, recsM, _, _, _, _, _, h9⟩ :=
      C10_resend_close_all_partial hg hx happ hside t id hw htg hA (hguard m htg) k c' id₁ impl ver
    refine ⟨by rw [h1, h2]; rfl, ?_, ?_, ?_, hnou⟩
    · rcases h3 with h | h
      · exact Or.inl h
      · exact Or.inr ⟨mo, m, mood, rfl, htg, h⟩
    · rcases h9 with ⟨h, _⟩ | ⟨h, _⟩ | ⟨h, _⟩
      · rw [h]; exact List.prefix_refl _
      · rw [h]; exact List.prefix_append _ _
      · rw [h]; exact List.prefix_refl _
    · rcases h9 with ⟨_, h⟩ | ⟨_, h, _⟩ | ⟨_, h, _⟩
      · rw [h]; exact List.prefix_refl _
      · rw [h]; exact List.prefix_append _ _
      · rw [h]; exact List.prefix_append _ _

/-- **the positive statement about the usage tables alone** (the minimum the finding leaves true): whatever
    the crash point, the rows of the uncrashed run are a prefix of the rows of the re-sent run -/
theorem C10_resend_usage_prefix_partial {g : GSys} (hg : g.Reach) {c : Nat} {x : Conn} {a σ : String}
    (hx : g.sys.findConn c = some x) (happ : x.app = some a) (hside : x.side = some σ)
    {cmd cmd' : Cmd} (hcmd : Resend x cmd cmd') (t : Time) (id : Val) (hw : g.WFOp (.recv c t id cmd))
    (hans : Answered (g.sys.step (.recv c t id cmd)).out c id cmd) (hguard : ResendGuardT g.sys.db x cmd)
    (k : Nat) (hk : ResendK k cmd cmd') (c' : Nat) (id₁ : Val) (impl ver : Option String) :
    (g.sys.step (.recv c t id cmd)).udb.nameplates <+:
      (resend (g.sys.step (.crashIn k (.recv c t id cmd))) c' t id₁ id a σ impl ver cmd').udb.nameplates ∧
    (g.sys.step (.recv c t id cmd)).udb.mailboxes <+:
      (resend (g.sys.step (.crashIn k (.recv c t id cmd))) c' t id₁ id a σ impl ver cmd').udb.mailboxes :=
  let h := C10_resend_all_partial hg hx happ hside hcmd t id hw hans hguard k hk c' id₁ impl ver
  ⟨h.2.2.1, h.2.2.2.1⟩

/-- **without a usage database: same answers, same stored state, BOTH databases** (channel database up to
    K-close-touch for `close`, under the guard of K-crowded-rejoin) -/
theorem C10_resend_both_nousage {g : GSys} (hg : g.Reach) (hu : g.sys.cfg.usage = false)
    {c : Nat} {x : Conn} {a σ : String}
    (hx : g.sys.findConn c = some x) (happ : x.app = some a) (hside : x.side = some σ)
    {cmd cmd' : Cmd} (hcmd : Resend x cmd cmd') (t : Time) (id : Val) (hw : g.WFOp (.recv c t id cmd))
    (hans : Answered (g.sys.step (.recv c t id cmd)).out c id cmd) (hguard : ResendGuardT g.sys.db x cmd)
    (k : Nat) (hk : ResendK k cmd cmd') (c' : Nat) (id₁ : Val) (impl ver : Option String) :
    (resend (g.sys.step (.crashIn k (.recv c t id cmd))) c' t id₁ id a σ impl ver cmd').frames =
      (g.sys.step (.recv c t id cmd)).frames.map (Event.toConn c') ∧
    ((resend (g.sys.step (.crashIn k (.recv c t id cmd))) c' t id₁ id a σ impl ver cmd').db =
        (g.sys.step (.recv c t id cmd)).db ∨
      ∃ mo m mood, cmd = .close mo mood ∧ x.closeTarget mo = some m ∧
        (resend (g.sys.step (.crashIn k (.recv c t id cmd))) c' t id₁ id a σ impl ver cmd').db =
          (g.sys.step (.recv c t id cmd)).db.touch m t) ∧
    (resend (g.sys.step (.crashIn k (.recv c t id cmd))) c' t id₁ id a σ impl ver cmd').udb =
      (g.sys.step (.recv c t id cmd)).udb :=
  let h := C10_resend_all_partial hg hx happ hside hcmd t id hw hans hguard k hk c' id₁ impl ver
  ⟨h.1, h.2.1, h.2.2.2.2 hu⟩


/-! ## 8. K-usage-crash-dup: the counterexamples, and non-vacuity of the theorems above -/

namespace C10dExample
open C10bExample

/-- side s1 has claimed nameplate "4" (mailbox "mb1") on connection 1 -/
def Hr : List Op := [ .connect 1, bind 1 10 "s1", .recv 1 11 (.int 2) (.claim (some "4") "mb1") ]
def gr : GSys := (GSys.init cfg 0).run Hr
theorem gr_reachCF : gr.ReachCF :=
  GSys.reachCF_run (.init cfg 0) Hr (GSys.wfB_sound (by decide +kernel)) (by decide)
def xr : Conn := { id := 1, app := some "app", side := some "s1", didClaim := true, nameplateId := some "4" }
/-- `release` in the usual client form: without the name -/
def relOp : Op := .recv 1 20 (.int 3) (.release none)
def rec4 : UNameplate := ⟨"app", 11, none, 9, "lonely"⟩

/-- **K-usage-crash-dup, `release`** (`cfg.usage = true`).  From a state reachable WITHOUT crashes, all
    hypotheses of `C10_resend_release_all` hold; the uncrashed `release` has three commit points
    (channel: UPDATE; USAGE: the record; channel: DELETE).  Killed right after the SECOND (`k = 2`: the usage
    row is on disk, the nameplate row still exists), restarted, re-sent: the same answers, the same channel
    database -- and the usage `nameplates` table has TWO identical rows where the uncrashed run has ONE. -/
theorem C10_resend_usage_dup_counterexample :
    gr.ReachCF ∧ gr.sys.cfg.usage = true ∧ gr.sys.findConn 1 = some xr ∧ gr.WFOp relOp ∧
    Np.releaseTarget xr none = some "4" ∧
    Event.frame 1 .released true ∈ (gr.sys.step relOp).out ∧
    (gr.sys.step relOp).snaps.map (fun p => (p.1.nameplates.length, p.2.nameplates.length)) =
      [(1, 0), (1, 1), (0, 1)] ∧
    (gr.sys.step (.crashIn 2 relOp)).db.nameplates.length = 1 ∧
    (gr.sys.step (.crashIn 2 relOp)).udb.nameplates = [rec4] ∧
    (resend (gr.sys.step (.crashIn 2 relOp)) 9 20 (.int 7) (.int 3) "app" "s1" none none
      (.release (some "4"))).frames = [.frame 9 (.ack (.int 3)) true, .frame 9 .released true] ∧
    (resend (gr.sys.step (.crashIn 2 relOp)) 9 20 (.int 7) (.int 3) "app" "s1" none none
      (.release (some "4"))).db = (gr.sys.step relOp).db ∧
    (gr.sys.step relOp).udb.nameplates = [rec4] ∧
    (resend (gr.sys.step (.crashIn 2 relOp)) 9 20 (.int 7) (.int 3) "app" "s1" none none
      (.release (some "4"))).udb.nameplates = [rec4, rec4] :=
  ⟨gr_reachCF, rfl, by decide +kernel, GSys.wfOpB_sound (by decide +kernel), rfl, by decide +kernel,
    by decide +kernel, by decide +kernel, by decide +kernel, by decide +kernel, by decide +kernel,
    by decide +kernel, by decide +kernel⟩

/-- the instance of `C10_resend_release_all` at that crash point: it is the SECOND alternative (duplicated
    record) that holds, with `recs = [rec4]`; at `k = 0, 1, 3` the tables are equal (evaluated) -/
example :=
  (C10_resend_release_all gr_reachCF.reach (c := 1) (x := xr) (a := "app") (σ := "s1") (nm := none) (n := "4")
    (by decide +kernel) rfl rfl rfl 20 (.int 3) (GSys.wfOpB_sound (by decide +kernel)) (b := true)
    (by decide +kernel) 2 9 (.int 7) none none)
example : ∀ k ∈ [0, 1, 3, 4],
    (resend (gr.sys.step (.crashIn k relOp)) 9 20 (.int 7) (.int 3) "app" "s1" none none
      (.release (some "4"))).udb.nameplates = (gr.sys.step relOp).udb.nameplates ∧
    (resend (gr.sys.step (.crashIn k relOp)) 9 20 (.int 7) (.int 3) "app" "s1" none none
      (.release (some "4"))).db = (gr.sys.step relOp).db := by decide +kernel

/-- side s1 has also opened the mailbox of its nameplate; its `close` (without the name) is the last one:
    the mailbox AND the nameplate are retired, one usage row each -/
def Hc : List Op := Hr ++ [ .recv 1 12 (.int 3) (.open_ (some "mb1")) ]
def gc : GSys := (GSys.init cfg 0).run Hc
theorem gc_reachCF : gc.ReachCF :=
  GSys.reachCF_run (.init cfg 0) Hc (GSys.wfB_sound (by decide +kernel)) (by decide)
def xc : Conn := { id := 1, app := some "app", side := some "s1", didClaim := true, nameplateId := some "4",
                   listening := true, mailbox := some "mb1", mailboxId := some "mb1" }
def clOp : Op := .recv 1 200 (.int 4) (.close none (some "scary"))
def recN : UNameplate := ⟨"app", 11, none, 189, "lonely"⟩
def recM : UMailbox := ⟨"app", true, 11, 189, none, "scary"⟩
def recGone : UMailbox := ⟨"app", false, 200, 0, none, "scary"⟩

/-- **K-usage-crash-dup, `close`.**  All hypotheses of `C10_resend_close_all_partial` hold (the guard of
    K-crowded-rejoin included); three commit points (channel UPDATE; USAGE; channel DELETE).
    `k = 2` (between the usage commit and the channel commit): BOTH usage rows are written twice.
    `k = 3` (after the channel commit, before the answer): the re-sent close re-creates the mailbox, deletes
    it and writes one more row `(for_nameplate = 0, total = 0)`.  The channel databases are equal. -/
theorem C10_resend_usage_dup_close_counterexample :
    gc.ReachCF ∧ gc.sys.cfg.usage = true ∧ gc.sys.findConn 1 = some xc ∧ gc.WFOp clOp ∧
    xc.closeTarget none = some "mb1" ∧ (gc.sys.db.mbSidesOf "mb1").length ≤ 2 ∧
    Event.frame 1 .closed true ∈ (gc.sys.step clOp).out ∧
    (gc.sys.step clOp).snaps.map
      (fun p => (p.1.mailboxes.length, p.1.nameplates.length, p.2.mailboxes.length, p.2.nameplates.length)) =
      [(1, 1, 0, 0), (1, 1, 1, 1), (0, 0, 1, 1)] ∧
    (gc.sys.step clOp).udb.nameplates = [recN] ∧ (gc.sys.step clOp).udb.mailboxes = [recM] ∧
    (resend (gc.sys.step (.crashIn 2 clOp)) 9 200 (.int 7) (.int 4) "app" "s1" none none
      (.close (some "mb1") (some "scary"))).udb.nameplates = [recN, recN] ∧
    (resend (gc.sys.step (.crashIn 2 clOp)) 9 200 (.int 7) (.int 4) "app" "s1" none none
      (.close (some "mb1") (some "scary"))).udb.mailboxes = [recM, recM] ∧
    (resend (gc.sys.step (.crashIn 3 clOp)) 9 200 (.int 7) (.int 4) "app" "s1" none none
      (.close (some "mb1") (some "scary"))).udb.nameplates = [recN] ∧
    (resend (gc.sys.step (.crashIn 3 clOp)) 9 200 (.int 7) (.int 4) "app" "s1" none none
      (.close (some "mb1") (some "scary"))).udb.mailboxes = [recM, recGone] ∧
    (∀ k ∈ [2, 3], (resend (gc.sys.step (.crashIn k clOp)) 9 200 (.int 7) (.int 4) "app" "s1" none none
      (.close (some "mb1") (some "scary"))).db = (gc.sys.step clOp).db ∧
      (resend (gc.sys.step (.crashIn k clOp)) 9 200 (.int 7) (.int 4) "app" "s1" none none
        (.close (some "mb1") (some "scary"))).frames = [.frame 9 (.ack (.int 4)) true, .frame 9 .closed true]) :=
  ⟨gc_reachCF, by decide +kernel, by decide +kernel, GSys.wfOpB_sound (by decide +kernel), rfl, by decide +kernel,
    by decide +kernel, by decide +kernel, by decide +kernel, by decide +kernel, by decide +kernel,
    by decide +kernel, by decide +kernel, by decide +kernel, by decide +kernel⟩

/-- the surplus row is the `goneRecord` of the theorem -/
example : goneRecord gc.sys.blurTime "app" "mb1" "s1" (some "scary") 200 = recGone := by
  unfold goneRecord mbRecord; decide +kernel

/-- `C10_resend_close_all_partial` applies (every `k`; here `k = 3`), and before the usage commit
    (`k = 0, 1`) nothing is duplicated -/
example :=
  (C10_resend_close_all_partial gc_reachCF.reach (c := 1) (x := xc) (a := "app") (σ := "s1") (mo := none)
    (m := "mb1") (mood := some "scary") (by decide +kernel) rfl rfl 200 (.int 4)
    (GSys.wfOpB_sound (by decide +kernel)) rfl (b := true) (by decide +kernel) (fun _ => by decide +kernel)
    3 9 (.int 7) none none)
example : ∀ k ∈ [0, 1], (resend (gc.sys.step (.crashIn k clOp)) 9 200 (.int 7) (.int 4) "app" "s1" none none
      (.close (some "mb1") (some "scary"))).udb.mailboxes = [recM] ∧
    (resend (gc.sys.step (.crashIn k clOp)) 9 200 (.int 7) (.int 4) "app" "s1" none none
      (.close (some "mb1") (some "scary"))).udb.nameplates = [recN] := by decide +kernel

/-! ### a pre-state that is reachable only WITH a crash, `k = 0`, and the other commands -/

/-- the first claim of "4" died after its first commit (mailbox, nameplate, nameplate side on disk; no
    mailbox side: `SInv` is FALSE here, see `C10Example.C10_strong_needs_crash_free`); the server is
    restarted and side s1 is back on connection 2 -/
def Hx : List Op :=
  [ .connect 1, bind 1 10 "s1", .crashIn 1 (.recv 1 11 (.int 2) (.claim (some "4") "mb1")), .restart 12,
    .connect 2, bind 2 12 "s1" ]
def gx : GSys := (GSys.init cfg 0).run Hx
theorem gx_reach : gx.Reach := GSys.reach_of_wfB _ _ _ (by decide +kernel)
example : gx.sys.db.mbSides = [] ∧ gx.sys.db.mailboxes.length = 1 := by decide +kernel
def x2 : Conn := { id := 2, app := some "app", side := some "s1" }
def claim2 : Op := .recv 2 13 (.int 2) (.claim (some "4") "mb2")

/-- `C10_resend_claim_all` from that state: the second crash of the history (here again after the first
    commit of the claim, `k = 1`) is covered ... -/
example : (resend (gx.sys.step (.crashIn 1 claim2)) 9 13 (.int 7) (.int 2) "app" "s1" none none
    (.claim (some "4") "zzz")).db = (gx.sys.step claim2).db :=
  (C10_resend_claim_all gx_reach (c := 2) (x := x2) (a := "app") (σ := "s1") (n := "4") (fresh := "mb2")
    (by decide +kernel) rfl rfl 13 (.int 2) (GSys.wfOpB_sound (by decide +kernel)) (m := "mb1") (b := true)
    (by decide +kernel) 1 9 (.int 7) none none "zzz" (Or.inl (by decide))).2.2.1
/-- ... and so is `k = 0` (nothing committed) with the same generated id; with ANOTHER id and a nameplate
    that does not exist yet the two runs differ in the new mailbox id only (not a defect: `ResendK`) -/
example : (resend (g0.sys.step (.crashIn 0 claimOp)) 9 11 (.int 7) (.int 2) "app" "s1" none none
    (.claim (some "4") "mb1")).db = (g0.sys.step claimOp).db :=
  (C10_resend_claim_all g0_reachCF.reach (c := 1) (x := x1) (a := "app") (σ := "s1") (n := "4") (fresh := "mb1")
    (by decide +kernel) rfl rfl 11 (.int 2) (GSys.wfOpB_sound (by decide +kernel)) (m := "mb1") (b := true)
    (by decide +kernel) 0 9 (.int 7) none none "mb1" (Or.inr rfl)).2.2.1
example : (resend (g0.sys.step (.crashIn 0 claimOp)) 9 11 (.int 7) (.int 2) "app" "s1" none none
      (.claim (some "4") "zzz")).db.mailboxes.map (·.id) = ["zzz"] ∧
    (g0.sys.step claimOp).db.mailboxes.map (·.id) = ["mb1"] := by decide +kernel

/-- `open`, `k = 0` -/
def openOp : Op := .recv 1 100 (.int 2) (.open_ (some "m"))
example : (resend (g0.sys.step (.crashIn 0 openOp)) 9 100 (.int 7) (.int 2) "app" "s1" none none
    (.open_ (some "m"))).db = (g0.sys.step openOp).db :=
  (C10_resend_open_all g0_reachCF.reach (c := 1) (x := x1) (a := "app") (σ := "s1") (mb := "m")
    (by decide +kernel) rfl rfl 100 (.int 2) (GSys.wfOpB_sound (by decide +kernel))
    (by decide +kernel) 0 9 (.int 7) none none).2.2.1

/-- the four together, on the `release none` of `gr`: hypotheses hold, conclusion for `k = 2` -/
example : (gr.sys.step relOp).udb.nameplates <+:
    (resend (gr.sys.step (.crashIn 2 relOp)) 9 20 (.int 7) (.int 3) "app" "s1" none none
      (.release (some "4"))).udb.nameplates :=
  (C10_resend_all_partial gr_reachCF.reach (c := 1) (x := xr) (a := "app") (σ := "s1")
    (by decide +kernel) rfl rfl (Resend.release none "4" rfl) 20 (.int 3) (GSys.wfOpB_sound (by decide +kernel))
    ⟨true, by decide +kernel⟩ trivial 2 trivial 9 (.int 7) none none).2.2.1

/-- without a usage database: both databases agree (same history, `usage := false`) -/
def grN : GSys := (GSys.init {} 0).run Hr
theorem grN_reach : grN.Reach := GSys.reach_of_wfB _ _ _ (by decide +kernel)
example : (resend (grN.sys.step (.crashIn 2 relOp)) 9 20 (.int 7) (.int 3) "app" "s1" none none
      (.release (some "4"))).udb = (grN.sys.step relOp).udb :=
  (C10_resend_both_nousage grN_reach rfl (c := 1) (x := xr) (a := "app") (σ := "s1")
    (by decide +kernel) rfl rfl (Resend.release none "4" rfl) 20 (.int 3) (GSys.wfOpB_sound (by decide +kernel))
    ⟨true, by decide +kernel⟩ trivial 2 trivial 9 (.int 7) none none).2.2
example : (grN.sys.step relOp).snaps.length = 2 ∧ (grN.sys.step relOp).udb = {} := by decide +kernel

/-! ### the same window seen by the sweep: a second record, and the reverse order in `prune` -/

def sw : Op := .sweep 100000 false

/-- **no re-send at all: the next sweep writes the second record.**  `release` killed after its usage commit
    (`k = 2`), the client never returns; the nameplate row is still there (unclaimed side row) and the sweep
    prunes it with its mailbox: the retired nameplate has TWO usage rows, "lonely" (from the crashed release)
    and "pruney"; the uncrashed history has one. -/
theorem C10_release_crash_then_sweep_two_records :
    ((gr.sys.step (.crashIn 2 relOp)).step sw).udb.nameplates = [rec4, ⟨"app", 11, none, 99989, "pruney"⟩] ∧
    ((gr.sys.step relOp).step sw).udb.nameplates = [rec4] ∧
    ((gr.sys.step (.crashIn 2 relOp)).step sw).db.nameplates = [] ∧
    ((gr.sys.step relOp).step sw).db.nameplates = [] := by decide +kernel

/-- **`prune` commits in the OTHER order** (server.py: `db.commit()` then `usage_db.commit()`): a sweep killed
    between the two (`k = 1`) has deleted the expired nameplate and mailbox and recorded NOTHING; no later
    sweep can make up for it (the rows are gone).  The uncrashed sweep writes one record each. -/
theorem C10_sweep_crash_loses_usage_counterexample :
    (gr.step (.drop 1)).Reach ∧
    ((gr.step (.drop 1)).sys.step sw).snaps.map
      (fun p => (p.1.mailboxes.length, p.1.nameplates.length, p.2.mailboxes.length, p.2.nameplates.length)) =
      [(0, 0, 0, 0), (0, 0, 1, 1), (0, 0, 1, 1)] ∧
    ((gr.step (.drop 1)).sys.step (.crashIn 1 sw)).db.mailboxes = [] ∧
    ((gr.step (.drop 1)).sys.step (.crashIn 1 sw)).db.nameplates = [] ∧
    ((gr.step (.drop 1)).sys.step (.crashIn 1 sw)).udb.mailboxes = [] ∧
    ((gr.step (.drop 1)).sys.step (.crashIn 1 sw)).udb.nameplates = [] ∧
    ((((gr.step (.drop 1)).sys.step (.crashIn 1 sw)).step (.restart 100001)).step (.sweep 100002 false)).udb.mailboxes = [] ∧
    ((gr.step (.drop 1)).sys.step sw).udb.mailboxes = [⟨"app", true, 11, 99989, none, "pruney"⟩] ∧
    ((gr.step (.drop 1)).sys.step sw).udb.nameplates = [⟨"app", 11, none, 99989, "pruney"⟩] :=
  ⟨.step _ gr_reachCF.reach (GSys.wfOpB_sound (by decide +kernel)), by decide +kernel, by decide +kernel,
    by decide +kernel, by decide +kernel, by decide +kernel, by decide +kernel, by decide +kernel, by decide +kernel⟩

end C10dExample

end Wormhole

#print axioms Wormhole.C10_resend_usage_equal_nousage
#print axioms Wormhole.C10_resend_claim_all
#print axioms Wormhole.C10_resend_release_all
#print axioms Wormhole.C10_resend_open_all
#print axioms Wormhole.C10_resend_close_all_partial
#print axioms Wormhole.C10_resend_all_partial
#print axioms Wormhole.C10_resend_usage_prefix_partial
#print axioms Wormhole.C10_resend_both_nousage
#print axioms Wormhole.C10dExample.C10_resend_usage_dup_counterexample
#print axioms Wormhole.C10dExample.C10_resend_usage_dup_close_counterexample
#print axioms Wormhole.C10dExample.C10_release_crash_then_sweep_two_records
#print axioms Wormhole.C10dExample.C10_sweep_crash_loses_usage_counterexample
