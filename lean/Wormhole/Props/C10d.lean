/-
  C10 (re-send clause), second part: BOTH databases, every crash point, the usual client forms.

  Props/C10b.lean / C10c.lean prove "same answers, same stored state" for the CHANNEL database only, for a
  pre-state reachable WITHOUT crashes, for `k ≥ 1` and for commands that name their nameplate / mailbox.
  An independent audit (AUDIT_A, problems 1 and 2) found
    (1) the USAGE database diverges and this was not a recorded finding  -->  **K-usage-crash-dup** below;
    (2) the hypotheses are narrower than the property's quantifier.
  This file repairs both.

  FINDING K-usage-crash-dup (server.py: `release_nameplate`, `Mailbox.close`, `prune`: `usage_db.commit()`
  PRECEDES `db.commit()`).  With a usage database, a crash between the two commits leaves the usage record
  on disk while the channel rows survive; the re-sent command (or the next sweep) then writes the record a
  SECOND time.  A re-sent `close` that arrives after the channel commit creates the mailbox again, deletes it
  and writes one more record `(for_nameplate = 0, total = 0)`.

  WHAT IS PROVED (`resend`, `Resend`, `Answered` as in Inv/UsageResend.lean, Inv/DupOrig.lean)
  (a) `C10_resend_usage_equal_nousage`: with `cfg.usage = false` the usage database is untouched by the
      uncrashed step and by crash + restart + reconnect + bind + re-send, for EVERY operation, every `k`:
      both runs end with the usage database of before.  With `C10_resend_all_partial` below this is "same
      stored state" for BOTH databases in that configuration (`C10_resend_both_nousage`).
  (b) `C10dExample.C10_resend_usage_dup_counterexample` (release, `decide +kernel`): a concrete state reachable
      without crashes, `release` crashed right after its usage commit (`k = 2`: the usage row is on disk, the
      nameplate row still exists), restarted, re-sent: the usage `nameplates` table ends with TWO rows, the
      uncrashed run has ONE.  `C10_resend_usage_dup_close_counterexample`: the same for `close` (`k = 2`: the
      usage `mailboxes` row duplicated; `k = 3`: one surplus row `(for_nameplate=0, total=0)`).
  (c) the positive statements with a usage database, EXACT:
      `C10_resend_release_all`  the usage `mailboxes` table of the re-sent run EQUALS that of the uncrashed
         run; the usage `nameplates` table is that of the uncrashed run, or that of the uncrashed run FOLLOWED
         BY THE ROWS THE UNCRASHED STEP WROTE (at most one) -- the latter only when the crash state already
         has the usage rows of the uncrashed run while its channel database is not the final one;
      `C10_resend_close_all_partial`  the same for `close` (both tables; under the guards of K-crowded-rejoin
         and up to K-close-touch on the channel side as in C10b), plus the third case: the crash state is
         the FINAL state of a deleting close, then exactly one surplus usage `mailboxes` row `goneRecord`
         (`for_nameplate = 0`, one side, the submitted mood, `started = blur t`, `total = 0`);
      `C10_resend_claim_all`, `C10_resend_open_all`: claim / open write neither table: EQUAL.
      In all cases the uncrashed run's rows are a PREFIX of the re-sent run's rows
      (`C10_resend_usage_prefix_partial`).
  GENERALISATIONS (audit problem 2), in the same theorems:
    * `g.Reach` instead of `g.ReachCF`: the pre-state may itself be the result of earlier crashes.  NO fact
      used by C10b needed `SInv`: every step uses `GInv` (which holds after crashes), `HandleRow` and
      `handleId` (both proved for `Reach`).  The crash-freeness of C10b's hypotheses was not needed.
    * every `k`, `k = 0` included (crash before the first commit: the command is lost entirely and the
      re-send is the original command on a fresh connection); for `claim` with `k = 0` the re-sent claim must
      carry the same generated id (`1 ≤ k ∨ f' = fresh`): with another id a NEW nameplate gets another
      mailbox id, which is not a defect.
    * `release none` / `close none` (the usual client forms) via `Resend x cmd cmd'`: the original may omit
      the name, the re-send names it.
  Still as in C10b: restart, bind and re-send happen at the instant `t` of the original (audit 2c).
-/
import Wormhole.Props.C10c
import Wormhole.Props.C15b

namespace Wormhole
open Sys Sys.Np

/-! ## 0. Commit points as PAIRS (channel database, usage database) -/

namespace Sys

/-- `P` holds of the committed pair and of every snapshot taken in this step -/
def PairAll (P : Chan → Usage → Prop) (s : Sys) : Prop := P s.disk s.udisk ∧ ∀ p ∈ s.snaps, P p.1 p.2

theorem PairAll.of_eq {P} {s s1 : Sys} (h : PairAll P s) (h1 : s1.disk = s.disk) (h2 : s1.udisk = s.udisk)
    (h3 : s1.snaps = s.snaps) : PairAll P s1 := by
  unfold PairAll; rw [h1, h2, h3]; exact h

theorem PairAll.commit {P} {s : Sys} (h : PairAll P s) (hp : P s.db s.udisk) : PairAll P s.commit := by
  unfold Sys.commit
  split
  · exact h
  · refine ⟨hp, ?_⟩
    intro p hp'
    simp only [List.mem_append, List.mem_singleton] at hp'
    rcases hp' with h' | rfl
    · exact h.2 p h'
    · exact hp

theorem PairAll.ucommit {P} {s : Sys} (h : PairAll P s) (hp : P s.disk s.udb) : PairAll P s.ucommit := by
  unfold Sys.ucommit
  split
  · exact h
  · refine ⟨hp, ?_⟩
    intro p hp'
    simp only [List.mem_append, List.mem_singleton] at hp'
    rcases hp' with h' | rfl
    · exact h.2 p h'
    · exact hp

theorem PairAll.mono {P Q : Chan → Usage → Prop} {s : Sys} (h : PairAll P s) (hpq : ∀ d u, P d u → Q d u) :
    PairAll Q s := ⟨hpq _ _ h.1, fun p hp => hpq _ _ (h.2 p hp)⟩

/-- the pair a crash after the `k`-th commit leaves (ANY `k`, `0` included) satisfies every property of
    the pair before the step and of all commit points of the uncrashed run -/
theorem crash_pair_of_pairAll {P : Chan → Usage → Prop} (s : Sys) (hS : s.Synced) (k : Nat) (op : Op)
    (h0 : P s.db s.udb) (h : PairAll P (({ s with out := [], snaps := [] } : Sys).stepPlain op)) :
    P (s.step (.crashIn k op)).db (s.step (.crashIn k op)).udb := by
  obtain ⟨p, hp, e1, _, e3, _, _⟩ := GSys.step_crash_spec s k op
  rw [e1, e3]
  rcases hp with hp | rfl | rfl
  · exact h.2 p hp
  · exact h.1
  · show P s.disk s.udisk
    rw [← hS.1, ← hS.2]; exact h0

theorem crash_cfg (s : Sys) (k : Nat) (op : Op) : (s.step (.crashIn k op)).cfg = s.cfg := step_cfg s _

/-! ### `release_nameplate` -/

end Sys

/-- the usage `nameplates` rows `release_nameplate(a, n, σ, t)` writes (when a usage database exists):
    one record if the release retires the nameplate, none otherwise -/
def Chan.releaseRecs (d : Chan) (blur : Time → Time) (a n σ : String) (t : Time) : List UNameplate :=
  match d.findNameplate a n with
  | none => []
  | some np =>
    match d.findNpSide np.id σ with
    | none => []
    | some _ =>
      if ((d.unclaim np.id σ).npSidesOf np.id).any (·.claimed) then []
      else [npRecord blur a (((d.unclaim np.id σ).npSidesOf np.id).map (·.added)) t false]

theorem Chan.releaseRecs_length (d : Chan) (blur : Time → Time) (a n σ : String) (t : Time) :
    (d.releaseRecs blur a n σ t).length ≤ 1 := by
  unfold Chan.releaseRecs
  split
  · simp
  · split
    · simp
    · split <;> simp

namespace Sys

/-- **`release_nameplate`: the usage database afterwards** -/
theorem releaseNameplate_udb (s : Sys) (a n σ : String) (t : Time) :
    (s.releaseNameplate a n σ t).1.udb =
      if s.cfg.usage then
        { s.udb with nameplates := s.udb.nameplates ++ s.db.releaseRecs s.blurTime a n σ t }
      else s.udb := by
  unfold releaseNameplate Chan.releaseRecs
  cases hnp : s.db.findNameplate a n with
  | none => simp
  | some np =>
    dsimp only
    cases hs : s.db.findNpSide np.id σ with
    | none => simp
    | some r0 =>
      dsimp only
      simp only [commit_db, modDb_db]
      by_cases hany : ((s.db.unclaim np.id σ).npSidesOf np.id).any (·.claimed) = true
      · simp [hany]
      · simp only [hany, Bool.false_eq_true, if_false, modDb_cfg, commit_cfg]
        cases hu : s.cfg.usage with
        | false => simp
        | true =>
          simp only [if_true]
          rw [storeNameplateUsage_eq _ _ _ _ (npSidesOf_unclaim_ne_nil hs)]
          simp

/-- **the commit points of `release_nameplate` as pairs**: from a state with nothing uncommitted in the
    usage database: (after the UPDATE, usage as before), (after the UPDATE, usage final) -- the usage
    commit precedes the channel commit --, (final, final) -/
theorem releaseNameplate_pairAll {P} (s : Sys) (a n σ : String) (t : Time) (hA : PairAll P s)
    (hsy : s.udb = s.udisk)
    (h1 : P (s.db.releaseMid a n σ) s.udb)
    (h2 : P (s.db.releaseMid a n σ) (s.releaseNameplate a n σ t).1.udb)
    (h3 : P (s.db.releaseDb a n σ) (s.releaseNameplate a n σ t).1.udb) :
    PairAll P (s.releaseNameplate a n σ t).1 := by
  rw [releaseNameplate_udb] at h2 h3
  unfold Chan.releaseRecs at h2 h3
  unfold Chan.releaseMid at h1 h2
  unfold Chan.releaseDb at h3
  unfold releaseNameplate
  cases hnp : s.db.findNameplate a n with
  | none => exact hA
  | some np =>
    rw [hnp] at h1 h2 h3
    dsimp only at h1 h2 h3 ⊢
    cases hs : s.db.findNpSide np.id σ with
    | none => exact hA
    | some r0 =>
      rw [hs] at h2 h3
      dsimp only at h2 h3 ⊢
      have hc : PairAll P ((s.modDb (·.unclaim np.id σ)).commit) :=
        PairAll.commit (s := s.modDb (·.unclaim np.id σ)) hA (by show P _ s.udisk; rw [← hsy]; exact h1)
      simp only [commit_db, modDb_db]
      by_cases hany : ((s.db.unclaim np.id σ).npSidesOf np.id).any (·.claimed) = true
      · simp only [hany, if_true]
        exact hc
      · simp only [hany, Bool.false_eq_true, if_false, modDb_cfg, commit_cfg] at h2 h3 ⊢
        cases hu : s.cfg.usage with
        | false =>
          rw [hu] at h2 h3
          simp only [Bool.false_eq_true, if_false] at h2 h3 ⊢
          refine PairAll.commit (s := ((s.modDb _).commit).modDb _) (hc.of_eq rfl rfl rfl) ?_
          simp only [modDb_db, commit_db, modDb_udisk, commit_udisk]
          rw [← hsy]; exact h3
        | true =>
          rw [hu] at h2 h3
          simp only [if_true] at h2 h3 ⊢
          rw [storeNameplateUsage_eq _ _ _ _ (npSidesOf_unclaim_ne_nil hs)]
          dsimp only
          refine PairAll.commit (PairAll.ucommit (hc.of_eq rfl rfl rfl) ?_) ?_
          · simp only [modUdb_disk, modDb_disk, commit_disk, modDb_db, modUdb_udb, modDb_udb, commit_udb,
              blurTime_modDb, blurTime_commit]
            exact h2
          · simp only [ucommit_db, modUdb_db, modDb_db, commit_db, ucommit_udisk, modUdb_udb, modDb_udb,
              commit_udb, blurTime_modDb, blurTime_commit]
            exact h3


/-- the usage database after an accepted `release` resolving to nameplate `n` -/
def releaseUdb (s : Sys) (a n σ : String) (t : Time) : Usage :=
  if s.cfg.usage then { s.udb with nameplates := s.udb.nameplates ++ s.db.releaseRecs s.blurTime a n σ t }
  else s.udb

/-- **an accepted `release` (named or not), the whole step**: exact events, both databases as functions
    of the state before, and the commit points as pairs -/
theorem release_step_pairs {s : Sys} (hS : s.Synced) {c : Nat} {x : Conn} (hx : s.findConn c = some x)
    {nm : Option String} (hr : rejectText x (.release nm) = none) {a : String} (happ : x.app = some a)
    {n : String} (hn : Np.releaseTarget x nm = some n) (t : Time) (id : Val) :
    (∃ commits, (∀ e ∈ commits, IsCommit e) ∧
      (s.step (.recv c t id (.release nm))).out =
        .frame c (.ack id) true :: (commits ++ [.frame c .released true])) ∧
    (s.step (.recv c t id (.release nm))).db = s.db.releaseDb a n (x.side.getD "") ∧
    (s.step (.recv c t id (.release nm))).udb = s.releaseUdb a n (x.side.getD "") t ∧
    ∀ P : Chan → Usage → Prop, P s.db s.udb → P (s.db.releaseMid a n (x.side.getD "")) s.udb →
      P (s.db.releaseMid a n (x.side.getD "")) (s.releaseUdb a n (x.side.getD "") t) →
      P (s.db.releaseDb a n (x.side.getD "")) (s.releaseUdb a n (x.side.getD "") t) →
      PairAll P (({ s with out := [], snaps := [] } : Sys).stepPlain (.recv c t id (.release nm))) := by
  obtain ⟨n', hn', hstep⟩ := step_release_eq t id nm hx happ hr
  have : n' = n := by rw [hn] at hn'; cases hn'; rfl
  subst this
  have hsy : s.synced = true := (synced_iff s).2 hS
  generalize hX : ((({ s with out := [], snaps := [] } : Sys).send c (.ack id)).updConn c
    (fun y => { y with didRelease := true })) = X at hstep
  have hXdb : X.db = s.db := by rw [← hX]; rfl
  have hXdisk : X.disk = s.disk := by rw [← hX]; rfl
  have hXudb : X.udb = s.udb := by rw [← hX]; rfl
  have hXudisk : X.udisk = s.udisk := by rw [← hX]; rfl
  have hXcfg : X.cfg = s.cfg := by rw [← hX]; rfl
  have hXsn : X.snaps = [] := by rw [← hX]; rfl
  have hXout : X.out = [.frame c (.ack id) true] := by rw [← hX, ← hsy]; rfl
  have hdbf := releaseNameplate_db X a n' (x.side.getD "") t
  have hudbf : (X.releaseNameplate a n' (x.side.getD "") t).1.udb = s.releaseUdb a n' (x.side.getD "") t := by
    rw [releaseNameplate_udb, hXcfg, hXudb, hXdb, blurTime_congr hXcfg]; rfl
  have hcp := fun (P : Chan → Usage → Prop) hA h1 h2 h3 =>
    releaseNameplate_pairAll (P := P) X a n' (x.side.getD "") t hA (by rw [hXudb, hXudisk]; exact hS.2) h1 h2 h3
  have hcx := CExt.releaseNameplate (OutExt.refl (s := X)) (app := a) (name := n') (side := x.side.getD "") (t := t)
  cases e : X.releaseNameplate a n' (x.side.getD "") t with
  | mk s1 b1 =>
    rw [e] at hstep hdbf hudbf hcp hcx
    obtain ⟨hb, _, _⟩ := releaseNameplate_exact e
    subst hb
    obtain ⟨_, _, hsync⟩ := releaseNameplate_spec e
    have hs1 : s1.Synced := hsync ⟨by rw [hXdb, hXdisk]; exact hS.1, by rw [hXudb, hXudisk]; exact hS.2⟩
    dsimp only at hstep hdbf hudbf hcp hcx
    obtain ⟨commits, hout, hc⟩ := hcx
    refine ⟨⟨commits, hc, ?_⟩, ?_, ?_, ?_⟩
    · rw [hstep]
      show s1.out ++ [Event.frame c .released s1.synced] = _
      rw [(synced_iff s1).2 hs1, hout, hXout]; simp
    · rw [hstep]
      show s1.db = _
      rw [hdbf, hXdb]
    · rw [hstep]
      exact hudbf
    · intro P h0 h1 h2 h3
      have : ({ s with out := [], snaps := [] } : Sys).stepPlain (.recv c t id (.release nm)) =
          s1.send c .released := hstep
      rw [this]
      have hA : PairAll P X :=
        ⟨by rw [hXdisk, hXudisk, ← hS.1, ← hS.2]; exact h0, by rw [hXsn]; simp⟩
      refine (hcp P hA (by rw [hXdb, hXudb]; exact h1) (by rw [hXdb, hudbf]; exact h2)
        (by rw [hXdb, hudbf]; exact h3)).of_eq rfl rfl rfl

end Sys


/-! ## 1. restart, connect, bind: the usage tables `nameplates` / `mailboxes` are not written -/

namespace Sys

/-- the bound state of the re-send has the usage `nameplates` / `mailboxes` tables of the crash state -/
theorem resend_bound_udb {sk : Sys} (hS : sk.Synced) (c' : Nat) (t : Time) (id₁ : Val) (a σ : String)
    (impl ver : Option String) :
    (((sk.step (.restart t)).step (.connect c')).step
        (.recv c' t id₁ (.bind (some a) (some σ) impl ver))).udb.nameplates = sk.udb.nameplates ∧
    (((sk.step (.restart t)).step (.connect c')).step
        (.recv c' t id₁ (.bind (some a) (some σ) impl ver))).udb.mailboxes = sk.udb.mailboxes := by
  have h0 : ((sk.step (.restart t)).step (.connect c')).udb = sk.udb := hS.2.symm
  have hk := Keep.onMessage
    (Keep.start ({ ((sk.step (.restart t)).step (.connect c')) with out := [], snaps := [] } : Sys)) c' t id₁
    (cmd := .bind (some a) (some σ) impl ver) (by intro n; simp) (by intro m mood; simp)
  exact ⟨hk.unp.trans (congrArg _ h0), hk.umb.trans (congrArg _ h0)⟩

end Sys

/-! ## 2. `release` -/

namespace Chan

theorem releaseRecs_releaseMid (d : Chan) (blur : Time → Time) (a n σ : String) (t : Time) :
    (d.releaseMid a n σ).releaseRecs blur a n σ t = d.releaseRecs blur a n σ t := by
  unfold releaseMid releaseRecs
  cases hnp : d.findNameplate a n with
  | none => simp only [hnp]
  | some np =>
    dsimp only
    rw [findNameplate_unclaim, hnp]
    dsimp only
    rw [findNpSide_unclaim]
    cases hs : d.findNpSide np.id σ with
    | none => simp
    | some r0 => simp only [Option.map_some, unclaim_unclaim]

theorem releaseRecs_releaseDb {d : Chan} (hP : d.PInv) (blur : Time → Time) (a n σ : String) (t : Time) :
    (d.releaseDb a n σ).releaseRecs blur a n σ t = [] := by
  cases hnp : d.findNameplate a n with
  | none =>
    have : d.releaseDb a n σ = d := by unfold releaseDb; rw [hnp]
    rw [this]; unfold releaseRecs; rw [hnp]
  | some np =>
    cases hs : d.findNpSide np.id σ with
    | none =>
      have : d.releaseDb a n σ = d := by unfold releaseDb; rw [hnp]; dsimp only; rw [hs]
      rw [this]; unfold releaseRecs; rw [hnp]; dsimp only; rw [hs]
    | some r0 =>
      by_cases hany : ((d.unclaim np.id σ).npSidesOf np.id).any (·.claimed) = true
      · have e : d.releaseDb a n σ = d.releaseMid a n σ := by
          unfold releaseDb releaseMid; rw [hnp]; dsimp only; rw [hs]; dsimp only; rw [if_pos hany]
        rw [e, releaseRecs_releaseMid]
        unfold releaseRecs; rw [hnp]; dsimp only; rw [hs]; dsimp only; rw [if_pos hany]
      · have e : d.releaseDb a n σ = ((d.unclaim np.id σ).delNpSidesOf np.id).delNameplate np.id := by
          unfold releaseDb; rw [hnp]; dsimp only; rw [hs]; dsimp only; rw [if_neg hany]
        have hgone : (d.releaseDb a n σ).findNameplate a n = none := by
          rw [e]
          simp only [findNameplate, delNameplate, delNpSidesOf, unclaim, List.find?_eq_none, List.mem_filter,
            decide_not, Bool.not_eq_eq_eq_not, Bool.not_true, decide_eq_false_iff_not, decide_eq_true_eq, not_and,
            and_imp]
          intro r hr hne ha hn
          have hnpm : np ∈ d.nameplates := List.mem_of_find?_eq_some hnp
          have hk := List.find?_some hnp
          simp only [decide_eq_true_eq] at hk
          have : r = np := hP.np_eq_of_key hr hnpm (ha.trans hk.1.symm) (hn.trans hk.2.symm)
          exact hne (by rw [this])
        unfold releaseRecs; rw [hgone]

end Chan

/-- an answered command was not rejected -/
theorem not_rejected_of_released {s : Sys} {c : Nat} {x : Conn} (hx : s.findConn c = some x) {nm : Option String}
    (t : Time) (id : Val) {b : Bool}
    (hans : Event.frame c .released b ∈ (s.step (.recv c t id (.release nm))).out) :
    rejectText x (.release nm) = none := by
  cases hr : rejectText x (.release nm) with
  | none => rfl
  | some text => rcases rejected_out t id hx hr _ hans with ⟨_, e⟩ | ⟨_, e⟩ <;> cases e

/-- **C10 (re-sent `release`), both databases, every crash point.**  `g` reachable (earlier crashes
    allowed), `c` bound to `(a, σ)`, a well-formed `release` -- with or without the name -- that resolves to
    nameplate `n` and is answered `released`; ANY `k` (`0`: the command is lost before its first commit).
    Crash, restart, reconnect, bind, `release n`, all at `t`.  Then
    * the answers are the same and the CHANNEL databases are equal;
    * the usage `mailboxes` tables are equal;
    * the usage `nameplates` table of the uncrashed run is that of before plus `recs` (at most one row), and
      the re-sent run ends with the same table, OR with that table FOLLOWED BY `recs` once more -- the
      latter only if the crash state already holds the usage rows of the uncrashed run while its channel
      database is not yet the final one (K-usage-crash-dup: the crash fell between `usage_db.commit()`
      and `db.commit()`). -/
theorem C10_resend_release_all {g : GSys} (hg : g.Reach) {c : Nat} {x : Conn} {a σ : String}
    (hx : g.sys.findConn c = some x) (happ : x.app = some a) (hside : x.side = some σ)
    {nm : Option String} {n : String} (hn : Np.releaseTarget x nm = some n) (t : Time) (id : Val)
    (hw : g.WFOp (.recv c t id (.release nm))) {b : Bool}
    (hans : Event.frame c .released b ∈ (g.sys.step (.recv c t id (.release nm))).out)
    (k : Nat) (c' : Nat) (id₁ : Val) (impl ver : Option String) :
    (g.sys.step (.recv c t id (.release nm))).frames = [.frame c (.ack id) true, .frame c .released true] ∧
    (resend (g.sys.step (.crashIn k (.recv c t id (.release nm)))) c' t id₁ id a σ impl ver
      (.release (some n))).frames = [.frame c' (.ack id) true, .frame c' .released true] ∧
    (resend (g.sys.step (.crashIn k (.recv c t id (.release nm)))) c' t id₁ id a σ impl ver
      (.release (some n))).db = (g.sys.step (.recv c t id (.release nm))).db ∧
    (resend (g.sys.step (.crashIn k (.recv c t id (.release nm)))) c' t id₁ id a σ impl ver
      (.release (some n))).udb.mailboxes = (g.sys.step (.recv c t id (.release nm))).udb.mailboxes ∧
    ∃ recs : List UNameplate, recs.length ≤ 1 ∧
      (g.sys.step (.recv c t id (.release nm))).udb.nameplates = g.sys.udb.nameplates ++ recs ∧
      (g.sys.cfg.usage = false → recs = []) ∧
      ((resend (g.sys.step (.crashIn k (.recv c t id (.release nm)))) c' t id₁ id a σ impl ver
          (.release (some n))).udb.nameplates = (g.sys.step (.recv c t id (.release nm))).udb.nameplates ∨
        ((resend (g.sys.step (.crashIn k (.recv c t id (.release nm)))) c' t id₁ id a σ impl ver
            (.release (some n))).udb.nameplates =
            (g.sys.step (.recv c t id (.release nm))).udb.nameplates ++ recs ∧
          (g.sys.step (.crashIn k (.recv c t id (.release nm)))).udb =
            (g.sys.step (.recv c t id (.release nm))).udb ∧
          (g.sys.step (.crashIn k (.recv c t id (.release nm)))).db ≠
            (g.sys.step (.recv c t id (.release nm))).db)) := by
  have hI := hg.ginv
  have hP := hI.cinv.toPInv
  have hIk : (g.step (.crashIn k (.recv c t id (.release nm)))).GInv := hI.step _ (hw.crashIn rfl k)
  have hr := not_rejected_of_released hx t id hans
  obtain ⟨⟨commits, hc, hout⟩, hdb, hudb, hcp⟩ := release_step_pairs hI.synced hx hr happ hn t id
  rw [getD_of_side hside] at hdb hudb hcp
  refine ⟨frames_of_answer hc (by rfl) hout, ?_⟩
  -- the crash point, as a pair
  have hcrash := crash_pair_of_pairAll g.sys hI.synced k (.recv c t id (.release nm))
    (P := fun d u => (d = g.sys.db ∧ u = g.sys.udb) ∨ (d = g.sys.db.releaseMid a n σ ∧ u = g.sys.udb) ∨
      (d = g.sys.db.releaseMid a n σ ∧ u = g.sys.releaseUdb a n σ t) ∨
      (d = g.sys.db.releaseDb a n σ ∧ u = g.sys.releaseUdb a n σ t))
    (Or.inl ⟨rfl, rfl⟩)
    (hcp _ (Or.inl ⟨rfl, rfl⟩) (Or.inr (Or.inl ⟨rfl, rfl⟩)) (Or.inr (Or.inr (Or.inl ⟨rfl, rfl⟩)))
      (Or.inr (Or.inr (Or.inr ⟨rfl, rfl⟩))))
  have hkcfg : (g.sys.step (.crashIn k (.recv c t id (.release nm)))).cfg = g.sys.cfg := crash_cfg _ _ _
  generalize hsk : g.sys.step (.crashIn k (.recv c t id (.release nm))) = sk at hcrash hkcfg ⊢
  have hSk : sk.Synced := by rw [← hsk]; exact hIk.synced
  obtain ⟨hRdb, hRsy, hRconns, hRcfg, hR⟩ := resend_ready hSk c' t id₁ a σ impl ver
  obtain ⟨hbn, hbm⟩ := resend_bound_udb hSk c' t id₁ a σ impl ver
  have hf : ∀ y ∈ (sk.step (.restart t)).conns, y.id ≠ c' := by rw [hRconns]; simp
  have hxb := hR.findConn hf
  have hSb := hR.synced hRsy
  generalize hsb : ((sk.step (.restart t)).step (.connect c')).step
      (.recv c' t id₁ (.bind (some a) (some σ) impl ver)) = sb at hR hbn hbm hxb hSb
  have hbcfg : sb.cfg = g.sys.cfg := by rw [hR.cfg, hRcfg, hkcfg]
  obtain ⟨⟨commits', hc', hout'⟩, hdb', hudb', _⟩ := release_step_pairs hSb hxb (nm := some n) (n := n)
    (by simp [rejectText, needBind, dupConn]) (a := a) rfl rfl t id
  have hside' : (dupConn c' a σ).side.getD "" = σ := rfl
  rw [hside', hR.db, hRdb] at hdb'
  rw [hside'] at hudb'
  have hresend : resend sk c' t id₁ id a σ impl ver (.release (some n)) =
      sb.step (.recv c' t id (.release (some n))) := by unfold resend; rw [hsb]
  rw [hresend]
  refine ⟨frames_of_answer hc' (by rfl) hout', ?_, ?_, ?_⟩
  · -- channel database
    rw [hdb', hdb]
    rcases hcrash with h | h | h | h <;> rw [h.1]
    · exact Chan.releaseDb_releaseMid _ _ _ _
    · exact Chan.releaseDb_releaseMid _ _ _ _
    · exact Chan.releaseDb_releaseDb hP _ _ _
  · -- usage mailboxes
    rw [hudb', hudb]
    have e1 : (sb.releaseUdb a n σ t).mailboxes = sb.udb.mailboxes := by unfold releaseUdb; split <;> rfl
    have e2 : (g.sys.releaseUdb a n σ t).mailboxes = g.sys.udb.mailboxes := by unfold releaseUdb; split <;> rfl
    rw [e1, e2, hbm]
    rcases hcrash with h | h | h | h <;> rw [h.2]
    · exact e2
    · exact e2
  · -- usage nameplates
    refine ⟨if g.sys.cfg.usage then g.sys.db.releaseRecs g.sys.blurTime a n σ t else [], ?_, ?_, ?_, ?_⟩
    · split
      · exact Chan.releaseRecs_length _ _ _ _ _ _
      · simp
    · rw [hudb]; unfold releaseUdb; split <;> simp
    · intro hu; simp [hu]
    · rw [hudb', hudb]
      have hbl : sb.blurTime = g.sys.blurTime := blurTime_congr hbcfg
      have e1 : (sb.releaseUdb a n σ t).nameplates =
          sk.udb.nameplates ++ (if g.sys.cfg.usage then sk.db.releaseRecs g.sys.blurTime a n σ t else []) := by
        unfold releaseUdb
        rw [hbcfg, hbl, hR.db, hRdb]
        split
        · show sb.udb.nameplates ++ _ = _; rw [hbn]
        · rw [hbn]; simp
      have e2 : (g.sys.releaseUdb a n σ t).nameplates =
          g.sys.udb.nameplates ++ (if g.sys.cfg.usage then g.sys.db.releaseRecs g.sys.blurTime a n σ t else []) := by
        unfold releaseUdb; split <;> simp
      rw [e1]
      rcases hcrash with h | h | h | h
      · left; rw [h.1, h.2, e2]
      · left; rw [h.1, h.2, e2, Chan.releaseRecs_releaseMid]
      · by_cases hfin : g.sys.db.releaseMid a n σ = g.sys.db.releaseDb a n σ
        · left
          rw [h.1, h.2, hfin, Chan.releaseRecs_releaseDb hP]
          simp
        · right
          refine ⟨by rw [h.1, h.2, Chan.releaseRecs_releaseMid], by rw [h.2], ?_⟩
          rw [h.1, hdb]; exact hfin
      · left
        rw [h.1, h.2, Chan.releaseRecs_releaseDb hP]
        simp


/-! ## 3. Without a usage database: nothing is ever written, so both databases agree -/

/-- **(a)** with `cfg.usage = false` the usage database is untouched by the uncrashed step and by
    crash + restart + reconnect + bind + re-send: EVERY operation `op`, every `k`, every re-sent command -/
theorem C10_resend_usage_equal_nousage {s : Sys} (hS : s.udb = s.udisk) (hu : s.cfg.usage = false) (op : Op)
    (k : Nat) (c' : Nat) (t : Time) (id₁ id : Val) (a σ : String) (impl ver : Option String) (cmd' : Cmd) :
    (s.step op).udb = s.udb ∧
    (resend (s.step (.crashIn k op)) c' t id₁ id a σ impl ver cmd').udb = s.udb ∧
    (resend (s.step (.crashIn k op)) c' t id₁ id a σ impl ver cmd').udb = (s.step op).udb := by
  have h0 := (C15_no_usage_db_no_writes hS hu op).1
  have key : ∀ (z : Sys) (o : Op), z.udb = z.udisk → z.cfg.usage = false →
      (z.step o).udb = z.udb ∧ (z.step o).udb = (z.step o).udisk ∧ (z.step o).cfg.usage = false := by
    intro z o h1 h2
    obtain ⟨e1, e2⟩ := C15_no_usage_db_no_writes h1 h2 o
    exact ⟨e1, e1.trans e2.symm, by rw [step_cfg]; exact h2⟩
  obtain ⟨a1, b1, c1⟩ := key s (.crashIn k op) hS hu
  obtain ⟨a2, b2, c2⟩ := key _ (.restart t) b1 c1
  obtain ⟨a3, b3, c3⟩ := key _ (.connect c') b2 c2
  obtain ⟨a4, b4, c4⟩ := key _ (.recv c' t id₁ (.bind (some a) (some σ) impl ver)) b3 c3
  obtain ⟨a5, _, _⟩ := key _ (.recv c' t id cmd') b4 c4
  have : (resend (s.step (.crashIn k op)) c' t id₁ id a σ impl ver cmd').udb = s.udb := by
    unfold resend
    rw [a5, a4, a3, a2, a1]
  exact ⟨h0, this, this.trans h0.symm⟩

/-! ## 4. `claim` -/

namespace Sys

/-- the usage database is `U` everywhere: in the connection, on disk, in every snapshot of the step -/
def USame (U : Usage) (s : Sys) : Prop := s.udb = U ∧ s.udisk = U ∧ ∀ p ∈ s.snaps, p.2 = U

variable {U : Usage}

theorem USame.commit {s : Sys} (h : USame U s) : USame U s.commit := by
  unfold Sys.commit
  split
  · exact h
  · refine ⟨h.1, h.2.1, ?_⟩
    intro p hp
    simp only [List.mem_append, List.mem_singleton] at hp
    rcases hp with hp | rfl
    · exact h.2.2 p hp
    · exact h.2.1

theorem USame.modDb {s : Sys} (h : USame U s) (f) : USame U (s.modDb f) := h
theorem USame.updConn {s : Sys} (h : USame U s) (c f) : USame U (s.updConn c f) := h
theorem USame.emit {s : Sys} (h : USame U s) (e) : USame U (s.emit e) := h
theorem USame.send {s : Sys} (h : USame U s) (c f) : USame U (s.send c f) := h
theorem USame.sendError {s : Sys} (h : USame U s) (c x) : USame U (s.sendError c x) := h
theorem USame.internalErr {s : Sys} (h : USame U s) (c x) : USame U (s.internalErr c x) := h

theorem USame.mailboxOpen {s : Sys} (h : USame U s) (mb side t) : USame U (s.mailboxOpen mb side t) := by
  unfold Sys.mailboxOpen
  split
  · exact ((h.modDb _).modDb _).commit
  · exact (h.modDb _).commit

theorem USame.addMailbox {s s1 : Sys} (h : USame U s) {app mb forNp t}
    (e : s.addMailbox app mb forNp t = some s1) : USame U s1 := by
  unfold Sys.addMailbox at e
  split at e
  · cases e; exact h
  · split at e
    · cases e
    · cases e; exact h.modDb _

theorem USame.openMailbox {s : Sys} (h : USame U s) (app mb side t) : USame U (s.openMailbox app mb side t).1 := by
  unfold Sys.openMailbox
  cases e : s.addMailbox app mb false t with
  | none => exact h
  | some s1 =>
    dsimp only
    split <;> exact ((h.addMailbox e).mailboxOpen _ _ _).commit

theorem USame.claimCont {s : Sys} (h : USame U s) (app npid mb side t) :
    USame U (claimCont s app npid mb side t).1 := by
  unfold Sys.claimCont
  dsimp only
  have h1 := h.commit.openMailbox app mb side t
  split
  · rename_i s3 e; rw [e] at h1; exact h1
  · rename_i s3 e; rw [e] at h1; exact h1
  · rename_i s3 e; rw [e] at h1; split <;> exact h1

theorem USame.claimTail {s : Sys} (h : USame U s) (app npid mb side t) :
    USame U (s.claimTail app npid mb side t).1 := by
  rw [claimTail_eq]
  split
  · exact (h.modDb _).claimCont _ _ _ _ _
  · split
    · exact h.claimCont _ _ _ _ _
    · exact h

theorem USame.claimNameplate {s : Sys} (h : USame U s) (app name side t fresh) :
    USame U (s.claimNameplate app name side t fresh).1 := by
  unfold Sys.claimNameplate
  split
  · cases e : s.addMailbox app fresh true t with
    | none => exact h
    | some s1 => exact ((h.addMailbox e).modDb _).claimTail _ _ _ _ _
  · exact h.claimTail _ _ _ _ _

/-- the usage database a crash (any `k`) leaves when it is `U` at every commit point -/
theorem crash_udb_of_uSame (s : Sys) (hS : s.Synced) (k : Nat) (op : Op)
    (h : USame s.udb (({ s with out := [], snaps := [] } : Sys).stepPlain op)) :
    (s.step (.crashIn k op)).udb = s.udb := by
  obtain ⟨p, hp, _, _, e3, _, _⟩ := GSys.step_crash_spec s k op
  rw [e3]
  rcases hp with hp | rfl | rfl
  · exact h.2.2 p hp
  · exact h.2.1
  · exact hS.2.symm

/-- the channel database a crash before the first commit leaves -/
theorem crash_zero_db (s : Sys) (op : Op) : (s.step (.crashIn 0 op)).db = s.disk := rfl

/-- `claim_nameplate` is a function of the channel database (for a generated id that is new) -/
theorem claimNameplate_det {s s' s1 s2 : Sys} {a n σ : String} {t : Time} {f m : String} {r' : ClaimRes}
    (hP : s.db.PInv) (hdb : s'.db = s.db) (hfresh : ∀ mm ∈ s.db.mailboxes, mm.id ≠ f)
    (h : s.claimNameplate a n σ t f = (s1, .ok m)) (h' : s'.claimNameplate a n σ t f = (s2, r')) :
    s2.db = s1.db ∧ r' = .ok m := by
  cases hrow : s.db.findNameplate a n with
  | none =>
    obtain ⟨e1, _, e3⟩ := claimNameplate_new hP hrow hfresh h
    obtain ⟨e1', _, e3'⟩ := claimNameplate_new (by rw [hdb]; exact hP) (by rw [hdb]; exact hrow)
      (by rw [hdb]; exact hfresh) h'
    exact ⟨by rw [e1', e1, hdb], by rw [e3', e3]⟩
  | some row =>
    rcases claimNameplate_present hP hrow h with ⟨_, _, _, _, e⟩ | ⟨hall, e1, _, e3⟩
    · cases e
    · rcases claimNameplate_present (by rw [hdb]; exact hP) (by rw [hdb]; exact hrow) h' with
        ⟨r0, hr0, hcl, _, _⟩ | ⟨_, e1', _, e3'⟩
      · rw [hdb] at hr0
        rw [hall r0 hr0] at hcl; cases hcl
      · have : s2.db = s1.db := by rw [e1', e1, hdb]
        exact ⟨this, by rw [e3', this, ← e3]⟩

end Sys

/-- **C10 (re-sent `claim`), both databases, every crash point.**  As `C10_resend_claim` (C10b) but for a
    pre-state reachable WITH crashes and ANY `k`; for `k = 0` (nothing committed: the command is lost) the
    re-sent claim must carry the same generated id, `1 ≤ k ∨ f' = fresh`.  A claim writes no usage
    `nameplates` / `mailboxes` row: these tables are EQUAL in the two runs (and equal to those before). -/
theorem C10_resend_claim_all {g : GSys} (hg : g.Reach) {c : Nat} {x : Conn} {a σ : String}
    (hx : g.sys.findConn c = some x) (happ : x.app = some a) (hside : x.side = some σ)
    {n fresh : String} (t : Time) (id : Val)
    (hw : g.WFOp (.recv c t id (.claim (some n) fresh)))
    {m : String} {b : Bool}
    (hans : Event.frame c (.claimed m) b ∈ (g.sys.step (.recv c t id (.claim (some n) fresh))).out)
    (k : Nat) (c' : Nat) (id₁ : Val) (impl ver : Option String) (f' : String) (hk : 1 ≤ k ∨ f' = fresh) :
    (g.sys.step (.recv c t id (.claim (some n) fresh))).frames =
      [.frame c (.ack id) true, .frame c (.claimed m) true] ∧
    (resend (g.sys.step (.crashIn k (.recv c t id (.claim (some n) fresh)))) c' t id₁ id a σ impl ver
      (.claim (some n) f')).frames = [.frame c' (.ack id) true, .frame c' (.claimed m) true] ∧
    (resend (g.sys.step (.crashIn k (.recv c t id (.claim (some n) fresh)))) c' t id₁ id a σ impl ver
      (.claim (some n) f')).db = (g.sys.step (.recv c t id (.claim (some n) fresh))).db ∧
    (g.sys.step (.recv c t id (.claim (some n) fresh))).udb = g.sys.udb ∧
    (resend (g.sys.step (.crashIn k (.recv c t id (.claim (some n) fresh)))) c' t id₁ id a σ impl ver
      (.claim (some n) f')).udb.nameplates = g.sys.udb.nameplates ∧
    (resend (g.sys.step (.crashIn k (.recv c t id (.claim (some n) fresh)))) c' t id₁ id a σ impl ver
      (.claim (some n) f')).udb.mailboxes = g.sys.udb.mailboxes := by
  have hI := hg.ginv
  have hP := hI.cinv.toPInv
  have hI' : (g.step (.recv c t id (.claim (some n) fresh))).GInv := hI.step _ hw
  have hIk : (g.step (.crashIn k (.recv c t id (.claim (some n) fresh)))).GInv := hI.step _ (hw.crashIn rfl k)
  -- the original
  have hr : rejectText x (.claim (some n) fresh) = none := by
    cases hr : rejectText x (.claim (some n) fresh) with
    | none => rfl
    | some text => rcases rejected_out t id hx hr _ hans with ⟨_, e⟩ | ⟨_, e⟩ <;> cases e
  obtain ⟨_, hdc, _⟩ := claim_accepted hr
  obtain ⟨s1, r, e, ⟨commits, hc, hout⟩, hdb, hsy, _⟩ := claim_step hP hI.synced hx hr happ t id
  have hrm : r = .ok m := by
    rw [hout] at hans
    simp only [List.mem_cons, List.mem_append, List.not_mem_nil, or_false] at hans
    rcases hans with h | h | h
    · cases h
    · obtain ⟨w, hw'⟩ := hc _ h; cases hw'
    · cases r <;> simp [claimAnswer] at h
      exact congrArg _ h.1.symm
  subst hrm
  rw [getD_of_side hside] at e
  have hfresh : ∀ mm ∈ g.sys.db.mailboxes, mm.id ≠ fresh := by
    intro mm hm e'
    exact hw.idFresh fresh rfl (e' ▸ hI.used mm hm)
  have hstep := step_claim_eq (s := g.sys) t id n fresh hx happ hdc
  rw [getD_of_side hside] at hstep
  generalize hX : ((({ g.sys with out := [], snaps := [] } : Sys).send c (.ack id)).updConn c
    (fun y => { y with didClaim := true, nameplateId := some n })) = X at e hstep
  have hX0 : X.db = g.sys.db := by rw [← hX]; rfl
  have hXsn : X.snaps = [] := by rw [← hX]; rfl
  have hXU : USame g.sys.udb X := by rw [← hX]; exact ⟨rfl, hI.synced.2.symm, fun p hp => absurd hp List.not_mem_nil⟩
  obtain ⟨D1, row, hrow, hrm, hrside, hfin, hres, hsnap⟩ :=
    claimNameplate_mid (s := X) (by rw [hX0]; exact hP) (by rw [hX0]; exact hfresh) e
  have hframes := frames_of_answer hc (by rfl) hout
  refine ⟨hframes, ?_⟩
  have hplain : ({ g.sys with out := [], snaps := [] } : Sys).stepPlain (.recv c t id (.claim (some n) fresh)) =
      s1.send c (.claimed m) := by
    rw [e] at hstep; exact hstep
  -- the commit points of the uncrashed run
  have hall : DbAll (fun d => d = D1 ∨ d = s1.db)
      (({ g.sys with out := [], snaps := [] } : Sys).stepPlain (.recv c t id (.claim (some n) fresh))) := by
    rw [hplain]
    refine ⟨Or.inr ?_, ?_⟩
    · show s1.disk = s1.db
      have := hsy.1
      rw [hdb] at this
      have h2 : (g.sys.step (.recv c t id (.claim (some n) fresh))).disk = s1.disk := by
        show (({ g.sys with out := [], snaps := [] } : Sys).stepPlain _).disk = _
        rw [hplain]; rfl
      rw [h2] at this
      exact this.symm
    · intro p hp
      rcases hsnap p hp with h | h
      · rw [hXsn] at h; exact absurd h List.not_mem_nil
      · exact h
  have hUall : USame g.sys.udb
      (({ g.sys with out := [], snaps := [] } : Sys).stepPlain (.recv c t id (.claim (some n) fresh))) := by
    rw [hplain]
    have := hXU.claimNameplate a n σ t fresh
    rw [e] at this
    exact this.send _ _
  have hcrash : (g.sys.step (.crashIn k (.recv c t id (.claim (some n) fresh)))).db = g.sys.db ∧ k = 0 ∨
      (g.sys.step (.crashIn k (.recv c t id (.claim (some n) fresh)))).db = D1 ∨
      (g.sys.step (.crashIn k (.recv c t id (.claim (some n) fresh)))).db = s1.db := by
    cases k with
    | zero => exact Or.inl ⟨(crash_zero_db _ _).trans hI.synced.1.symm, rfl⟩
    | succ k' => exact Or.inr (crash_db_of_dbAll g.sys (by omega) _ hall)
  have hcrashU := crash_udb_of_uSame g.sys hI.synced k _ hUall
  have hudb1 : (g.sys.step (.recv c t id (.claim (some n) fresh))).udb = g.sys.udb := hUall.1
  -- the re-send
  generalize hsk : g.sys.step (.crashIn k (.recv c t id (.claim (some n) fresh))) = sk at hcrash hcrashU ⊢
  have hSk : sk.Synced := by rw [← hsk]; exact hIk.synced
  have hPk : sk.db.PInv := by rw [← hsk]; exact hIk.cinv.toPInv
  obtain ⟨hRdb, hRsy, hRconns, _, hR⟩ := resend_ready hSk c' t id₁ a σ impl ver
  obtain ⟨hbn, hbm⟩ := resend_bound_udb hSk c' t id₁ a σ impl ver
  have hf : ∀ y ∈ (sk.step (.restart t)).conns, y.id ≠ c' := by rw [hRconns]; simp
  have hxb := hR.findConn hf
  have hSb := hR.synced hRsy
  generalize hsb : ((sk.step (.restart t)).step (.connect c')).step
      (.recv c' t id₁ (.bind (some a) (some σ) impl ver)) = sb at hR hbn hbm hxb hSb
  have hPb : sb.db.PInv := by rw [hR.db, hRdb]; exact hPk
  have hrb : rejectText (dupConn c' a σ) (.claim (some n) f') = none := by simp [rejectText, needBind, dupConn]
  obtain ⟨s2, r', e', ⟨commits', hc', hout'⟩, hdb', _, _⟩ :=
    claim_step hPb hSb hxb (name := n) (fresh := f') hrb (app := a) rfl t id
  have hside' : (dupConn c' a σ).side.getD "" = σ := rfl
  rw [hside'] at e'
  have hstep' := step_claim_eq (s := sb) t id n f' hxb (a := a) rfl (by rfl)
  rw [hside'] at hstep'
  generalize hX' : ((({ sb with out := [], snaps := [] } : Sys).send c' (.ack id)).updConn c'
        (fun y => { y with didClaim := true, nameplateId := some n })) = X' at e' hstep'
  have hXdb : X'.db = sk.db := by
    rw [← hX']
    show sb.db = sk.db
    rw [hR.db, hRdb]
  have hXU' : USame sb.udb X' := by rw [← hX']; exact ⟨rfl, hSb.2.symm, fun p hp => absurd hp List.not_mem_nil⟩
  have hudb2 : (sb.step (.recv c' t id (.claim (some n) f'))).udb = sb.udb := by
    rw [hstep']
    have := hXU'.claimNameplate a n σ t f'
    have h3 : ∀ (q : Sys × ClaimRes), USame sb.udb q.1 →
        (match q with
          | (s1, .ok mb) => s1.send c' (.claimed mb)
          | (s1, .crowded) => s1.sendError c' "crowded"
          | (s1, .reclaimed) => s1.sendError c' "reclaimed"
          | (s1, .integrity) => s1.internalErr c' "IntegrityError").udb = sb.udb := by
      rintro ⟨q1, q2⟩ hq
      cases q2 <;> exact hq.1
    exact h3 _ this
  have key : s2.db = s1.db ∧ r' = .ok m := by
    rcases hcrash with ⟨hD, hk0⟩ | hD | hD
    · have hff : f' = fresh := by
        rcases hk with hk | hk
        · omega
        · exact hk
      subst hff
      exact claimNameplate_det (s := X) (s' := X') (by rw [hX0]; exact hP) (by rw [hXdb, hD, hX0])
        (by rw [hX0]; exact hfresh) e e'
    · obtain ⟨k1, k2, _⟩ := claimNameplate_from_mid (by rw [hXdb]; exact hPk) (hXdb.trans hD) hrow hrm hrside
        (by rw [← hfin]; exact hres) e'
      exact ⟨k1.trans hfin.symm, k2⟩
    · have hP1 : s1.db.PInv := by rw [← hdb]; exact hI'.cinv.toPInv
      have hD1 := claimNameplate_ok_done hP1 e
      obtain ⟨s2', e2, k1, _⟩ := claimNameplate_again (by rw [hXdb]; exact hPk)
        (by rw [hXdb, hD]; exact hD1) f'
      rw [e'] at e2
      cases e2
      exact ⟨k1.trans (hXdb.trans hD), rfl⟩
  obtain ⟨k1, k2⟩ := key
  subst k2
  have hresend : resend sk c' t id₁ id a σ impl ver (.claim (some n) f') =
      sb.step (.recv c' t id (.claim (some n) f')) := by unfold resend; rw [hsb]
  rw [hresend]
  exact ⟨frames_of_answer hc' (by rfl) hout', by rw [hdb', k1, hdb], hudb1,
    by rw [hudb2, hbn, hcrashU], by rw [hudb2, hbm, hcrashU]⟩


/-! ## 5. `open` -/

namespace Sys

variable {U : Usage}

theorem USame.foldl_send {α : Type} (g : α → Nat) (fr : α → Frame) (l : List α) :
    ∀ {s : Sys}, USame U s → USame U (l.foldl (fun s a => s.send (g a) (fr a)) s) := by
  induction l with
  | nil => intro s h; exact h
  | cons a l ih => intro s h; exact ih (h.send _ _)

theorem USame.handleOpen {s : Sys} (h : USame U s) (x : Conn) (app side : String) (t : Time) (m : Option String) :
    USame U (s.handleOpen x app side t m) := by
  unfold Sys.handleOpen
  split
  · exact h.sendError _ _
  · split
    · exact h.sendError _ _
    · rename_i mb
      dsimp only
      have h1 := (h.updConn x.id (fun y => { y with mailboxId := some mb })).openMailbox app mb side t
      split
      · rename_i s1 e; rw [e] at h1; exact h1.sendError _ _
      · rename_i s1 e; rw [e] at h1; exact h1.internalErr _ _
      · rename_i s1 e; rw [e] at h1
        unfold Sys.replay
        exact USame.foldl_send _ _ _ (h1.updConn _ _)

/-- an `open` by a bound connection writes nothing to the usage database, at any commit point -/
theorem open_uSame {s : Sys} (hS : s.Synced) {c : Nat} {x : Conn} (hx : s.findConn c = some x) {a : String}
    (happ : x.app = some a) (t : Time) (id : Val) (mo : Option String) :
    USame s.udb (({ s with out := [], snaps := [] } : Sys).stepPlain (.recv c t id (.open_ mo))) := by
  have hstep : ({ s with out := [], snaps := [] } : Sys).stepPlain (.recv c t id (.open_ mo)) =
      (({ s with out := [], snaps := [] } : Sys).send c (.ack id)).handleOpen x a (x.side.getD "") t mo := by
    show ({ s with out := [], snaps := [] } : Sys).onMessage c t id (.open_ mo) = _
    unfold onMessage
    have : ({ s with out := [], snaps := [] } : Sys).findConn c = some x := hx
    simp only [this, happ]
  rw [hstep]
  have h0 : USame s.udb ({ s with out := [], snaps := [] } : Sys) :=
    ⟨rfl, hS.2.symm, fun p hp => absurd hp List.not_mem_nil⟩
  exact (h0.send c (.ack id)).handleOpen x a (x.side.getD "") t mo

/-- the database a crash leaves (ANY `k`) satisfies every property of the database before and of all
    commit points of the uncrashed run -/
theorem crash_db_of_dbAll_any {P : Chan → Prop} (s : Sys) (hS : s.Synced) (k : Nat) (op : Op) (h0 : P s.db)
    (h : DbAll P (({ s with out := [], snaps := [] } : Sys).stepPlain op)) : P (s.step (.crashIn k op)).db :=
  crash_pair_of_pairAll (P := fun d _ => P d) s hS k op h0 ⟨h.1, h.2⟩

end Sys

/-- **C10 (re-sent `open`), both databases, every crash point.**  As `C10_resend_open` (C10b) for a
    pre-state reachable WITH crashes and ANY `k`.  An `open` writes no usage `nameplates` / `mailboxes` row. -/
theorem C10_resend_open_all {g : GSys} (hg : g.Reach) {c : Nat} {x : Conn} {a σ : String}
    (hx : g.sys.findConn c = some x) (happ : x.app = some a) (hside : x.side = some σ)
    {mb : String} (t : Time) (id : Val) (hw : g.WFOp (.recv c t id (.open_ (some mb))))
    (hans : ∀ e ∈ (g.sys.step (.recv c t id (.open_ (some mb)))).out, e.isFailure = false)
    (k : Nat) (c' : Nat) (id₁ : Val) (impl ver : Option String) :
    (g.sys.step (.recv c t id (.open_ (some mb)))).frames =
      .frame c (.ack id) true :: replayFrames (g.sys.step (.recv c t id (.open_ (some mb)))).db c a mb ∧
    (resend (g.sys.step (.crashIn k (.recv c t id (.open_ (some mb))))) c' t id₁ id a σ impl ver
      (.open_ (some mb))).frames =
      .frame c' (.ack id) true :: replayFrames (g.sys.step (.recv c t id (.open_ (some mb)))).db c' a mb ∧
    (resend (g.sys.step (.crashIn k (.recv c t id (.open_ (some mb))))) c' t id₁ id a σ impl ver
      (.open_ (some mb))).db = (g.sys.step (.recv c t id (.open_ (some mb)))).db ∧
    (g.sys.step (.recv c t id (.open_ (some mb)))).udb = g.sys.udb ∧
    (resend (g.sys.step (.crashIn k (.recv c t id (.open_ (some mb))))) c' t id₁ id a σ impl ver
      (.open_ (some mb))).udb.nameplates = g.sys.udb.nameplates ∧
    (resend (g.sys.step (.crashIn k (.recv c t id (.open_ (some mb))))) c' t id₁ id a σ impl ver
      (.open_ (some mb))).udb.mailboxes = g.sys.udb.mailboxes := by
  have hI := hg.ginv
  have hP := hI.cinv.toPInv
  have hIk : (g.step (.crashIn k (.recv c t id (.open_ (some mb))))).GInv := hI.step _ (hw.crashIn rfl k)
  have hr : rejectText x (.open_ (some mb)) = none := by
    cases hr : rejectText x (.open_ (some mb)) with
    | none => rfl
    | some text =>
      exfalso
      have h1 := (C17_validation_error t id hx (rejected_of_rejectText hr)).1
      have := hans (.frame c (.error text) g.sys.synced) (by rw [h1]; simp)
      simp [Event.isFailure] at this
  obtain ⟨m, hm, hdb, hlen, commits, hc, hout⟩ := orig_open hI hx happ hside hans
  cases hm
  have hfr : ∀ (z : Sys) (cc : Nat) (cm : List Event) (d : Chan), (∀ e ∈ cm, IsCommit e) →
      z.out = .frame cc (.ack id) true :: (cm ++ replayFrames d cc a mb) →
      z.frames = .frame cc (.ack id) true :: replayFrames d cc a mb := by
    intro z cc cm d h1 h2
    unfold Sys.frames
    rw [h2]
    exact filter_isFrame_answer h1 (replayFrames_isFrame d cc a mb)
  refine ⟨hfr _ c commits _ hc hout, ?_⟩
  have hcp := open_commit_points hP hI.synced hx hr happ t id
    (P := fun d => d = g.sys.db ∨ d = g.sys.db.openDb a mb σ t) (Or.inl rfl)
    (Or.inr (by rw [getD_of_side hside]))
  have hcrash := crash_db_of_dbAll_any g.sys hI.synced k _ (Or.inl rfl) hcp
  have hUall := open_uSame hI.synced hx happ t id (some mb)
  have hcrashU := crash_udb_of_uSame g.sys hI.synced k _ hUall
  have hudb1 : (g.sys.step (.recv c t id (.open_ (some mb)))).udb = g.sys.udb := hUall.1
  -- what the answer of the original says about the database before
  have hnc : ¬ g.sys.db.Clash a mb := by
    intro hcl
    obtain ⟨h1, _, _⟩ := open_step hP hI.synced hx hr happ t id
    have := hans (.internal (some c) "IntegrityError") (by rw [(h1 hcl).1]; simp)
    simp [Event.isFailure] at this
  generalize hsk : g.sys.step (.crashIn k (.recv c t id (.open_ (some mb)))) = sk at hcrash hcrashU ⊢
  have hSk : sk.Synced := by rw [← hsk]; exact hIk.synced
  have hPk : sk.db.PInv := by rw [← hsk]; exact hIk.cinv.toPInv
  obtain ⟨hRdb, hRsy, hRconns, _, hR⟩ := resend_ready hSk c' t id₁ a σ impl ver
  obtain ⟨hbn, hbm⟩ := resend_bound_udb hSk c' t id₁ a σ impl ver
  have hf : ∀ y ∈ (sk.step (.restart t)).conns, y.id ≠ c' := by rw [hRconns]; simp
  have hxb := hR.findConn hf
  have hSb := hR.synced hRsy
  generalize hsb : ((sk.step (.restart t)).step (.connect c')).step
      (.recv c' t id₁ (.bind (some a) (some σ) impl ver)) = sb at hR hbn hbm hxb hSb
  obtain ⟨_, _, h3⟩ := open_step (by rw [hR.db, hRdb]; exact hPk) hSb hxb (mb := mb)
    (by simp [rejectText, needBind, dupConn]) (app := a) rfl t id
  have hside' : (dupConn c' a σ).side.getD "" = σ := rfl
  rw [hside', hR.db, hRdb] at h3
  have hopen : sk.db.openDb a mb σ t = g.sys.db.openDb a mb σ t ∧ ¬ sk.db.Clash a mb := by
    rcases hcrash with h | h
    · rw [h]; exact ⟨rfl, hnc⟩
    · rw [h]
      exact ⟨Chan.openDb_idem _ _ _ _ _, fun hcl => hcl.2 (Chan.openDb_hasBox _ _ _ _ _)⟩
  rw [hopen.1] at h3
  obtain ⟨⟨commits', hc', hout'⟩, hdb', _⟩ := h3 hopen.2 (by rw [← hdb]; omega)
  have hudb2 : (sb.step (.recv c' t id (.open_ (some mb)))).udb = sb.udb :=
    (open_uSame hSb hxb (a := a) rfl t id (some mb)).1
  have hresend : resend sk c' t id₁ id a σ impl ver (.open_ (some mb)) =
      sb.step (.recv c' t id (.open_ (some mb))) := by unfold resend; rw [hsb]
  rw [hresend, hdb]
  exact ⟨hfr _ c' commits' _ hc' hout', hdb', hudb1, by rw [hudb2, hbn, hcrashU], by rw [hudb2, hbm, hcrashU]⟩


/-! ## 6. `close` -/

namespace Sys

theorem storeNameplateUsage_frame {s s1 : Sys} {app sides t p b}
    (h : s.storeNameplateUsage app sides t p = (s1, b)) :
    s1.disk = s.disk ∧ s1.udisk = s.udisk ∧ s1.snaps = s.snaps ∧ s1.db = s.db ∧ s1.cfg = s.cfg := by
  unfold storeNameplateUsage at h
  split at h <;>
  · simp only [Prod.mk.injEq] at h
    obtain ⟨rfl, rfl⟩ := h
    exact ⟨rfl, rfl, rfl, rfl, rfl⟩

theorem storeNameplatesOfMailbox_frame {app t} (l : List Nameplate) :
    ∀ {s s1 : Sys} {b}, s.storeNameplatesOfMailbox app t l = (s1, b) →
      s1.disk = s.disk ∧ s1.udisk = s.udisk ∧ s1.snaps = s.snaps ∧ s1.db = s.db ∧ s1.cfg = s.cfg := by
  induction l with
  | nil =>
    intro s s1 b h
    simp only [storeNameplatesOfMailbox, Prod.mk.injEq] at h
    obtain ⟨rfl, rfl⟩ := h
    exact ⟨rfl, rfl, rfl, rfl, rfl⟩
  | cons np rest ih =>
    intro s s1 b h
    unfold storeNameplatesOfMailbox at h
    split at h
    · rename_i s0 e
      simp only [Prod.mk.injEq] at h
      obtain ⟨rfl, rfl⟩ := h
      exact storeNameplateUsage_frame e
    · rename_i s0 e
      obtain ⟨a1, a2, a3, a4, a5⟩ := storeNameplateUsage_frame e
      obtain ⟨b1, b2, b3, b4, b5⟩ := ih h
      exact ⟨b1.trans a1, b2.trans a2, b3.trans a3, b4.trans a4, b5.trans a5⟩

theorem PairAll.modDb {P} {s : Sys} (h : PairAll P s) (f) : PairAll P (s.modDb f) := h
theorem PairAll.modUdb {P} {s : Sys} (h : PairAll P s) (f) : PairAll P (s.modUdb f) := h
theorem PairAll.updConn {P} {s : Sys} (h : PairAll P s) (c f) : PairAll P (s.updConn c f) := h
theorem PairAll.emit {P} {s : Sys} (h : PairAll P s) (e) : PairAll P (s.emit e) := h
theorem PairAll.send {P} {s : Sys} (h : PairAll P s) (c f) : PairAll P (s.send c f) := h
theorem PairAll.sendError {P} {s : Sys} (h : PairAll P s) (c x) : PairAll P (s.sendError c x) := h
theorem PairAll.internalErr {P} {s : Sys} (h : PairAll P s) (c x) : PairAll P (s.internalErr c x) := h
theorem PairAll.stopListeners {P} {s : Sys} (h : PairAll P s) (a m) : PairAll P (s.stopListeners a m) := h
theorem PairAll.storeMailboxUsage {P} {s : Sys} (h : PairAll P s) (a f sd t p) :
    PairAll P (s.storeMailboxUsage a f sd t p) := h

theorem mailboxClose_pairAll {P} {s s1 : Sys} {app mb side mood t b}
    (h : s.mailboxClose app mb side mood t = (s1, b)) (hA : PairAll P s) (hsy : s.udb = s.udisk)
    (h1 : P (s.db.closeSide mb side mood) s.udb) (h2 : P (s.db.closeSide mb side mood) s1.udb)
    (h3 : P s1.db s1.udb) : PairAll P s1 := by
  unfold mailboxClose at h
  split at h
  · simp only [Prod.mk.injEq] at h
    obtain ⟨rfl, rfl⟩ := h
    exact hA
  · split at h
    · simp only [Prod.mk.injEq] at h
      obtain ⟨rfl, rfl⟩ := h
      exact hA
    · have hc : PairAll P ((s.modDb (·.closeSide mb side mood)).commit) :=
        PairAll.commit (s := s.modDb (·.closeSide mb side mood)) hA (by show P _ s.udisk; rw [← hsy]; exact h1)
      dsimp only at h
      split at h
      · simp only [Prod.mk.injEq] at h
        obtain ⟨rfl, rfl⟩ := h
        exact hc
      · cases hu : s.cfg.usage with
        | false =>
          simp only [commit_cfg, modDb_cfg, hu, Bool.false_eq_true, if_false, Bool.not_true] at h
          simp only [Prod.mk.injEq] at h
          obtain ⟨rfl, rfl⟩ := h
          simp only [stopListeners_db, commit_db, stopListeners_udb, commit_udb, modDb_udb, modDb_db] at h2 h3
          refine PairAll.stopListeners (PairAll.commit (hc.modDb _) ?_) _ _
          simp only [modDb_db, commit_db, modDb_udisk, commit_udisk]
          rw [← hsy]; exact h3
        | true =>
          simp only [commit_cfg, modDb_cfg, hu, if_true] at h
          cases hE : ((s.modDb (·.closeSide mb side mood)).commit).storeNameplatesOfMailbox app t
              (((s.modDb (·.closeSide mb side mood)).commit).db.nameplatesOfMailbox app mb) with
          | mk s2 ok =>
            obtain ⟨f1, f2, f3, f4, f5⟩ := storeNameplatesOfMailbox_frame _ hE
            have h2' : PairAll P s2 := hc.of_eq f1 f2 f3
            rw [hE] at h
            dsimp only at h
            cases ok with
            | false =>
              simp only [Bool.not_false, if_true, Prod.mk.injEq] at h
              obtain ⟨rfl, rfl⟩ := h
              exact h2'
            | true =>
              have hu2 : s2.cfg.usage = true := by rw [f5]; simpa using hu
              simp only [Bool.not_true, Bool.false_eq_true, if_false, hu2, if_true, Prod.mk.injEq] at h
              obtain ⟨rfl, rfl⟩ := h
              simp only [stopListeners_db, commit_db, stopListeners_udb, commit_udb, ucommit_udb, ucommit_db] at h2 h3
              refine PairAll.stopListeners (PairAll.commit (PairAll.ucommit ((h2'.modDb _).storeMailboxUsage _ _ _ _ _) ?_) ?_) _ _
              · have : ∀ f a b c, ((s2.modDb f).storeMailboxUsage app a b c false).disk = s.db.closeSide mb side mood := by
                  intro f a b c
                  show s2.disk = _; rw [f1]; simp
                rw [this]
                simp only [commit_db]
                exact h2
              · simp only [ucommit_db, ucommit_udisk, commit_db]
                exact h3

theorem addMailbox_frame {s s1 : Sys} {app mb forNp t} (h : s.addMailbox app mb forNp t = some s1) :
    s1.disk = s.disk ∧ s1.udisk = s.udisk ∧ s1.snaps = s.snaps := by
  unfold addMailbox at h
  split at h
  · cases h; exact ⟨rfl, rfl, rfl⟩
  · split at h
    · cases h
    · cases h; exact ⟨rfl, rfl, rfl⟩

theorem mailboxOpen_udisk' (s : Sys) (mb side : String) (t : Time) : (s.mailboxOpen mb side t).udisk = s.udisk := by
  unfold mailboxOpen; split <;> simp

theorem mailboxOpen_pairAll {P} (s : Sys) (mb side : String) (t : Time) (hA : PairAll P s)
    (hp : P (s.mailboxOpen mb side t).db s.udisk) : PairAll P (s.mailboxOpen mb side t) := by
  unfold mailboxOpen at hp ⊢
  split at hp <;> simp only [commit_db] at hp
  · exact PairAll.commit ((hA.modDb _).modDb _) hp
  · exact PairAll.commit (hA.modDb _) hp

/-- `open_mailbox` commits the channel database only: every new commit point pairs the final channel
    database with the usage database on disk before -/
theorem openMailbox_pairAll {P} {s s1 : Sys} {app mb side t r} (h : s.openMailbox app mb side t = (s1, r))
    (hA : PairAll P s) (hp : P s1.db s.udisk) : PairAll P s1 := by
  unfold openMailbox at h
  split at h
  · simp only [Prod.mk.injEq] at h
    obtain ⟨rfl, rfl⟩ := h
    exact hA
  · rename_i s0 e
    obtain ⟨f1, f2, f3⟩ := addMailbox_frame e
    have h0 : PairAll P s0 := hA.of_eq f1 f2 f3
    dsimp only at h
    split at h <;>
    · simp only [Prod.mk.injEq] at h
      obtain ⟨rfl, rfl⟩ := h
      rw [commit_db] at hp
      refine PairAll.commit (mailboxOpen_pairAll _ _ _ _ h0 (by rw [f2]; exact hp)) ?_
      rw [mailboxOpen_udisk', f2]; exact hp


/-- **the commit points of an accepted `close` acting on mailbox `m`, as pairs**: the state before;
    after the implicit `open_mailbox` (`closePre`) with the usage database of before; after the UPDATE that
    closes the side's row, usage as before; THE SAME CHANNEL STATE WITH THE FINAL USAGE DATABASE (the usage
    commit precedes the channel commit); the final pair -/
theorem close_pair_points {s : Sys} (hP : s.db.PInv) (hS : s.Synced) {c : Nat} {x : Conn}
    (hx : s.findConn c = some x) {mo mood : Option String}
    (hr : rejectText x (.close mo mood) = none) {a : String} (happ : x.app = some a) {m : String}
    (htg : x.closeTarget mo = some m) (t : Time) (id : Val) {P : Chan → Usage → Prop} (h0 : P s.db s.udb)
    (h1 : P (closePre s x a m t) s.udb) (h2 : P ((closePre s x a m t).closeSide m (x.side.getD "") mood) s.udb)
    (h3 : P ((closePre s x a m t).closeSide m (x.side.getD "") mood) (s.step (.recv c t id (.close mo mood))).udb)
    (h4 : P (s.step (.recv c t id (.close mo mood))).db (s.step (.recv c t id (.close mo mood))).udb) :
    PairAll P (({ s with out := [], snaps := [] } : Sys).stepPlain (.recv c t id (.close mo mood))) := by
  obtain ⟨_, _, ⟨mb, hn⟩, _⟩ := close_accepted hr
  have hstep := step_close_eq (s := s) (t := t) (id := id) hx hr happ hn
  have hpl : ({ s with out := [], snaps := [] } : Sys).stepPlain (.recv c t id (.close mo mood)) =
      s.step (.recv c t id (.close mo mood)) := rfl
  rw [hpl, hstep]
  rw [hstep] at h3 h4
  generalize hA : (({ s with out := [], snaps := [] } : Sys).send c (.ack id)) = sA at h3 h4 ⊢
  have hAdb : sA.db = s.db := by rw [← hA]; rfl
  have hAdisk : sA.disk = s.disk := by rw [← hA]; rfl
  have hAudb : sA.udb = s.udb := by rw [← hA]; rfl
  have hAudisk : sA.udisk = s.udisk := by rw [← hA]; rfl
  have hAsnaps : sA.snaps = [] := by rw [← hA]; rfl
  have hA0 : PairAll P sA :=
    ⟨by rw [hAdisk, hAudisk, ← hS.1, ← hS.2]; exact h0, by rw [hAsnaps]; simp⟩
  cases hh : x.mailbox with
  | some h =>
    have htgt : m = h := by simp [Conn.closeTarget, hh] at htg; exact htg.symm
    subst htgt
    have hpre : closePre s x a m t = s.db := by simp [closePre, hh]
    rw [hpre] at h2 h3
    simp only [closeGo, hh] at h3 h4 ⊢
    cases e : (sA.updConn x.id (fun y => { y with listening := false, didClose := true })).mailboxClose
        a m (x.side.getD "") mood t with
    | mk s3 b =>
      rw [e] at h3 h4
      have h3' : P (s.db.closeSide m (x.side.getD "") mood) s3.udb := by cases b <;> exact h3
      have h4' : P s3.db s3.udb := by cases b <;> exact h4
      have hd := mailboxClose_pairAll e (P := P) (hA0.updConn _ _)
        (by show sA.udb = sA.udisk; rw [hAudb, hAudisk]; exact hS.2)
        (by show P (sA.db.closeSide _ _ _) sA.udb; rw [hAdb, hAudb]; exact h2)
        (by show P (sA.db.closeSide _ _ _) s3.udb; rw [hAdb]; exact h3') h4'
      cases b
      · exact hd.internalErr _ _
      · exact (hd.updConn _ _).send _ _
  | none =>
    have htgt : mb = m := by
      simp only [Conn.closeTarget, hh] at htg
      rw [hn] at htg; cases htg; rfl
    subst htgt
    have hpre : closePre s x a mb t = s.db.openDb a mb (x.side.getD "") t := by simp [closePre, hh]
    rw [hpre] at h1 h2 h3
    cases e : sA.openMailbox a mb (x.side.getD "") t with
    | mk s1 r =>
      obtain ⟨_, hsame, hne, _⟩ := openMailbox_exact (by rw [hAdb]; exact hP) e
      rw [hAdb] at hne
      have h1' : PairAll P s1 := by
        by_cases hri : r = .integrity
        · rw [hsame hri]; exact hA0
        · exact openMailbox_pairAll e hA0 (by rw [(hne hri).1, hAudisk, ← hS.2]; exact h1)
      simp only [closeGo, hh, e] at h3 h4 ⊢
      cases r with
      | integrity => exact (h1'.updConn _ _).internalErr _ _
      | crowded => exact (h1'.updConn _ _).sendError _ _
      | ok =>
        simp only [if_true] at h3 h4 ⊢
        obtain ⟨hdb1, _, hrest⟩ := hne (by simp)
        cases e2 : ((s1.updConn x.id (fun y => { y with mailbox := some mb })).updConn x.id
            (fun y => { y with listening := false, didClose := true })).mailboxClose a mb (x.side.getD "") mood t with
        | mk s3 b =>
          rw [e2] at h3 h4
          have h3' : P ((s.db.openDb a mb (x.side.getD "") t).closeSide mb (x.side.getD "") mood) s3.udb := by
            cases b <;> exact h3
          have h4' : P s3.db s3.udb := by cases b <;> exact h4
          have hd := mailboxClose_pairAll e2 (P := P) ((h1'.updConn _ _).updConn _ _)
            (by show s1.udb = s1.udisk; rw [hrest.udb, hrest.udisk, hAudb, hAudisk]; exact hS.2)
            (by show P (s1.db.closeSide _ _ _) s1.udb; rw [hdb1, hrest.udb, hAudb]; exact h2)
            (by show P (s1.db.closeSide _ _ _) s3.udb; rw [hdb1]; exact h3') h4'
          cases b
          · exact hd.internalErr _ _
          · exact (hd.updConn _ _).send _ _

end Sys

end Wormhole
