/-
  REFINEMENT: the server with its registry of Python objects (`RSys`, Wormhole/Reg.lean:
  `Server._apps`, `AppNamespace._mailboxes`, `Mailbox._listeners`, connections holding Mailbox
  OBJECTS) refines the object-free model `Sys`.

  * `RSys.abs`                 forget the registry (a held object becomes its `_mailbox_id`);
  * `RSys.RegInv`              the registry invariant (Inv/RegInv.lean);
  * `rstep_refines`            one operation, from any state with `RegInv` whose abstraction satisfies
                               the `Sys`-side invariant `Full` (what `GInv` gives for the cleared state);
  * `RSys.Sim.step`, `Reg_refines_Sys_from`, `Reg_refines_Sys`
                               along every well-formed history: `RegInv` is kept, `abs (rrun …)` IS
                               `run (abs …)` on cfg/db/disk/udb/udisk/conns/rebooted/snaps, and the traces
                               are equal up to the order of the recipients inside each broadcast batch
                               (`TraceEq`, Inv/RegTrace.lean) -- the orders themselves need not coincide
                               (`Reg_broadcast_order_differs`);
  * `Reg_dump_stats_counts`, `Reg_sweep_touches`   the two corollaries about `dump_stats` and the touch loop;
  * `Reg_cached_counterexample`  the code BEFORE repair 977dbc8 (connection caches its AppNamespace) does
                               NOT refine `Sys`; `Reg_nostop_counterexample` likewise before 26fcad5.
-/
import Wormhole.Inv.RegSweep
import Wormhole.Inv.Main
import Wormhole.Inv.WFDec

set_option linter.unusedSimpArgs false

namespace Wormhole
namespace RSys

/-- the server just started on empty databases -/
def init (cfg : Cfg) (rb : Time) : RSys := { core := { cfg := cfg, rebooted := rb } }

theorem abs_init (cfg : Cfg) (rb : Time) : (init cfg rb).abs = (GSys.init cfg rb).sys := rfl

/-- **`RegInv` holds initially** -/
theorem RegInv.init (cfg : Cfg) (rb : Time) : (RSys.init cfg rb).RegInv := by
  refine ⟨?_, ?_, ?_, ?_, ?_, ?_, ?_, ?_, ?_, ?_, ?_, ?_, ?_, ?_, ?_, ?_⟩ <;> simp [RSys.init]

section step
variable {U : String → Prop} {t : Time} {S : Prop}

theorem coherent_of_full {r : RSys} (h : r.RegInv) (hF : r.abs.Full U t S) : r.Coherent := by
  intro x hx
  have hmem : absConn r.mbs x ∈ r.abs.conns := List.mem_map.2 ⟨x, hx, rfl⟩
  obtain ⟨hok, _⟩ := hF.conn _ hmem
  have e := absConn_mailbox_isSome h hx
  constructor
  · intro hm; exact hok.hl (by rw [e]; exact hm)
  · intro hl; rw [← e]; exact hok.lm hl

/-- one plain operation -/
theorem stepPlain_spec {r : RSys} (h : r.RegInv) (hF : r.abs.Full U t S) (op : Op)
    (hconn : ∀ c, op = .connect c → ∀ x ∈ r.conns, x.id ≠ c) (hnow : ∀ now f, op = .sweep now f → now ≤ t) :
    (r.stepPlain .fixed op).RegInv ∧ OutEq (r.stepPlain .fixed op).abs (r.abs.stepPlain op) := by
  have hcoh := coherent_of_full h hF
  cases op with
  | connect c =>
    obtain ⟨k1, k2⟩ := connect_spec h c (hconn c rfl)
    exact ⟨k1, .of_eq k2⟩
  | recv c t' id cmd => exact onMessage_spec h hcoh c t' id cmd
  | drop c =>
    obtain ⟨k1, k2⟩ := dropConn_spec h c
    exact ⟨k1, .of_eq k2⟩
  | sweep now fault =>
    obtain ⟨k1, k2⟩ := expire_spec h hF.good (fun x hx hl => (hcoh x hx).2 hl) (hnow now fault rfl) fault
    exact ⟨k1, .of_eq k2⟩
  | restart t' =>
    obtain ⟨k1, k2⟩ := restart_spec r t'
    exact ⟨k1, .of_eq k2⟩
  | crashIn k op' => exact ⟨h, .refl _⟩

theorem _root_.Wormhole.OutEq.crashTo {a b : Sys} (h : OutEq a b) (p : Chan × Usage) : OutEq (a.crashTo p) (b.crashTo p) := by
  obtain ⟨h1, _, _, _, _, _, h7, h8⟩ := h.fields
  refine ⟨?_, h.out⟩
  unfold Sys.crashTo
  simp only [Sys.mk.injEq]
  exact ⟨h1, trivial, trivial, trivial, trivial, trivial, h7, trivial, h8⟩

theorem _root_.Wormhole.OutEq.withOut {a b : Sys} (h : OutEq a b) {o o' : List Event} (ho : TraceEq o o') :
    OutEq { a with out := o } { b with out := o' } := ⟨h.rest, ho⟩

/-- the connection-freshness part of `GSys.WFOp`, on the registry state -/
def ConnFresh (r : RSys) (op : Op) : Prop :=
  (∀ c, op = .connect c → ∀ x ∈ r.conns, x.id ≠ c) ∧
  (∀ k op' c, op = .crashIn k op' → op' = .connect c → ∀ x ∈ r.conns, x.id ≠ c)

/-- **REFINEMENT, one operation.**  From a state with `RegInv` whose abstraction (with the events of
    the previous step cleared) satisfies the `Sys`-side invariant: `RegInv` is kept, and `abs` of the
    result is the result of `Sys.step` on `abs` -- exactly on cfg, db, disk, udb, udisk, conns,
    rebooted, snaps, and up to the order inside a broadcast batch on `out`. -/
theorem rstep_refines {r : RSys} (h : r.RegInv)
    (hF : ({ r.abs with out := [], snaps := [] } : Sys).Full U t S) (op : Op) (hfresh : r.ConnFresh op)
    (hnow : ∀ t', op.time? = some t' → t' ≤ t) :
    (rstep r op).RegInv ∧ OutEq (rstep r op).abs (r.abs.step op) := by
  have h0 : (r.onCore (fun s => { s with out := [], snaps := [] })).RegInv := h.onCore _
  have a0 : (r.onCore (fun s => { s with out := [], snaps := [] })).abs = { r.abs with out := [], snaps := [] } := rfl
  have plain : ∀ op' : Op, (∀ c, op' = .connect c → ∀ x ∈ r.conns, x.id ≠ c) →
      (∀ now f, op' = .sweep now f → now ≤ t) →
      ((r.onCore (fun s => { s with out := [], snaps := [] })).stepPlain .fixed op').RegInv ∧
      OutEq ((r.onCore (fun s => { s with out := [], snaps := [] })).stepPlain .fixed op').abs
        (({ r.abs with out := [], snaps := [] } : Sys).stepPlain op') := by
    intro op' hc hn
    have := stepPlain_spec h0 (by rw [a0]; exact hF) op' hc hn
    rw [a0] at this
    exact this
  unfold rstep stepV Sys.step
  cases op with
  | connect c => exact plain _ hfresh.1 (fun _ _ e => by cases e)
  | recv c t' id cmd => exact plain _ (fun _ e => by cases e) (fun _ _ e => by cases e)
  | drop c => exact plain _ (fun _ e => by cases e) (fun _ _ e => by cases e)
  | sweep now fault =>
    exact plain _ (fun _ e => by cases e) (fun n f e => by cases e; exact hnow _ rfl)
  | restart t' => exact plain _ (fun _ e => by cases e) (fun _ _ e => by cases e)
  | crashIn k op' =>
    dsimp only
    obtain ⟨k1, k2⟩ := plain op' (fun c e => hfresh.2 k op' c rfl e) (fun n f e => by
      subst e; exact hnow n rfl)
    have hsn : ((r.onCore (fun s => { s with out := [], snaps := [] })).stepPlain .fixed op').core.snaps =
        (({ r.abs with out := [], snaps := [] } : Sys).stepPlain op').snaps := k2.snaps
    rw [hsn]
    cases k with
    | zero => exact ⟨RegInv.fresh _ _, .refl _⟩
    | succ k' =>
      cases (({ r.abs with out := [], snaps := [] } : Sys).stepPlain op').snaps[k' + 1 - 1]? with
      | none =>
        show RegInv (RSys.crashTo _ _) ∧ OutEq (RSys.crashTo _ _).abs (Sys.crashTo _ _)
        refine ⟨RegInv.fresh _ _, ?_⟩
        have e1 : ((r.onCore (fun s => { s with out := [], snaps := [] })).stepPlain .fixed op').core.disk =
            (({ r.abs with out := [], snaps := [] } : Sys).stepPlain op').disk := k2.disk
        have e2 : ((r.onCore (fun s => { s with out := [], snaps := [] })).stepPlain .fixed op').core.udisk =
            (({ r.abs with out := [], snaps := [] } : Sys).stepPlain op').udisk := k2.udisk
        rw [e1, e2, (crashTo_spec _ _).2]
        exact k2.crashTo _
      | some p =>
        show RegInv ((RSys.crashTo _ _).onCore _) ∧ OutEq ((RSys.crashTo _ _).onCore _).abs ({ Sys.crashTo _ _ with out := _ })
        refine ⟨(RegInv.fresh _ _).onCore _, ?_⟩
        show OutEq ({ Sys.crashTo (RSys.abs _) p with out := _ }) _
        exact (k2.crashTo p).withOut (k2.out.cutAtCommit (k' + 1))

end step

/-! ### along a history -/

/-- the simulation relation between a registry state and a ghost state of `Sys` -/
structure Sim (r : RSys) (g : GSys) : Prop where
  inv : r.RegInv
  eq : OutEq r.abs g.sys

theorem Sim.init (cfg : Cfg) (rb : Time) : Sim (RSys.init cfg rb) (GSys.init cfg rb) :=
  ⟨RegInv.init cfg rb, .refl _⟩

theorem aconns_ids {r : RSys} {c : Nat} (h : ∀ x ∈ r.abs.conns, x.id ≠ c) : ∀ x ∈ r.conns, x.id ≠ c := by
  intro x hx
  exact h (absConn r.mbs x) (List.mem_map.2 ⟨x, hx, rfl⟩)

/-- **one well-formed operation preserves the simulation** (and `RegInv`): the step-level
    theorem instantiated with what `GInv` provides -/
theorem Sim.step {r : RSys} {g : GSys} (hs : Sim r g) (hI : g.GInv) (op : Op) (hw : g.WFOp op) :
    Sim (rstep r op) (g.step op) := by
  have hcl : ({ r.abs with out := [], snaps := [] } : Sys) = g.cleared := by
    obtain ⟨h1, h2, h3, h4, h5, h6, h7, _⟩ := hs.eq.fields
    show _ = ({ g.sys with out := [], snaps := [] } : Sys)
    simp only [Sys.mk.injEq]
    exact ⟨h1, h2, h3, h4, h5, h6, h7, trivial, trivial⟩
  have hF := hI.full (S := False) False.elim op hw.mono
  rw [← hcl] at hF
  have hconns : r.abs.conns = g.sys.conns := hs.eq.conns
  have hfresh : r.ConnFresh op := by
    constructor
    · intro c e
      exact aconns_ids (by rw [hconns]; exact hw.connFresh c e)
    · intro k op' c e e'
      exact aconns_ids (by rw [hconns]; exact (hw.crashPlain k op' e).2 c e')
  have hnow : ∀ t', op.time? = some t' → t' ≤ g.opTime op := by
    intro t' e
    unfold GSys.opTime
    rw [e]
    exact Int.le_refl _
  obtain ⟨k1, k2⟩ := rstep_refines hs.inv hF op hfresh hnow
  refine ⟨k1, ?_⟩
  rw [hs.eq.step_eq op] at k2
  exact k2

/-- **`RegInv` is preserved by every `rstep`** from a state whose abstraction satisfies `GInv`
    (for a well-formed operation) -/
theorem RegInv.rstep {r : RSys} (h : r.RegInv) (g : GSys) (hg : g.sys = r.abs) (hI : g.GInv) (op : Op)
    (hw : g.WFOp op) : (Wormhole.rstep r op).RegInv :=
  (Sim.step ⟨h, hg ▸ .refl _⟩ hI op hw).inv

/-- non-vacuity of `Sim.step` / `RegInv.rstep` / `rstep_refines`: the initial state is related to the
    initial ghost state, which satisfies `GInv` -/
example (cfg : Cfg) (rb : Time) (op : Op) (hw : (GSys.init cfg rb).WFOp op) :
    (Wormhole.rstep (RSys.init cfg rb) op).RegInv :=
  RegInv.rstep (RegInv.init cfg rb) (GSys.init cfg rb) rfl (GSys.GInv.init cfg rb) op hw

/-- **REFINEMENT along a history**, from any pair of related states: the final states are related
    and the traces are equal up to the order inside broadcast batches -/
theorem Reg_refines_Sys_from : ∀ (ops : List Op) {r : RSys} {g : GSys}, Sim r g → g.GInv → g.WF ops →
    Sim (rrun r ops).1 (g.run ops) ∧ (g.run ops).GInv ∧ TraceEq (rrun r ops).2 (g.sys.run ops).2 := by
  intro ops
  induction ops with
  | nil => intro r g hs hI _; exact ⟨hs, hI, .nil⟩
  | cons op rest ih =>
    intro r g hs hI hwf
    have hs1 := hs.step hI op hwf.1
    have hI1 := hI.step op hwf.1
    obtain ⟨i1, i2, i3⟩ := ih hs1 hI1 hwf.2
    refine ⟨i1, i2, ?_⟩
    show TraceEq ((rstep r op).core.out ++ (rrun (rstep r op) rest).2) ((g.sys.step op).out ++ ((g.sys.step op).run rest).2)
    exact hs1.eq.out.append i3

/-- **`Reg_refines_Sys`**: for every well-formed history from the initial state, the server with its
    object registry and the object-free model end in the same state (`abs` of one IS the other, on
    everything `Sys` has; the events of the last step up to batch order), produce the same trace up
    to the order of the recipients inside each broadcast batch, and the registry invariant holds. -/
theorem Reg_refines_Sys (cfg : Cfg) (rb : Time) (ops : List Op) (hwf : (GSys.init cfg rb).WF ops) :
    (rrun (RSys.init cfg rb) ops).1.RegInv ∧
    OutEq (rrun (RSys.init cfg rb) ops).1.abs ((GSys.init cfg rb).sys.run ops).1 ∧
    TraceEq (rrun (RSys.init cfg rb) ops).2 ((GSys.init cfg rb).sys.run ops).2 := by
  obtain ⟨i1, _, i3⟩ := Reg_refines_Sys_from ops (Sim.init cfg rb) (GSys.GInv.init cfg rb) hwf
  have := i1.eq
  rw [GSys.run_sys] at this
  exact ⟨i1.inv, this, i3⟩

/-- the same, field by field: everything `Sys` has except the events of the last step is EQUAL -/
theorem Reg_refines_Sys_state (cfg : Cfg) (rb : Time) (ops : List Op) (hwf : (GSys.init cfg rb).WF ops) :
    let a := (rrun (RSys.init cfg rb) ops).1.abs
    let b := ((GSys.init cfg rb).sys.run ops).1
    a.cfg = b.cfg ∧ a.db = b.db ∧ a.disk = b.disk ∧ a.udb = b.udb ∧ a.udisk = b.udisk ∧ a.conns = b.conns ∧
      a.rebooted = b.rebooted ∧ a.snaps = b.snaps :=
  (Reg_refines_Sys cfg rb ops hwf).2.1.fields

/-- consequence: every connection receives exactly the same frames, in the same order, in both models -/
theorem Reg_same_per_connection (cfg : Cfg) (rb : Time) (ops : List Op) (hwf : (GSys.init cfg rb).WF ops) (c : Nat) :
    (rrun (RSys.init cfg rb) ops).2.filter (fun e => match e with | .frame c' _ _ => decide (c' = c) | _ => false) =
      ((GSys.init cfg rb).sys.run ops).2.filter (fun e => match e with | .frame c' _ _ => decide (c' = c) | _ => false) :=
  (Reg_refines_Sys cfg rb ops hwf).2.2.filter_conn c

/-- the full-strength invariant of the task statement, in every state reached by a well-formed
    history: every connection's held object is THE registered object of (its app, that id) and the
    connection is in its listener dict; unregistered objects have no listeners and no holders -/
theorem Reg_held_registered (cfg : Cfg) (rb : Time) (ops : List Op) (hwf : (GSys.init cfg rb).WF ops) :
    let r := (rrun (RSys.init cfg rb) ops).1
    (∀ x ∈ r.conns, ∀ o, x.mailbox = some o →
      ∃ k ∈ r.mbs, k.oid = o ∧ x.app = some k.app ∧ r.Registered k.app k.mailboxId o ∧ x.id ∈ k.listeners) ∧
    (∀ k ∈ r.mbs, ¬ r.Registered k.app k.mailboxId k.oid →
      k.listeners = [] ∧ ∀ x ∈ r.conns, ¬ x.mailbox = some k.oid) := by
  obtain ⟨i1, i2, _⟩ := Reg_refines_Sys_from ops (Sim.init cfg rb) (GSys.GInv.init cfg rb) hwf
  intro r
  have hl : r.HoldsListen := by
    intro x hx hm
    have hmem : absConn r.mbs x ∈ ((GSys.init cfg rb).run ops).sys.conns := by
      rw [← i1.eq.conns]; exact List.mem_map.2 ⟨x, hx, rfl⟩
    cases e : (absConn r.mbs x).mailbox with
    | none =>
      have := absConn_mailbox_isSome i1.inv hx
      rw [e] at this
      rw [← this] at hm
      cases hm
    | some mb => exact (i2.conn.handle _ hmem mb e).1
  exact ⟨fun x hx o hm => i1.inv.held_registered hl hx hm,
    fun k hk hu => ⟨i1.inv.unregistered_no_listeners hk hu, i1.inv.unregistered_not_held hl hk hu⟩⟩

/-! ### corollaries -/

/-- **the number `dump_stats` writes equals the number of listening connections** (of `Sys`) -/
theorem Reg_dump_stats_counts {r : RSys} (h : r.RegInv) (hcoh : r.Coherent) :
    r.countListeners = (r.abs.conns.filter (·.listening)).length := by
  rw [countListeners_spec h (fun x hx hl => (hcoh x hx).2 hl), abs_conns, aconns_listening_length]

/-- **a sweep touches exactly the mailboxes `Sys.touchListened` touches**: the loop
    `for mailbox in self._mailboxes.values(): if mailbox.has_listeners(): mailbox._touch(now)` of the
    namespace registered for `app` is `Sys.touchListened app now` -/
theorem Reg_sweep_touches {r : RSys} (h : r.RegInv) (hs : TouchOk r.abs) {ns : Ns} (hns : ns ∈ r.nss)
    (hreg : (ns.app, ns.oid) ∈ r.apps) (now : Time) :
    (r.touchLoop now ns.boxes).abs = r.abs.touchListened ns.app now :=
  (touchLoop_spec h hs hns hreg now).1

/-- what the touch loops need from the `Sys` side is part of `GInv` -/
theorem TouchOk.of_ginv {g : GSys} (hI : g.GInv) : TouchOk g.sys := by
  refine ⟨?_, hI.cinv.toPInv.mbIds⟩
  intro x hx _ mb hm
  exact (hI.conn.handle x hx mb hm).2

/-- `Reg_sweep_touches` in every state reached by a well-formed history -/
theorem Reg_sweep_touches_reach (cfg : Cfg) (rb : Time) (ops : List Op) (hwf : (GSys.init cfg rb).WF ops)
    {ns : Ns} (hns : ns ∈ (rrun (RSys.init cfg rb) ops).1.nss)
    (hreg : (ns.app, ns.oid) ∈ (rrun (RSys.init cfg rb) ops).1.apps) (now : Time) :
    ((rrun (RSys.init cfg rb) ops).1.touchLoop now ns.boxes).abs =
      (rrun (RSys.init cfg rb) ops).1.abs.touchListened ns.app now := by
  obtain ⟨i1, i2, _⟩ := Reg_refines_Sys_from ops (Sim.init cfg rb) (GSys.GInv.init cfg rb) hwf
  have ht := TouchOk.of_ginv i2
  have : TouchOk (rrun (RSys.init cfg rb) ops).1.abs :=
    ⟨by
      intro x hx hl mb hm
      have hx' : x ∈ ((GSys.init cfg rb).run ops).sys.conns := by rw [← i1.eq.conns]; exact hx
      obtain ⟨a, ha, hb⟩ := ht.lh x hx' hl mb hm
      exact ⟨a, ha, by rw [i1.eq.db]; exact hb⟩,
     by rw [i1.eq.db]; exact ht.mbIds⟩
  exact Reg_sweep_touches i1.inv this hns hreg now

/-- `Reg_dump_stats_counts` in every state reached by a well-formed history -/
theorem Reg_dump_stats_counts_reach (cfg : Cfg) (rb : Time) (ops : List Op) (hwf : (GSys.init cfg rb).WF ops) :
    (rrun (RSys.init cfg rb) ops).1.countListeners =
      (((GSys.init cfg rb).sys.run ops).1.conns.filter (·.listening)).length := by
  obtain ⟨i1, i2, _⟩ := Reg_refines_Sys_from ops (Sim.init cfg rb) (GSys.GInv.init cfg rb) hwf
  have hconns := i1.eq.conns
  rw [GSys.run_sys] at hconns
  rw [← hconns]
  apply Reg_dump_stats_counts i1.inv
  intro x hx
  have hmem : absConn (rrun (RSys.init cfg rb) ops).1.mbs x ∈ ((GSys.init cfg rb).run ops).sys.conns := by
    rw [← i1.eq.conns]; exact List.mem_map.2 ⟨x, hx, rfl⟩
  have e := absConn_mailbox_isSome i1.inv hx
  constructor
  · intro hm
    rw [← e] at hm
    obtain ⟨mb, emb⟩ := Option.isSome_iff_exists.1 hm
    exact (i2.conn.handle _ hmem mb emb).1
  · intro hl
    rw [← e]
    exact i2.conn.listen _ hmem hl

end RSys

/-! ### non-vacuity, and the order of a broadcast really differs -/

namespace RegExample

def cfg0 : Cfg := { usage := true }

def bind (c : Nat) (t : Time) (app side : String) : Op := .recv c t .null (.bind (some app) (some side) none none)
def open_ (c : Nat) (t : Time) (m : String) : Op := .recv c t .null (.open_ (some m))
def add (c : Nat) (t : Time) (ph bd : String) : Op := .recv c t .null (.add (some (.str ph)) (some (.str bd)))
def close (c : Nat) (t : Time) (m : String) : Op := .recv c t .null (.close (some m) none)

/-- connection 1 connects first, connection 2 opens first: dict order [2, 1], table order [1, 2] -/
def orderHist : List Op :=
  [.connect 1, .connect 2, bind 1 1 "a" "s1", bind 2 2 "a" "s2", open_ 2 3 "m", open_ 1 4 "m", add 1 5 "p" "x",
   .sweep 6 false]

theorem orderHist_wf : (GSys.init cfg0 0).WF orderHist := GSys.wfB_sound (by decide +kernel)

/-- non-vacuity of `Reg_refines_Sys`: a well-formed history with binds, opens, a broadcast to two
    listeners and a sweep; and on it the two traces are NOT equal -- the batch order differs -/
theorem Reg_broadcast_order_differs :
    (GSys.init cfg0 0).WF orderHist ∧
    (rrun (RSys.init cfg0 0) orderHist).2 ≠ ((GSys.init cfg0 0).sys.run orderHist).2 ∧
    TraceEq (rrun (RSys.init cfg0 0) orderHist).2 ((GSys.init cfg0 0).sys.run orderHist).2 :=
  ⟨orderHist_wf, by decide +kernel, (RSys.Reg_refines_Sys cfg0 0 orderHist orderHist_wf).2.2⟩

/-- non-vacuity of `Reg_dump_stats_counts` / `Reg_sweep_touches`: after that history two connections
    listen, `dump_stats` wrote 2, and the registry holds one namespace with one Mailbox object -/
example :
    (rrun (RSys.init cfg0 0) orderHist).1.countListeners = 2 ∧
    (rrun (RSys.init cfg0 0) orderHist).1.core.udb.current.map (·.conns) = [2] ∧
    (rrun (RSys.init cfg0 0) orderHist).1.apps = [("a", 0)] ∧
    (rrun (RSys.init cfg0 0) orderHist).1.mbs.map (·.listeners) = [[2, 1]] := by decide +kernel

/-! ### the negative results -/

/-- [a mailbox row left by an earlier process; restart: no objects]; connect 1, bind a; sweep (drops
    the empty namespace); connect 2, bind a; both open m; 2 adds -/
def cachedHist : List Op :=
  [.connect 0, bind 0 1 "a" "s1", open_ 0 2 "m", .restart 10,
   .connect 1, bind 1 11 "a" "s1", .sweep 12 false, .connect 2, bind 2 13 "a" "s2", open_ 1 14 "m", open_ 2 15 "m",
   add 2 16 "p" "x"]

theorem cachedHist_wf : (GSys.init {} 0).WF cachedHist := GSys.wfB_sound (by decide +kernel)

/-- **the variant that caches the AppNamespace at bind time (the code before repair 977dbc8) does
    NOT refine `Sys`**: on a well-formed history `Sys` (and the repaired registry model) deliver the
    added message to connection 1, the cached variant does not -- connection 1 subscribed to a
    Mailbox object of a namespace that `prune_all_apps` had dropped from `Server._apps`. -/
theorem Reg_cached_counterexample :
    (GSys.init {} 0).WF cachedHist ∧
    Event.frame 1 (.message "s2" (.str "p") (.str "x") 16 .null) true ∈ ((GSys.init {} 0).sys.run cachedHist).2 ∧
    Event.frame 1 (.message "s2" (.str "p") (.str "x") 16 .null) true ∈ (rrun (RSys.init {} 0) cachedHist).2 ∧
    Event.frame 1 (.message "s2" (.str "p") (.str "x") 16 .null) true ∉ (rrunCached (RSys.init {} 0) cachedHist).2 ∧
    ¬ (rrunCached (RSys.init {} 0) cachedHist).2.Perm ((GSys.init {} 0).sys.run cachedHist).2 ∧
    -- the two connections of app "a" hold two different Mailbox objects for the same mailbox id
    (rrunCached (RSys.init {} 0) cachedHist).1.conns.map (·.mailbox) = [some 4, some 5] ∧
    ¬ (rrunCached (RSys.init {} 0) cachedHist).1.RegInv := by
  refine ⟨cachedHist_wf, by decide +kernel, by decide +kernel, by decide +kernel, ?_, by decide +kernel, ?_⟩
  · intro hp
    have h1 : Event.frame 1 (.message "s2" (.str "p") (.str "x") 16 .null) true ∈
        ((GSys.init {} 0).sys.run cachedHist).2 := by decide +kernel
    have h2 : Event.frame 1 (.message "s2" (.str "p") (.str "x") 16 .null) true ∉
        (rrunCached (RSys.init {} 0) cachedHist).2 := by decide +kernel
    exact h2 (hp.mem_iff.2 h1)
  · intro hinv
    -- connection 1 listens on an object that is not the registered one
    have hc : (rrunCached (RSys.init {} 0) cachedHist).1.conns =
        [{ id := 1, app := some "a", ns := some 2, side := some "s1", listening := true, mailbox := some 4,
           mailboxId := some "m" },
         { id := 2, app := some "a", ns := some 3, side := some "s2", listening := true, mailbox := some 5,
           mailboxId := some "m" }] := by decide +kernel
    have hm : (rrunCached (RSys.init {} 0) cachedHist).1.mbs =
        [{ oid := 4, nsOid := 2, app := "a", mailboxId := "m", listeners := [1] },
         { oid := 5, nsOid := 3, app := "a", mailboxId := "m", listeners := [2] }] := by decide +kernel
    have ha : (rrunCached (RSys.init {} 0) cachedHist).1.apps = [("a", 3)] := by decide +kernel
    have hn : (rrunCached (RSys.init {} 0) cachedHist).1.nss =
        [{ oid := 2, app := "a", boxes := [("m", 4)] }, { oid := 3, app := "a", boxes := [("m", 5)] }] := by
      decide +kernel
    have := hinv.nsReg { oid := 2, app := "a", boxes := [("m", 4)] } (by rw [hn]; simp) (by simp)
    rw [ha] at this
    simp at this

/-- connect 1, bind, open m; connection 2 (same side) closes m: the mailbox is deleted under
    connection 1; then 1 adds -/
def noStopHist : List Op :=
  [.connect 1, bind 1 1 "a" "s1", open_ 1 2 "m", .connect 2, bind 2 3 "a" "s1", close 2 4 "m", add 1 5 "p" "x"]

theorem noStopHist_wf : (GSys.init {} 0).WF noStopHist := GSys.wfB_sound (by decide +kernel)

/-- **the variant whose stop callback does nothing (the code before repair 26fcad5) does not
    refine `Sys`**: it stores a message row for a mailbox that no longer exists, where `Sys` (and
    the repaired registry model) refuse the `add` -/
theorem Reg_nostop_counterexample :
    (GSys.init {} 0).WF noStopHist ∧
    ((GSys.init {} 0).sys.run noStopHist).1.db.messages = [] ∧
    (rrun (RSys.init {} 0) noStopHist).1.core.db.messages = [] ∧
    (rrunNoStop (RSys.init {} 0) noStopHist).1.core.db.messages =
      [⟨"a", "m", "s1", .str "p", .str "x", 5, .null⟩] ∧
    (rrunNoStop (RSys.init {} 0) noStopHist).1.core.db.mailboxes = [] := by
  refine ⟨noStopHist_wf, by decide +kernel, by decide +kernel, by decide +kernel, by decide +kernel⟩

end RegExample
end Wormhole

#print axioms Wormhole.RSys.RegInv.init
#print axioms Wormhole.RSys.rstep_refines
#print axioms Wormhole.RSys.Sim.step
#print axioms Wormhole.RSys.RegInv.rstep
#print axioms Wormhole.RSys.Reg_refines_Sys_from
#print axioms Wormhole.RSys.Reg_refines_Sys_state
#print axioms Wormhole.RSys.Reg_sweep_touches_reach
#print axioms Wormhole.RSys.Reg_dump_stats_counts_reach
#print axioms Wormhole.RSys.Reg_refines_Sys
#print axioms Wormhole.RSys.Reg_same_per_connection
#print axioms Wormhole.RSys.Reg_held_registered
#print axioms Wormhole.RSys.Reg_dump_stats_counts
#print axioms Wormhole.RSys.Reg_sweep_touches
#print axioms Wormhole.RegExample.Reg_broadcast_order_differs
#print axioms Wormhole.RegExample.Reg_cached_counterexample
#print axioms Wormhole.RegExample.Reg_nostop_counterexample
