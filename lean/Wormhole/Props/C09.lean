/-
  C09 — a response is sent only after its effects are committed.

  Every outbound frame is an `Event.frame c f synced` with
  `synced = decide (db = disk) && decide (udb = udisk)` evaluated at the instant of sending
  (`Sys.send`).  The theorems say: `synced = true` for every frame, for every operation, on
  every path (normal, early return, `CrowdedError`, `ReclaimedError`, IntegrityError,
  `ValueError`, sweeps with and without fault, restarts), with and without a usage database
  (`cfg` is arbitrary everywhere).

  Hypotheses on the state before a step (and nothing else):
  * `s.Synced`           nothing uncommitted (`db = disk ∧ udb = udisk`);
  * `s.db.IdsBounded`    ids in use are below the AUTOINCREMENT counter
                         — used once: `ReclaimedError` cannot be raised right after the INSERT
                         of a NEW nameplate row (which would return without committing it);
  * `s.db.NpHasSide`     every nameplate has a side row (= `Chan.CInv.npHasSide`)
                         — used twice, both only when `cfg.usage = true`: the `IndexError` of
                         `_summarize_nameplate_usage` cannot escape from the loop of repair F in
                         `Mailbox.close` (it would leave usage rows pending:
                         `Sys.mailboxClose_spec`) nor from the nameplate loop of `prune`
                         (it would leave the deletions pending: `Sys.pruneNameplates_spec`);
  * `s.db.NpIdsUnique`   `nameplates.id` is unique (= `Chan.PInv.npIds`)
                         — used to keep `NpHasSide` true across the deletions by id inside the
                         loop of `prune` and across `Mailbox.close`'s DELETE ... IN (SELECT id ...).
  The last three are bundled as `Chan.NpOk` (Inv/NpOk.lean) and are PRESERVED by every
  non-crash step (proved here, `C09_step_synced` (c)), so for crash-free histories nothing has
  to be supplied from outside: they hold in the initial state.

  What is not proved here: that `NpOk` holds in the state left by a crash (it is a fact about
  the snapshots taken at commit points, `CInv` of Inv/Defs.lean).  `C09_frames_synced_crash`
  is the theorem for arbitrary histories with exactly that fact as its hypothesis `hCrash`.
-/
import Wormhole.Inv.SyncLemmas

namespace Wormhole
open Sys

/-- all frames of a list of events carry `synced = true` -/
def AllFramesSynced (tr : List Event) : Prop := ∀ e ∈ tr, ∀ c f b, e = Event.frame c f b → b = true

theorem AllFramesSynced.append {a b : List Event} (ha : AllFramesSynced a) (hb : AllFramesSynced b) :
    AllFramesSynced (a ++ b) := by
  intro e he
  rcases List.mem_append.1 he with h | h
  · exact ha e h
  · exact hb e h

/-- **C09, one step.**  For every state with nothing uncommitted (and the nameplate tables in
    order), every operation other than a crash:
    (a) every frame it emits has `synced = true`;
    (b) it ends with nothing uncommitted;
    (c) the hypotheses on the nameplate tables hold again. -/
theorem C09_step_synced (s : Sys) (op : Op) (hop : op.isCrash = false)
    (hS : s.Synced) (hB : s.db.IdsBounded) (hIds : s.db.NpIdsUnique) (hSides : s.db.NpHasSide) :
    AllFramesSynced (s.step op).out ∧ (s.step op).Synced ∧
      ((s.step op).db.IdsBounded ∧ (s.step op).db.NpIdsUnique ∧ (s.step op).db.NpHasSide) := by
  have h := Ok.step hS ⟨hB, hIds, hSides⟩ hop
  exact ⟨h.frames, h.synced, h.np.bounded, h.np.ids, h.np.hasSide⟩

/-- **C09, a step that crashes.**  The state left by the crash has nothing uncommitted (by
    construction of `crashTo`), and every frame that got out before the crash has
    `synced = true` (the truncated output is a cut of the uncrashed one: `Sys.mem_cutAtCommit`).
    (c) is NOT claimed here: it needs the invariant of the snapshots. -/
theorem C09_step_crash (s : Sys) (k : Nat) (op : Op)
    (hS : s.Synced) (hB : s.db.IdsBounded) (hIds : s.db.NpIdsUnique) (hSides : s.db.NpHasSide) :
    AllFramesSynced (s.step (.crashIn k op)).out ∧ (s.step (.crashIn k op)).Synced :=
  ⟨step_crash_framesOk hS ⟨hB, hIds, hSides⟩ k op, step_crash_synced s k op⟩

/-- histories: from a good state, with `hStep` telling that the nameplate tables stay in order -/
theorem frames_synced_aux (P : Op → Prop)
    (hStep : ∀ (s : Sys) (op : Op), P op → s.Synced → s.db.NpOk →
      AllFramesSynced (s.step op).out ∧ (s.step op).Synced ∧ (s.step op).db.NpOk) :
    ∀ (ops : List Op), (∀ op ∈ ops, P op) → ∀ (s : Sys), s.Synced → s.db.NpOk →
      AllFramesSynced (Sys.run s ops).2 ∧ (Sys.run s ops).1.Synced ∧ (Sys.run s ops).1.db.NpOk := by
  intro ops
  induction ops with
  | nil =>
    intro _ s hS hN
    exact ⟨by intro e he; simp [Sys.run] at he, hS, hN⟩
  | cons op rest ih =>
    intro hP s hS hN
    obtain ⟨a, b, c⟩ := hStep s op (hP op (by simp)) hS hN
    obtain ⟨a', b', c'⟩ := ih (fun o ho => hP o (by simp [ho])) (s.step op) b c
    simp only [Sys.run]
    exact ⟨a.append a', b', c'⟩

/-- **C09, crash-free histories.**  From any state with nothing uncommitted and the nameplate
    tables in order, for every list of operations none of which is a crash: every frame of the
    trace has `synced = true`, and the final state has nothing uncommitted. -/
theorem C09_frames_synced (s : Sys) (ops : List Op) (hops : ∀ op ∈ ops, op.isCrash = false)
    (hS : s.Synced) (hN : s.db.NpOk) :
    AllFramesSynced (Sys.run s ops).2 ∧ (Sys.run s ops).1.Synced ∧ (Sys.run s ops).1.db.NpOk := by
  refine frames_synced_aux (fun op => op.isCrash = false) ?_ ops hops s hS hN
  intro s op hop hS hN
  have h := Ok.step hS hN hop
  exact ⟨h.frames, h.synced, h.np⟩

/-- the initial state satisfies the hypotheses, for every configuration -/
theorem init_synced (cfg : Cfg) (rb : Time) : ({ cfg := cfg, rebooted := rb } : Sys).Synced := ⟨rfl, rfl⟩

theorem init_npOk (cfg : Cfg) (rb : Time) : ({ cfg := cfg, rebooted := rb } : Sys).db.NpOk := by
  refine ⟨⟨?_, ?_⟩, List.Pairwise.nil, ?_⟩
  · intro n hn; simp at hn
  · intro r hr; simp at hr
  · intro n hn; simp at hn

/-- **C09 from the initial state**, any configuration (usage database or not, blur, list
    allowed or not), any start time, any crash-free history. -/
theorem C09_frames_synced_init (cfg : Cfg) (rb : Time) (ops : List Op)
    (hops : ∀ op ∈ ops, op.isCrash = false) :
    AllFramesSynced (Sys.run ({ cfg := cfg, rebooted := rb } : Sys) ops).2 ∧
      (Sys.run ({ cfg := cfg, rebooted := rb } : Sys) ops).1.Synced :=
  let h := C09_frames_synced _ ops hops (init_synced cfg rb) (init_npOk cfg rb)
  ⟨h.1, h.2.1⟩

/-- **C09, all histories, crashes included — conditional.**  The one missing piece is `hCrash`:
    the nameplate tables are in order in the state left by a crash (they are, in every committed
    snapshot; that is `CInv` at commit points and is not proved in this file).

    Full statement wanted (DESIGN.md §6 C09): this theorem without `hCrash`. -/
theorem C09_frames_synced_crash_partial
    (hCrash : ∀ (s : Sys) (k : Nat) (op : Op), s.Synced → s.db.NpOk → (s.step (.crashIn k op)).db.NpOk)
    (s : Sys) (ops : List Op) (hS : s.Synced) (hN : s.db.NpOk) :
    AllFramesSynced (Sys.run s ops).2 ∧ (Sys.run s ops).1.Synced ∧ (Sys.run s ops).1.db.NpOk := by
  refine frames_synced_aux (fun _ => True) ?_ ops (fun _ _ => trivial) s hS hN
  intro s op _ hS hN
  cases hc : op.isCrash with
  | false =>
    have h := Ok.step hS hN hc
    exact ⟨h.frames, h.synced, h.np⟩
  | true =>
    cases op with
    | crashIn k op' =>
      exact ⟨step_crash_framesOk hS hN k op', step_crash_synced s k op', hCrash s k op' hS hN⟩
    | _ => simp [Op.isCrash] at hc

/-! ### Non-vacuity -/

namespace C09Example

def flags (tr : List Event) : List Bool :=
  tr.filterMap (fun e => match e with | .frame _ _ b => some b | _ => none)

/-- one client: connect, bind, claim (new nameplate + mailbox), open, add, close — with a usage
    database, so that both `db.commit()` and `usage_db.commit()` are exercised -/
def hist : List Op :=
  [ .connect 1,
    .recv 1 10 (.int 1) (.bind (some "app") (some "s1") (some "impl") (some "v")),
    .recv 1 11 (.int 2) (.claim (some "4") "mb1"),
    .recv 1 12 (.int 3) (.open_ (some "mb1")),
    .recv 1 13 (.int 4) (.add (some (.str "pake")) (some (.str "body"))),
    .recv 1 14 (.int 5) (.close (some "mb1") (some "happy")) ]

def start : Sys := { cfg := { usage := true }, rebooted := 0 }

/-- the hypotheses of `C09_frames_synced` are satisfiable and the history is crash-free -/
example : start.Synced ∧ start.db.NpOk ∧ ∀ op ∈ hist, op.isCrash = false :=
  ⟨init_synced _ _, init_npOk _ _, by decide⟩

/-- nine frames are emitted (welcome; ack; ack, claimed; ack; ack, message; ack, closed), each
    with `synced = true`; evaluated, not derived from the theorem -/
example : flags (Sys.run start hist).2 = [true, true, true, true, true, true, true, true, true] := by
  decide +kernel

/-- eight effective commits happen in it (bind: usage; claim: chan, chan; open: chan; add: chan;
    close: chan, usage, chan) -/
example : ((Sys.run start hist).2.filter (fun e => match e with | .commit _ => true | _ => false)).length = 8 := by
  decide +kernel

/-- the frames really are there: the `claimed` and `closed` answers and the broadcast -/
example : Event.frame 1 (.claimed "mb1") true ∈ (Sys.run start hist).2 ∧
    Event.frame 1 (.message "s1" (.str "pake") (.str "body") 13 (.int 4)) true ∈ (Sys.run start hist).2 ∧
    Event.frame 1 .closed true ∈ (Sys.run start hist).2 := by
  decide +kernel

/-- the flag is not constantly `true`: `_add_message` WITHOUT its `db.commit()` followed by the
    broadcast emits `synced = false` — such a model would violate `C09_step_synced` -/
example :
    flags ((((start.modDb (·.insMessage ⟨"app", "mb1", "s1", .str "pake", .str "body", 13, .int 4⟩)).modDb
      (·.touch "mb1" 13)).send 1 (.message "s1" (.str "pake") (.str "body") 13 (.int 4))).out) = [false] := by
  decide +kernel

/-- ... and with a pending usage write only -/
example :
    flags (((start.modUdb (fun d => { d with clients := d.clients ++ [⟨"app", "s1", 10, none, none⟩] })).send 1
      (.ack .null)).out) = [false] := by
  decide +kernel

end C09Example

end Wormhole

#print axioms Wormhole.C09_step_synced
#print axioms Wormhole.C09_step_crash
#print axioms Wormhole.C09_frames_synced
#print axioms Wormhole.C09_frames_synced_init
#print axioms Wormhole.C09_frames_synced_crash_partial
