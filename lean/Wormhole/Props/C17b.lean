/-
  C17 (last clause) — "no sequence of well-formed commands makes a handler fail internally".

  FULL STATEMENT (DESIGN.md §6 C17): no `Event.internal` occurs in `run H` for well-formed `H`.
  It is FALSE for the model = the code, because of two known findings; what is proved is the exact
  list of causes:

  * `C17_internal_only_known`   in a step from any state satisfying `GInv` (in particular any
        reachable state), for ANY well-formed operation (crash-wrapped ones included), an
        `Event.internal` is emitted ONLY IF `KnownCause` holds:
          (i)   `open`/`close` names a mailbox id that exists under ANOTHER app
                (`IntegrityError`, finding K-global-mailbox-id);
          (ii)  `allocate` with `findAvailable = none` (`ValueError`, finding K-alloc-exhaust);
          (iii) the injected fault of a `sweep _ true`.
        In particular `claim`, `release`, `add`, `list`, `bind`, `ping`, connects, drops, restarts
        and unfaulted sweeps never fail internally: no `IndexError` (every nameplate has a side
        row), no `IntegrityError` on a generated mailbox id (it is fresh), no `CrowdedError` /
        `ReclaimedError` out of `allocate` (the allocated name is free and the mailbox new).
  * `C17_no_internal_partial`   the contrapositive: without a known cause, no internal event.
  * `C17_recv_no_internal`      the same for `recv`, with the two guards spelled out.
  * `C17_no_internal_run_partial`  histories.
  * counter-witnesses: `C17_global_mailbox_id_counterexample` (reachable two-app state, by
        evaluation); `C17_alloc_exhaust_internal` (the cause is sufficient, in every state) and
        `C17_alloc_exhaust_counterexample` (a concrete state satisfying all of `GInv`; it is given
        directly, not as a 6000-operation history).
-/
import Wormhole.Inv.Main
import Wormhole.Inv.WFDec
import Wormhole.Props.C04

namespace Wormhole
open Sys

/-- the known causes of an internal failure -/
def KnownCause (s : Sys) : Op → Prop
  | .recv c _ _ (.allocate pick draws _) =>
      -- K-alloc-exhaust
      ∃ x app, s.findConn c = some x ∧ x.app = some app ∧ findAvailable (s.db.namesOfApp app) pick draws = none
  | .recv c _ _ (.open_ m) =>
      -- K-global-mailbox-id
      ∃ x app mb, s.findConn c = some x ∧ x.app = some app ∧ m = some mb ∧ s.db.ForeignMb app mb
  | .recv c _ _ (.close m _) =>
      -- K-global-mailbox-id (the id named by the command, or remembered from an earlier `open`)
      ∃ x app mb, s.findConn c = some x ∧ x.app = some app ∧
        (m = some mb ∨ (m = none ∧ x.mailboxId = some mb)) ∧ s.db.ForeignMb app mb
  | .sweep _ fault => fault = true
  | .crashIn _ op => KnownCause s op
  | _ => False

/-- with mailbox ids unique, "exists, but not under this app" = "exists under another app" -/
theorem foreignMb_iff {d : Chan} {app mb : String} :
    d.ForeignMb app mb ↔ (∃ m ∈ d.mailboxes, m.id = mb) ∧ ∀ m ∈ d.mailboxes, m.id = mb → m.app ≠ app := by
  constructor
  · rintro ⟨h1, h2⟩
    exact ⟨h2, fun m hm e ea => h1 ⟨m, hm, e, ea⟩⟩
  · rintro ⟨h1, h2⟩
    exact ⟨fun ⟨m, hm, e, ea⟩ => h2 m hm e ea, h1⟩

/-- plain operations: an internal event has a known cause -/
theorem plain_internal_known {g : GSys} (hI : g.GInv) (op : Op)
    (hmono : ∀ t, op.time? = some t → g.clock ≤ t)
    (hconn : ∀ c, op = .connect c → ∀ x ∈ g.sys.conns, x.id ≠ c)
    (hfresh : ∀ f, op.fresh? = some f → f ∉ g.used) (hop : op.isCrash = false) :
    ∀ e ∈ (g.cleared.stepPlain op).out, e.notInternal = false → KnownCause g.sys op := by
  obtain ⟨_, l, hl, hp⟩ := hI.plain_full (S := False) False.elim op hmono hconn
  intro e he hint
  have he' : e ∈ l := by
    rw [hl] at he
    simpa using he
  have hc := (hp e he').cause hint
  have nofresh : ∀ {f : String}, f ∉ g.used → ¬ ∃ m ∈ g.sys.db.mailboxes, m.id = f := by
    rintro f hf ⟨m, hm, rfl⟩
    exact hf (hI.used m hm)
  cases op with
  | recv c t id cmd =>
    cases cmd with
    | allocate pick draws fresh =>
      obtain ⟨x, app, hfx, happ, h | h⟩ := hc
      · exact ⟨x, app, hfx, happ, h⟩
      · exact absurd h (nofresh (hfresh fresh rfl))
    | claim n fresh =>
      obtain ⟨x, app, hfx, happ, _, h⟩ := hc
      exact absurd h (nofresh (hfresh fresh rfl))
    | open_ m => exact hc
    | close m mood => exact hc
    | _ => exact hc
  | sweep now fault => exact hc
  | crashIn k op' => simp [Op.isCrash] at hop
  | _ => exact hc

/-- the events that get out before a crash are events of the uncrashed run -/
theorem step_crash_out_subset (s : Sys) (k : Nat) (op : Op) :
    ∀ e ∈ (s.step (.crashIn k op)).out, e ∈ (({ s with out := [], snaps := [] } : Sys).stepPlain op).out := by
  unfold Sys.step
  dsimp only
  split
  · intro e he; simp at he
  · intro e he; exact Sys.mem_cutAtCommit _ _ e he
  · intro e he; exact he

/-- **C17, internal failures have known causes only.**  Any state satisfying the invariant, any
    well-formed operation (crash-wrapped included). -/
theorem C17_internal_only_known {g : GSys} (hI : g.GInv) (op : Op) (hw : g.WFOp op) :
    ∀ e ∈ (g.sys.step op).out, e.notInternal = false → KnownCause g.sys op := by
  cases hc : op.isCrash with
  | false =>
    rw [Sys.step_eq_of_not_crash g.sys hc]
    exact plain_internal_known hI op hw.mono hw.connFresh hw.idFresh hc
  | true =>
    cases op with
    | crashIn k op' =>
      obtain ⟨hp, hcf⟩ := hw.crashPlain k op' rfl
      intro e he hint
      exact plain_internal_known hI op' hw.mono hcf hw.idFresh hp e (step_crash_out_subset g.sys k op' e he) hint
    | _ => simp [Op.isCrash] at hc

/-- **C17_no_internal_partial** (one step): from a reachable state, a well-formed operation
    without a known cause emits no internal event. -/
theorem C17_no_internal_partial {g : GSys} (hg : g.Reach) (op : Op) (hw : g.WFOp op)
    (hK : ¬ KnownCause g.sys op) : ∀ e ∈ (g.sys.step op).out, e.notInternal = true := by
  intro e he
  cases h : e.notInternal with
  | true => rfl
  | false => exact absurd (C17_internal_only_known hg.ginv op hw e he h) hK

/-- the two guards, spelled out for a received command: (K-alloc-exhaust) an `allocate` finds a
    free name; (K-global-mailbox-id) the mailbox id an `open`/`close` refers to — named in the
    command, or remembered by the connection from its earlier `open` — does not exist under a
    different app.  Then the step emits no internal event. -/
theorem C17_recv_no_internal {g : GSys} (hg : g.Reach) (c : Nat) (t : Time) (id : Val) (cmd : Cmd)
    (hw : g.WFOp (.recv c t id cmd))
    (hAlloc : ∀ x app pick draws fresh, g.sys.findConn c = some x → x.app = some app →
      cmd = .allocate pick draws fresh → findAvailable (g.sys.db.namesOfApp app) pick draws ≠ none)
    (hMb : ∀ x app mb, g.sys.findConn c = some x → x.app = some app →
      (cmd = .open_ (some mb) ∨ (∃ mood, cmd = .close (some mb) mood) ∨
        (∃ mood, cmd = .close none mood ∧ x.mailboxId = some mb)) →
      ∀ m ∈ g.sys.db.mailboxes, m.id = mb → m.app = app) :
    ∀ e ∈ (g.sys.step (.recv c t id cmd)).out, e.notInternal = true := by
  apply C17_no_internal_partial hg _ hw
  intro hK
  cases cmd with
  | allocate pick draws fresh =>
    obtain ⟨x, app, hfx, happ, h⟩ := hK
    exact hAlloc x app pick draws fresh hfx happ rfl h
  | open_ m =>
    obtain ⟨x, app, mb, hfx, happ, rfl, hf⟩ := hK
    obtain ⟨⟨m0, hm0, e0⟩, hne⟩ := foreignMb_iff.1 hf
    exact hne m0 hm0 e0 (hMb x app mb hfx happ (Or.inl rfl) m0 hm0 e0)
  | close m mood =>
    obtain ⟨x, app, mb, hfx, happ, hm, hf⟩ := hK
    obtain ⟨⟨m0, hm0, e0⟩, hne⟩ := foreignMb_iff.1 hf
    refine hne m0 hm0 e0 (hMb x app mb hfx happ ?_ m0 hm0 e0)
    rcases hm with rfl | ⟨rfl, hid⟩
    · exact Or.inr (Or.inl ⟨mood, rfl⟩)
    · exact Or.inr (Or.inr ⟨mood, rfl, hid⟩)
  | _ => exact hK

/-- no known cause anywhere along a history -/
def NoKnownCause (g : GSys) : List Op → Prop
  | [] => True
  | op :: rest => ¬ KnownCause g.sys op ∧ NoKnownCause (g.step op) rest

/-- **C17_no_internal_partial** (histories): a well-formed history — crashes, restarts, sweeps
    included — in which no operation has a known cause produces a trace without internal events. -/
theorem C17_no_internal_run_partial : ∀ (ops : List Op) {g : GSys}, g.Reach → g.WF ops → NoKnownCause g ops →
    ∀ e ∈ (g.sys.run ops).2, e.notInternal = true := by
  intro ops
  induction ops with
  | nil => intro g _ _ _ e he; simp [Sys.run] at he
  | cons op rest ih =>
    intro g hg hwf hk e he
    simp only [Sys.run, List.mem_append] at he
    rcases he with he | he
    · exact C17_no_internal_partial hg op hwf.1 hk.1 e he
    · exact ih (g := g.step op) (.step op hg hwf.1) hwf.2 hk.2 e he

/-! ### Counter-witness 1: K-global-mailbox-id (a reachable state, by evaluation) -/

namespace C17bExample

/-- app "a" opens mailbox "m"; a connection of app "b" is bound -/
def hist : List Op :=
  [ .connect 1,
    .recv 1 8 (.int 1) (.bind (some "a") (some "s1") none none),
    .recv 1 16 (.int 2) (.open_ (some "m")),
    .connect 2,
    .recv 2 24 (.int 3) (.bind (some "b") (some "s1") none none) ]

def g : GSys := (GSys.init { usage := true } 0).run hist

theorem g_reach : g.Reach := GSys.reach_of_wfB _ _ _ (by decide +kernel)

def openOp : Op := .recv 2 32 (.int 4) (.open_ (some "m"))
def closeOp : Op := .recv 2 32 (.int 4) (.close (some "m") none)
def claimOp : Op := .recv 2 32 (.int 4) (.claim (some "7") "fresh1")

/-- **the full statement is false**: in a reachable two-app state a well-formed `open` (and a
    `close`) of the shared id emits `internal IntegrityError` (and no answer frame besides the ack) -/
theorem C17_global_mailbox_id_counterexample :
    g.Reach ∧ g.WFOp openOp ∧ g.WFOp closeOp ∧
    (g.sys.step openOp).out = [.frame 2 (.ack (.int 4)) true, .internal (some 2) "IntegrityError"] ∧
    (g.sys.step closeOp).out = [.frame 2 (.ack (.int 4)) true, .internal (some 2) "IntegrityError"] :=
  ⟨g_reach, GSys.wfOpB_sound (by decide +kernel), GSys.wfOpB_sound (by decide +kernel),
    by decide +kernel, by decide +kernel⟩

/-- it is the cause (i) of `KnownCause` -/
example : KnownCause g.sys openOp := by
  refine ⟨g.sys.conns[1]!, "b", "m", by decide +kernel, by decide +kernel, rfl, ?_⟩
  rw [foreignMb_iff]
  constructor
  · exact ⟨⟨"a", "m", 16, false⟩, by decide +kernel, rfl⟩
  · intro m hm e
    have : g.sys.db.mailboxes = [⟨"a", "m", 16, false⟩] := by decide +kernel
    rw [this] at hm
    simp at hm
    subst hm
    decide

/-- non-vacuity of `C17_no_internal_partial`: in the same state a `claim` has no known cause, and
    indeed (by evaluation) emits no internal event -/
example : g.WFOp claimOp ∧ ¬ KnownCause g.sys claimOp := ⟨GSys.wfOpB_sound (by decide +kernel), id⟩
example : (g.sys.step claimOp).out.all Event.notInternal = true := by decide +kernel

end C17bExample

/-! ### Counter-witness 2: K-alloc-exhaust -/

/-- **K-alloc-exhaust is a sufficient cause, in every state**: a bound connection that has not
    allocated yet sends `allocate` while `_find_available_nameplate_id` finds nothing → the step
    emits `internal ValueError` (and only the ack before it). -/
theorem C17_alloc_exhaust_internal {s : Sys} {c : Nat} {x : Conn} {app : String} (t : Time) (id : Val)
    (pick : Nat) (draws : List Nat) (fresh : String)
    (hx : s.findConn c = some x) (happ : x.app = some app) (hna : x.didAllocate = false)
    (hfull : findAvailable (s.db.namesOfApp app) pick draws = none) :
    (s.step (.recv c t id (.allocate pick draws fresh))).out =
      [.frame c (.ack id) (decide (s.db = s.disk) && decide (s.udb = s.udisk)), .internal (some c) "ValueError"] := by
  have hid : x.id = c := Sys.findConn_id' hx
  show (({ s with out := [], snaps := [] } : Sys).onMessage c t id (.allocate pick draws fresh)).out = _
  unfold Sys.onMessage
  have hx' : ({ s with out := [], snaps := [] } : Sys).findConn c = some x := hx
  rw [hx']
  simp only [happ]
  unfold Sys.handleAllocate
  simp only [hna, Bool.false_eq_true, ↓reduceIte]
  have hfull' : findAvailable ((({ s with out := [], snaps := [] } : Sys).send c (.ack id)).db.namesOfApp app) pick draws
      = none := hfull
  rw [hfull']
  simp [Sys.internalErr, Sys.send, Sys.emit, Sys.synced, hid]

/-- a concrete instance: all of 1..1999 are nameplates of app "a" (the padded draws are
    1000..1999), each claimed by side "s", all pointing at the mailbox "mb"; one bound connection -/
def exhaustedDb : Chan :=
  { nameplates := (List.range' 1 1999).map (fun k => ⟨k, "a", toString k, "mb"⟩),
    npSides := (List.range' 1 1999).map (fun k => ⟨k, true, "s", 0⟩),
    mailboxes := [⟨"a", "mb", 0, true⟩],
    nextNp := 2000 }

def exhaustedSys : Sys :=
  { db := exhaustedDb, disk := exhaustedDb, conns := [{ id := 1, app := some "a", side := some "s" }] }

def exhaustedG : GSys := ⟨exhaustedSys, 0, ["mb"]⟩

theorem exhausted_names : findAvailable (exhaustedDb.namesOfApp "a") 0 [] = none := by
  rw [C04.C04_exhausted]
  have hmem : ∀ k, 1 ≤ k → k ≤ 1999 → toString k ∈ exhaustedDb.namesOfApp "a" := by
    intro k h1 h2
    rw [Sys.mem_namesOfApp']
    refine ⟨⟨k, "a", toString k, "mb"⟩, ?_, rfl, rfl⟩
    exact List.mem_map.2 ⟨k, List.mem_range'_1.2 ⟨h1, by omega⟩, rfl⟩
  constructor
  · intro k h1 h2; exact hmem k h1 (by omega)
  · intro i hi
    have hi' : i < 1000 := hi
    rw [C04.drawAt_of_ge (by simp)]
    have : Generated.allocLo = 1000 := rfl
    rw [this]
    exact hmem (1000 + i) (by omega) (by omega)

theorem range_pairwise_ne : (List.range' 1 1999).Pairwise (fun a b => ¬ a = b) :=
  (List.pairwise_lt_range' (s := 1) (n := 1999)).imp (fun h => Nat.ne_of_lt h)

/-- the exhausted state satisfies every clause of the invariant the theorems assume -/
theorem exhaustedG_ginv : exhaustedG.GInv := by
  refine ⟨⟨⟨?_, ?_, ⟨?_, ?_⟩, ?_, ?_, ?_, ?_, ?_, ?_, ?_⟩, ?_⟩, ⟨?_, ?_, ?_, ?_⟩, ⟨rfl, rfl⟩, ?_, ?_, ?_⟩
  · show ((List.range' 1 1999).map (fun k => (⟨k, "a", toString k, "mb"⟩ : Nameplate))).Pairwise _
    rw [List.pairwise_map]
    exact range_pairwise_ne
  · show ((List.range' 1 1999).map (fun k => (⟨k, "a", toString k, "mb"⟩ : Nameplate))).Pairwise _
    rw [List.pairwise_map]
    exact range_pairwise_ne.imp (fun h ⟨_, e⟩ => h (C04.toString_inj.1 e))
  · intro n hn
    obtain ⟨k, hk, rfl⟩ := List.mem_map.1 hn
    have := List.mem_range'_1.1 hk
    show k < 2000
    omega
  · intro r hr
    obtain ⟨k, hk, rfl⟩ := List.mem_map.1 hr
    have := List.mem_range'_1.1 hk
    show k < 2000
    omega
  · show ([⟨"a", "mb", 0, true⟩] : List MailboxRow).Pairwise _
    simp
  · intro n hn
    obtain ⟨k, hk, rfl⟩ := List.mem_map.1 hn
    exact ⟨⟨"a", "mb", 0, true⟩, List.mem_singleton.2 rfl, rfl, rfl⟩
  · intro r hr
    obtain ⟨k, hk, rfl⟩ := List.mem_map.1 hr
    exact ⟨⟨k, "a", toString k, "mb"⟩, List.mem_map.2 ⟨k, hk, rfl⟩, rfl⟩
  · show ((List.range' 1 1999).map (fun k => (⟨k, true, "s", 0⟩ : NpSide))).Pairwise _
    rw [List.pairwise_map]
    exact range_pairwise_ne.imp (fun h ⟨e, _⟩ => h e)
  · intro r hr; exact absurd hr (by simp [exhaustedG, exhaustedSys, exhaustedDb])
  · show ([] : List MbSide).Pairwise _
    exact List.Pairwise.nil
  · intro r hr; exact absurd hr (by simp [exhaustedG, exhaustedSys, exhaustedDb])
  · intro n hn
    obtain ⟨k, hk, rfl⟩ := List.mem_map.1 hn
    exact ⟨⟨k, true, "s", 0⟩, List.mem_map.2 ⟨k, hk, rfl⟩, rfl⟩
  · show ([{ id := 1, app := some "a", side := some "s" }] : List Conn).Pairwise _
    simp
  · intro x hx mb hm
    have : x = { id := 1, app := some "a", side := some "s" } := List.mem_singleton.1 hx
    subst this
    cases hm
  · intro x hx hl
    have : x = { id := 1, app := some "a", side := some "s" } := List.mem_singleton.1 hx
    subst this
    cases hl
  · intro x hx
    have : x = { id := 1, app := some "a", side := some "s" } := List.mem_singleton.1 hx
    subst this
    simp
  · intro m hm
    have : m = ⟨"a", "mb", 0, true⟩ := List.mem_singleton.1 hm
    subst this
    exact List.mem_singleton.2 rfl
  · intro x hx m hm
    have : x = { id := 1, app := some "a", side := some "s" } := List.mem_singleton.1 hx
    subst this
    cases hm
  · intro m hm
    have : m = ⟨"a", "mb", 0, true⟩ := List.mem_singleton.1 hm
    subst this
    exact Int.le_refl _

def allocOp : Op := .recv 1 5 (.int 1) (.allocate 0 [] "f")

/-- **the full statement is false** also for `allocate`: a state satisfying the complete invariant
    `GInv` (every hypothesis of `C17_internal_only_known`), a well-formed `allocate`, and the step
    emits `internal ValueError`.  (The state is given directly; reaching it takes 1999 claims.
    The harness replays finding K-alloc-exhaust on the real code by forcing the draws.) -/
theorem C17_alloc_exhaust_counterexample :
    exhaustedG.GInv ∧ exhaustedG.WFOp allocOp ∧
    (exhaustedG.sys.step allocOp).out = [.frame 1 (.ack (.int 1)) true, .internal (some 1) "ValueError"] := by
  refine ⟨exhaustedG_ginv, GSys.wfOpB_sound (by decide +kernel), ?_⟩
  have h := C17_alloc_exhaust_internal (s := exhaustedSys) (c := 1)
    (x := { id := 1, app := some "a", side := some "s" }) (app := "a") 5 (.int 1) 0 [] "f" rfl rfl rfl exhausted_names
  show (exhaustedSys.step allocOp).out = _
  unfold allocOp
  rw [h]
  simp [exhaustedSys]

end Wormhole

#print axioms Wormhole.C17_internal_only_known
#print axioms Wormhole.C17_no_internal_partial
#print axioms Wormhole.C17_recv_no_internal
#print axioms Wormhole.C17_no_internal_run_partial
#print axioms Wormhole.C17bExample.C17_global_mailbox_id_counterexample
#print axioms Wormhole.C17_alloc_exhaust_internal
#print axioms Wormhole.exhaustedG_ginv
#print axioms Wormhole.C17_alloc_exhaust_counterexample
