/-
  C10 — any crash leaves a database the server can restart from and clean up.

  Proved here (for EVERY well-formed history; configuration arbitrary, usage DB or not):

  * `C10_crash_state_wf`   every snapshot committed inside any operation (these are exactly the
        states a kill -9 can leave, given SQLite's atomic commit) satisfies `Chan.CInv`:
        (app,name), nameplate ids, mailbox ids, (nameplate,side), (mailbox,side) unique; every
        foreign key resolved (nameplate → mailbox of the same app, sides → parents, message →
        mailbox of the same app — the start-up `foreign_key_check`); ids below the AUTOINCREMENT
        counter; every nameplate has a side row.  Hence the state after `crashIn k op`, for every
        `k`, satisfies the whole invariant `GInv` again.
  * `C10_crash_history_wf` the same for whole histories from the initial state.
  * `C10_sweeps_total`     from every reachable state (crashes allowed) a sweep emits no
        `Event.internal` unless its fault is injected; in fact from every state whose nameplate
        tables are in order (`C10_sweep_no_internal`).
  * `C10_strong_needs_crash_free`  (non-vacuity / sharpness) the strengthening `SInv` does fail
        after a crash: a concrete reachable crash state has a mailbox without side rows.

  Not in this file: `C10_resend_converges` (see C14), emptying after quiescence (C13).

  The FOREIGN KEY facts that make SQLite accept every DELETE of server.py (so that the model's
  total delete primitives omit nothing) are `Chan.delNpSidesOf_fk`, `Chan.delNpSidesOfMailbox_fk`,
  `Chan.closeBlock_fk`, `Chan.pruneBlock_fk` in Inv/ChanLemmas.lean; the guard of the last one is
  established inside `Sys.prune_good` (Inv/StepInv.lean).
-/
import Wormhole.Inv.Main
import Wormhole.Inv.WFDec

namespace Wormhole
open Sys

/-- a well-formed plain operation stays well-formed when wrapped into a crash -/
theorem GSys.WFOp.crashIn {g : GSys} {op : Op} (hw : g.WFOp op) (hop : op.isCrash = false) (k : Nat) :
    g.WFOp (.crashIn k op) := by
  refine ⟨?_, hw.mono, hw.idFresh, ?_⟩
  · intro c e; cases e
  · intro k' op' e
    cases e
    exact ⟨hop, hw.connFresh⟩

/-- **C10 (crash states are well-formed).**  For every reachable `g` and every well-formed plain
    operation `op`: every snapshot committed while `op` runs satisfies `CInv`, and so does the
    committed state at its end; consequently the state left by a crash after the `k`-th commit,
    for every `k`, satisfies the complete invariant `GInv` again. -/
theorem C10_crash_state_wf {g : GSys} (hg : g.Reach) (op : Op) (hop : op.isCrash = false) (hw : g.WFOp op) :
    (∀ p ∈ (({ g.sys with out := [], snaps := [] } : Sys).stepPlain op).snaps, p.1.CInv) ∧
    (({ g.sys with out := [], snaps := [] } : Sys).stepPlain op).disk.CInv ∧
    ∀ k, (g.step (.crashIn k op)).GInv := by
  have hI := hg.ginv
  obtain ⟨hF, _⟩ := hI.plain_full (S := False) False.elim op hw.mono hw.connFresh
  exact ⟨fun p hp => (hF.good.d.snaps p hp).cinv, hF.good.d.disk.cinv,
    fun k => hI.step _ (hw.crashIn hop k)⟩

/-- **C10 for histories**: after any well-formed history from the initial state, crashes at any
    commit boundary of any operation (sweeps included) allowed, the store satisfies `CInv` (and
    the state the whole invariant). -/
theorem C10_crash_history_wf (cfg : Cfg) (rb : Time) (ops : List Op) (hwf : (GSys.init cfg rb).WF ops) :
    (Sys.run { cfg := cfg, rebooted := rb } ops).1.db.CInv ∧ ((GSys.init cfg rb).run ops).GInv := by
  have h := (GSys.reach_run (.init cfg rb) ops hwf).ginv
  refine ⟨?_, h⟩
  have := h.cinv
  rw [GSys.run_sys] at this
  exact this

/-- from any state whose nameplate tables are in order (unique ids, a side row for every
    nameplate: part of `CInv`), a sweep without injected fault appends no `internal` event -/
theorem C10_sweep_no_internal {s : Sys} (hn : s.db.NpOk) (now : Time) :
    OutExt (IntOnly False) s (s.expire now false) := by
  unfold Sys.expire
  dsimp only
  refine OutExt.trans ?_ (CExt.dumpStats OutExt.refl).intOnly
  have h0 : OutExt (IntOnly False) s (s.emit (.fired now (now - Generated.expirationTicks))) :=
    OutExt.refl.emit (fun _ _ he => by cases he)
  simp only [Bool.false_eq_true, ↓reduceIte]
  have h1 := (CExt.pruneApps (now := now) (old := now - Generated.expirationTicks)
    ((s.emit (.fired now (now - Generated.expirationTicks))).allApps)
    (OutExt.refl (s := s.emit (.fired now (now - Generated.expirationTicks))))).intOnly (A := False)
  split
  · rename_i s1 e
    rw [e] at h1
    exact h0.trans h1
  · rename_i s1 e
    have := ((pruneApps_spec _ e).2 (by simpa using hn)).2.1
    simp at this

/-- **C10 (sweeps are total).**  From every reachable state — crashes allowed, so in particular
    from every state a crash can leave — a sweep whose fault is not injected emits no
    `Event.internal`: `prune_all_apps` runs to completion (`pruneApps` returns `true`). -/
theorem C10_sweeps_total {g : GSys} (hg : g.Reach) (now : Time) :
    ∀ e ∈ (g.sys.step (.sweep now false)).out, e.notInternal = true := by
  have hn := hg.ginv.cinv.npOk
  obtain ⟨l, hl, hp⟩ := C10_sweep_no_internal (s := { g.sys with out := [], snaps := [] }) hn now
  intro e he
  have : (g.sys.step (.sweep now false)).out = l := by
    show (({ g.sys with out := [], snaps := [] } : Sys).expire now false).out = l
    rw [hl]; rfl
  rw [this] at he
  exact notInternal_of_intOnly_false (hp e he)

/-- the same right after a crash inside any operation, stated without going through `Reach` -/
theorem C10_sweep_after_crash {g : GSys} (hg : g.Reach) (op : Op) (hop : op.isCrash = false) (hw : g.WFOp op)
    (k : Nat) (now : Time) :
    ∀ e ∈ ((g.step (.crashIn k op)).sys.step (.sweep now false)).out, e.notInternal = true :=
  C10_sweeps_total (.step _ hg (hw.crashIn hop k)) now

/-! ### Non-vacuity: a concrete history with a crash between the two commits of a first claim -/

namespace C10Example

def claimOp : Op := .recv 1 11 (.int 2) (.claim (some "4") "mb1")

/-- connect, bind, a `claim` that dies right after its FIRST commit (mailbox row + nameplate row +
    nameplate side row are on disk, the mailbox side row is not), a new connection -/
def hist : List Op :=
  [ .connect 1,
    .recv 1 10 (.int 1) (.bind (some "app") (some "s1") none none),
    .crashIn 1 claimOp,
    .connect 2 ]

def g0 : GSys := GSys.init { usage := true } 0
def g : GSys := g0.run hist
/-- the state just before the crashing claim -/
def gPre : GSys := g0.run (hist.take 2)

theorem g_reach : g.Reach := GSys.reach_of_wfB _ _ _ (by decide +kernel)
theorem gPre_reach : gPre.Reach := GSys.reach_of_wfB _ _ _ (by decide +kernel)

/-- the hypotheses of `C10_crash_state_wf` are satisfiable: `claimOp` is plain and well-formed in
    the reachable state `gPre` … -/
example : claimOp.isCrash = false ∧ gPre.WFOp claimOp := ⟨rfl, GSys.wfOpB_sound (by decide +kernel)⟩

/-- … and it commits twice on the channel database, so there are two genuine crash points -/
example : ((({ gPre.sys with out := [], snaps := [] } : Sys).stepPlain claimOp).snaps.map
    (fun p => (p.1.mailboxes.length, p.1.nameplates.length, p.1.npSides.length, p.1.mbSides.length))) =
    [(1, 1, 1, 0), (1, 1, 1, 1)] := by decide +kernel

/-- the crash state of `hist`: the weak spot the invariants are designed around -/
example : g.sys.db.mailboxes.map (·.id) = ["mb1"] ∧ g.sys.db.nameplates.map (·.name) = ["4"] ∧
    g.sys.db.npSides.length = 1 ∧ g.sys.db.mbSides = [] ∧ g.sys.conns.map (·.id) = [2] := by
  decide +kernel

/-- the theorems apply to it -/
example : g.GInv := g_reach.ginv

/-- sharpness: the crash-free strengthening is FALSE in this reachable state (the mailbox has no
    opened side row), so `SInv` can only be claimed for crash-free histories -/
theorem C10_strong_needs_crash_free : g.Reach ∧ ¬ g.sys.db.SInv := by
  refine ⟨g_reach, fun h => ?_⟩
  have hm : (⟨"app", "mb1", 11, true⟩ : MailboxRow) ∈ g.sys.db.mailboxes := by decide +kernel
  obtain ⟨r, hr, _⟩ := h.mbOpened _ hm
  have : g.sys.db.mbSides = [] := by decide +kernel
  rw [this] at hr
  simp at hr

/-- evaluated, not derived: a later sweep on the crash state raises nothing and empties the store -/
example : ((g.sys.step (.sweep 100000 false)).out.all Event.notInternal) = true ∧
    (g.sys.step (.sweep 100000 false)).db = { nextNp := 2 } := by decide +kernel

/-- the flag is not constantly `true`: a faulted sweep does emit an `internal` event -/
example : ((g.sys.step (.sweep 100000 true)).out.all Event.notInternal) = false := by decide +kernel

end C10Example

end Wormhole

#print axioms Wormhole.C10_crash_state_wf
#print axioms Wormhole.C10_crash_history_wf
#print axioms Wormhole.C10_sweep_no_internal
#print axioms Wormhole.C10_sweeps_total
#print axioms Wormhole.C10_sweep_after_crash
#print axioms Wormhole.C10Example.C10_strong_needs_crash_free
