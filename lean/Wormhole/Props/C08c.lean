/-
  C08, finding K-reopen-after-close (known_findings.json; replay findings/K-reopen-after-close.json).

  `Mailbox.open` (server.py) inserts the `mailbox_sides` row of a side only when that side has no row yet; it
  never sets `opened` back to true.  A side that CLOSED a mailbox and opens it again (from any connection) is
  subscribed and gets the replay, but its row keeps `opened = 0`: the side does not count as open.  When the
  OTHER side closes, no row is `opened`, and the mailbox with its messages is deleted under the re-opened
  subscriber, whose later `add` is refused.  The model (`Sys.mailboxOpen`, Core.lean) mirrors this, and
  `C08.C08_alive_while_open` (Props/C08.lean) is stated on the `opened` column, so it is consistent with it.

  * `C08_reopen_after_close_counterexample`  the history of the finding, translated op by op, is well-formed
        (hence its states are reachable) and evaluates as described: after the re-open connection 3 listens on
        "m" and was sent the stored message while the row of its side "s1" has `opened = false`; the close of
        side "s2" deletes the mailbox row and the message and takes the handle of connection 3 away; the `add`
        of connection 3 is answered `error "must open mailbox before adding"`.
  * `C08_reopen_keeps_closed`                the general fact, for EVERY state: when the side row (mb, side)
        exists, `Sys.mailboxOpen` leaves the whole `mailbox_sides` table as it was (so the row is found again,
        unchanged: `opened` stays false if it was false); the same for a successful (`.ok`) `openMailbox`, after
        which the side is open (`Chan.OpenAt`) only if it was before.
  * `C08_alive_while_subscribed_partial`     what DOES hold: a mailbox row with a LISTENING connection whose
        side's row is `opened` survives every non-sweep operation other than that side's own close of it.  The
        FULL statement (comment at the theorem) drops the `opened` hypothesis and is false:
        `ExC.C08_alive_while_subscribed_full_fails` (every other hypothesis holds in the reachable state after
        the re-open, and the row is gone after s2's close).  The guard is exactly "the subscriber's side row
        is opened".
  * `C08_reopen_not_open`                    with the key of `mailbox_sides` unique (`PInv`): a closed side is
        not `OpenAt` after a successful re-open.
-/
import Wormhole.Props.C08
import Wormhole.Props.C09b
import Wormhole.Inv.WFDec

namespace Wormhole
namespace C08
open Sys

/-! ## the general fact: `open` never re-opens a side row -/

/-- **C08 (K-reopen-after-close, the cause), `Mailbox.open`.**  For every state: if the side row
    `(mb, side)` exists, `Mailbox.open(side, t)` leaves the `mailbox_sides` table as it was; the row is found
    again, unchanged -- `opened` stays false if it was false. -/
theorem C08_reopen_keeps_closed (s : Sys) (mb side : String) (t : Time) {r : MbSide}
    (hr : s.db.findMbSide mb side = some r) :
    (s.mailboxOpen mb side t).db.mbSides = s.db.mbSides ∧
    (s.mailboxOpen mb side t).db.findMbSide mb side = some r ∧
    (r.opened = false → ∀ r' ∈ (s.mailboxOpen mb side t).db.mbSides,
      r'.mailbox = mb → r'.side = side → r' ∈ s.db.mbSides) := by
  have h1 : (s.mailboxOpen mb side t).db.mbSides = s.db.mbSides := by
    unfold mailboxOpen
    simp only [hr, commit_db]
    rfl
  refine ⟨h1, ?_, ?_⟩
  · unfold Chan.findMbSide at hr ⊢
    rw [h1]; exact hr
  · intro _ r' hr' _ _
    rw [h1] at hr'; exact hr'

/-- **C08 (K-reopen-after-close, the cause), `open_mailbox`.**  For every state: if the side row
    `(mb, side)` exists and `open_mailbox(mb, side, t)` succeeds (`.ok`: neither `crowded` nor IntegrityError),
    the `mailbox_sides` table is as it was, the side's row is found again unchanged, and the side counts as
    open afterwards (`OpenAt`: a row of it with `opened = true`) only if some row of it was `opened` before:
    a successful re-open does not make a closed side open. -/
theorem C08_reopen_keeps_closed_openMailbox (s : Sys) (app mb side : String) (t : Time) {r : MbSide}
    (hr : s.db.findMbSide mb side = some r) {s' : Sys} (hok : s.openMailbox app mb side t = (s', .ok)) :
    s'.db.mbSides = s.db.mbSides ∧
    s'.db.findMbSide mb side = some r ∧
    (s'.db.OpenAt app mb side → ∃ r' ∈ s.db.mbSides, r'.mailbox = mb ∧ r'.side = side ∧ r'.opened = true) := by
  have h1 : s'.db.mbSides = s.db.mbSides := by
    unfold openMailbox at hok
    split at hok
    · cases hok
    · rename_i s1 hadd
      have ha : s1.db.mbSides = s.db.mbSides := by
        unfold addMailbox at hadd
        split at hadd
        · cases hadd; rfl
        · split at hadd
          · cases hadd
          · cases hadd; rfl
      have hr1 : s1.db.findMbSide mb side = some r := by
        unfold Chan.findMbSide at hr ⊢
        rw [ha]; exact hr
      have hm := (C08_reopen_keeps_closed s1 mb side t hr1).1
      dsimp only at hok
      split at hok
      · cases hok
      · cases hok
        rw [commit_db, hm, ha]
  refine ⟨h1, ?_, ?_⟩
  · unfold Chan.findMbSide at hr ⊢
    rw [h1]; exact hr
  · rintro ⟨_, r', hr', hk⟩
    rw [h1] at hr'
    exact ⟨r', hr', hk⟩

/-- the key of `mailbox_sides` identifies the row -/
theorem msKey_unique {l : List MbSide}
    (h : l.Pairwise (fun a b => ¬ (a.mailbox = b.mailbox ∧ a.side = b.side))) {a b : MbSide}
    (ha : a ∈ l) (hb : b ∈ l) (hab : a.mailbox = b.mailbox ∧ a.side = b.side) : a = b := by
  induction l with
  | nil => simp at ha
  | cons x xs ih =>
    simp only [List.pairwise_cons] at h
    simp only [List.mem_cons] at ha hb
    grind

/-- ... in particular, with the key of `mailbox_sides` unique (part of `PInv`, hence of `GInv`): if the row
    found has `opened = false`, the side is not open after a successful re-open -/
theorem C08_reopen_not_open {s : Sys} (hP : s.db.PInv) (app mb side : String) (t : Time) {r : MbSide}
    (hr : s.db.findMbSide mb side = some r) (hclosed : r.opened = false)
    {s' : Sys} (hok : s.openMailbox app mb side t = (s', .ok)) :
    ¬ s'.db.OpenAt app mb side := by
  intro ho
  obtain ⟨r', hr', hm, hs, hopen⟩ := (C08_reopen_keeps_closed_openMailbox s app mb side t hr hok).2.2 ho
  have hf := hr
  unfold Chan.findMbSide at hf
  have hmem := List.mem_of_find?_eq_some hf
  have hkey := List.find?_some hf
  simp only [decide_eq_true_eq] at hkey
  have : r' = r :=
    msKey_unique hP.msKey hr' hmem ⟨hm.trans hkey.1.symm, hs.trans hkey.2.symm⟩
  rw [this, hclosed] at hopen
  cases hopen

/-! ## the positive statement -/

/- The FULL statement -- "a mailbox row somebody is subscribed to survives every non-sweep operation other
   than that subscriber's side's own close":

     theorem C08_alive_while_subscribed {g : GSys} (hI : g.GInv) {app mb : String}
         (hrow : g.sys.db.HasBox app mb) {x : Conn} (hx : x ∈ g.sys.conns) (hl : x.listening = true)
         (happ : x.app = some app) (hmb : x.mailbox = some mb)
         (op : Op) (hns : op.core.isSweep = false)
         (hnc : ¬ ClosesSide g.sys op app mb (x.side.getD "")) :
         (g.sys.step op).db.HasBox app mb

   is FALSE for the model and the code (finding K-reopen-after-close):
   `ExC.C08_alive_while_subscribed_full_fails` below shows all its hypotheses and the negation of its conclusion
   in a reachable state of the history of `ExC.C08_reopen_after_close_counterexample`.  What is missing is `hside`:
   the subscriber's side row is `opened`. -/

/-- **C08 (a mailbox lives while an OPEN side is subscribed), partial: guard of K-reopen-after-close.**
    From a state satisfying `GInv`, for every operation that is not a sweep (crashes included): if the row
    `(app, mb)` exists, a connection `x` is listening on it, and the side row of `x`'s side is `opened`
    (`hside`, the guard), then the row is still there after the operation and the side is still open in it,
    unless the operation is a `close` of `(app, mb)` by `x`'s own side. -/
theorem C08_alive_while_subscribed_partial {g : GSys} (hI : g.GInv) {app mb : String}
    (hrow : g.sys.db.HasBox app mb) {x : Conn} (_hx : x ∈ g.sys.conns) (_hl : x.listening = true)
    (_happ : x.app = some app) (_hmb : x.mailbox = some mb)
    (hside : ∃ r ∈ g.sys.db.mbSides, r.mailbox = mb ∧ r.side = x.side.getD "" ∧ r.opened = true)
    (op : Op) (hns : op.core.isSweep = false)
    (hnc : ¬ ClosesSide g.sys op app mb (x.side.getD "")) :
    (g.sys.step op).db.HasBox app mb ∧
    ∃ r ∈ (g.sys.step op).db.mbSides, r.mailbox = mb ∧ r.side = x.side.getD "" ∧ r.opened = true := by
  obtain ⟨r, hr, hm, hs, ho⟩ := hside
  constructor
  · -- the row: `C08_alive_while_open`, whose exception is excluded by `hnc`
    rcases C08_alive_while_open hI hrow ⟨r, hr, hm, ho⟩ op hns with h | ⟨σ, hcl, hall⟩
    · exact h
    · have : r.side = σ := hall r hr hm ho
      rw [← this, hs] at hcl
      exact absurd hcl hnc
  · -- the guard persists: `C08_open_side_stays`
    exact (C08_open_side_stays hI (σ := x.side.getD "") ⟨hrow, r, hr, hm, hs, ho⟩ op hns hnc).2

/-! ## the history of the finding -/

namespace ExC

def bind (c : Nat) (t : Time) (σ : String) : Op := .recv c t .null (.bind (some "a") (some σ) none none)

/-- findings/K-reopen-after-close.json up to and including the re-open by connection 3 (the messages carry no
    "id": `Val.null`, as the model driver passes an absent id) -/
def Hopen : List Op :=
  [ .connect 1, bind 1 808 "s1", .recv 1 816 .null (.open_ (some "m")),
    .recv 1 824 .null (.add (some (.str "p")) (some (.str "00"))),
    .connect 2, bind 2 832 "s2", .recv 2 840 .null (.open_ (some "m")),
    .recv 1 848 .null (.close none (some "happy")),
    .connect 3, bind 3 856 "s1", .recv 3 864 .null (.open_ (some "m")) ]
def close2 : Op := .recv 2 872 .null (.close none (some "happy"))
def add3 : Op := .recv 3 880 .null (.add (some (.str "q")) (some (.str "01")))

def g0 : GSys := GSys.init { usage := true } 800
/-- after connection 3 (side s1 again) has opened "m" -/
def gA : GSys := g0.run Hopen
/-- after side s2 has closed -/
def gB : GSys := gA.step close2
/-- after connection 3 has tried to add -/
def gC : GSys := gB.step add3

theorem run_snoc (g : GSys) (l : List Op) (op : Op) : g.run (l ++ [op]) = (g.run l).step op := by
  induction l generalizing g with
  | nil => rfl
  | cons a l ih => exact ih (g.step a)

theorem gB_eq : gB = g0.run (Hopen ++ [close2]) := (run_snoc _ _ _).symm
theorem gC_eq : gC = g0.run ((Hopen ++ [close2]) ++ [add3]) := by
  rw [run_snoc, ← gB_eq]; rfl

theorem wf_all : g0.wfB ((Hopen ++ [close2]) ++ [add3]) = true := by decide +kernel
theorem gA_reach : gA.Reach := GSys.reach_of_wfB _ _ _ (by decide +kernel)
theorem gB_reach : gB.Reach := gB_eq ▸ GSys.reach_of_wfB _ _ _ (by decide +kernel)
theorem gC_reach : gC.Reach := gC_eq ▸ GSys.reach_of_wfB _ _ _ wf_all

instance (d : Chan) (app mb side : String) : Decidable (d.OpenAt app mb side) := by
  unfold Chan.OpenAt; infer_instance

/-- a frame's `synced` flag set (used only to evaluate outputs: with a usage database the flag of the frames
    sent after the usage record of a two-sided mailbox was written is `decide (udb = udisk)` on a row computed
    by `List.mergeSort`, which the kernel does not unfold; the flag is `true` by `C09_step_all`) -/
def flagTrue : Event → Event
  | .frame c f _ => .frame c f true
  | e => e

theorem map_flagTrue {l : List Event} (h : AllFramesSynced l) : l.map flagTrue = l := by
  induction l with
  | nil => rfl
  | cons e l ih =>
    have h1 : flagTrue e = e := by
      cases e with
      | frame c f b => rw [h _ (by simp) c f b rfl]; rfl
      | _ => rfl
    rw [List.map_cons, h1, ih (fun e he => h e (by simp [he]))]

/-- connection 3 while subscribed -/
def conn3 : Conn :=
  { id := 3, app := some "a", side := some "s1", listening := true, mailbox := some "m", mailboxId := some "m" }
def stored : Message := ⟨"a", "m", "s1", .str "p", .str "00", 824, .null⟩

/-- **K-reopen-after-close, the history of the finding in the model.** -/
theorem C08_reopen_after_close_counterexample :
    -- the whole history is well-formed; the three states are reachable
    g0.WF ((Hopen ++ [close2]) ++ [add3]) ∧ gA.Reach ∧ gB.Reach ∧ gC.Reach ∧
    -- after the re-open: connection 3 listens on "m" ...
    gA.sys.findConn 3 = some conn3 ∧ 3 ∈ gA.sys.listeners "a" "m" ∧
    -- ... and was sent the stored message (the replay) ...
    gA.sys.out = [.frame 3 (.ack .null) true, .commit .chan,
                  .frame 3 (.message "s1" (.str "p") (.str "00") 824 .null) true] ∧
    gA.sys.db.HasBox "a" "m" ∧ gA.sys.db.messages = [stored] ∧
    -- ... but the row of its side keeps `opened = false`: side s1 is not open, only s2 is
    gA.sys.db.findMbSide "m" "s1" = some ⟨"m", false, "s1", 816, some "happy"⟩ ∧
    ¬ gA.sys.db.OpenAt "a" "m" "s1" ∧
    gA.sys.db.mbSides = [⟨"m", false, "s1", 816, some "happy"⟩, ⟨"m", true, "s2", 840, none⟩] ∧
    -- the close of side s2 is answered `closed` ...
    gB.sys.out = [.frame 2 (.ack .null) true, .commit .chan, .commit .usage, .commit .chan,
                  .frame 2 .closed true] ∧
    -- ... the mailbox row and the message are gone, under the subscriber ...
    ¬ gB.sys.db.HasBox "a" "m" ∧ gB.sys.db.messages = [] ∧ gB.sys.db.mbSides = [] ∧
    -- ... which no longer holds a handle and no longer listens
    gB.sys.findConn 3 = some { conn3 with listening := false, mailbox := none } ∧
    gB.sys.listeners "a" "m" = [] ∧
    -- its `add` is refused; nothing is stored
    gC.sys.out = [.frame 3 (.ack .null) true, .frame 3 (.error "must open mailbox before adding") true] ∧
    gC.sys.db = gB.sys.db :=
  ⟨GSys.wfB_sound wf_all, gA_reach, gB_reach, gC_reach,
    by decide +kernel, by decide +kernel, by decide +kernel, by decide +kernel, by decide +kernel,
    by decide +kernel, by decide +kernel, by decide +kernel,
    (map_flagTrue (C09_step_all gA_reach.ginv close2)).symm.trans (by decide +kernel),
    by decide +kernel, by decide +kernel, by decide +kernel, by decide +kernel, by decide +kernel,
    (map_flagTrue (C09_step_all gB_reach.ginv add3)).symm.trans (by decide +kernel),
    by decide +kernel⟩

/-- the step that deletes the mailbox is not a close by the subscriber's side (s1): it is s2's -/
theorem close2_not_own : ¬ ClosesSide gA.sys close2 "a" "m" (conn3.side.getD "") := by
  rintro ⟨c, t, id, m, mood, x, hop, hx, _, _, hside⟩
  cases hop
  have h2 : gA.sys.findConn 2 = some { conn3 with id := 2, side := some "s2" } := by decide +kernel
  rw [h2] at hx
  cases hx
  revert hside
  decide

/-- **the FULL statement fails** (`full_fails`): every hypothesis of `C08_alive_while_subscribed_partial`
    EXCEPT the guard `hside` holds in the reachable state `gA` for connection 3 and the operation `close2`
    -- and the row is gone after it.  The guard fails: no row of side s1 is `opened`. -/
theorem C08_alive_while_subscribed_full_fails :
    gA.Reach ∧ gA.GInv ∧ gA.sys.db.HasBox "a" "m" ∧ conn3 ∈ gA.sys.conns ∧ conn3.listening = true ∧
    conn3.app = some "a" ∧ conn3.mailbox = some "m" ∧ close2.core.isSweep = false ∧
    ¬ ClosesSide gA.sys close2 "a" "m" (conn3.side.getD "") ∧
    ¬ (gA.sys.step close2).db.HasBox "a" "m" ∧
    ¬ (∃ r ∈ gA.sys.db.mbSides, r.mailbox = "m" ∧ r.side = conn3.side.getD "" ∧ r.opened = true) :=
  ⟨gA_reach, gA_reach.ginv, by decide +kernel, by decide +kernel, rfl, rfl, rfl, rfl, close2_not_own,
    by decide +kernel, by decide +kernel⟩

/-! ### non-vacuity of the general theorems -/

/-- `C08_reopen_keeps_closed` / `_openMailbox` / `C08_reopen_not_open`: their hypotheses hold in the reachable
    state just before the re-open (connection 3 bound to side s1, whose row is closed), and the re-open is
    answered `.ok` -/
def gPre : GSys := g0.run Hopen.dropLast
theorem gPre_reach : gPre.Reach := GSys.reach_of_wfB _ _ _ (by decide +kernel)
example : gPre.sys.db.findMbSide "m" "s1" = some ⟨"m", false, "s1", 816, some "happy"⟩ ∧
    (gPre.sys.openMailbox "a" "m" "s1" 864).2 = .ok := by decide +kernel
example : ¬ (gPre.sys.openMailbox "a" "m" "s1" 864).1.db.OpenAt "a" "m" "s1" :=
  C08_reopen_not_open gPre_reach.ginv.cinv.toPInv "a" "m" "s1" 864 (r := ⟨"m", false, "s1", 816, some "happy"⟩)
    (by decide +kernel) rfl (s' := (gPre.sys.openMailbox "a" "m" "s1" 864).1)
    (Prod.ext rfl (by decide +kernel))
example : (gPre.sys.mailboxOpen "m" "s1" 864).db.mbSides = gPre.sys.db.mbSides :=
  (C08_reopen_keeps_closed gPre.sys "m" "s1" 864 (r := ⟨"m", false, "s1", 816, some "happy"⟩)
    (by decide +kernel)).1

/-- `C08_alive_while_subscribed_partial`: all hypotheses, the guard included, hold in the reachable state
    `gA` for the OTHER subscriber, connection 2 of side s2 (whose row is `opened`), and e.g. the operation
    `add3`; the theorem gives that the row survives -/
def conn2 : Conn :=
  { id := 2, app := some "a", side := some "s2", listening := true, mailbox := some "m", mailboxId := some "m" }
example : (gA.sys.step add3).db.HasBox "a" "m" :=
  (C08_alive_while_subscribed_partial gA_reach.ginv
    (app := "a") (mb := "m") (by decide +kernel) (x := conn2) (by decide +kernel) rfl rfl rfl
    (by decide +kernel) add3 rfl
    (by rintro ⟨c, t, id, m, mood, x, hop, _⟩; cases hop)).1

end ExC

end C08
end Wormhole

#print axioms Wormhole.C08.C08_reopen_keeps_closed
#print axioms Wormhole.C08.C08_reopen_keeps_closed_openMailbox
#print axioms Wormhole.C08.C08_reopen_not_open
#print axioms Wormhole.C08.C08_alive_while_subscribed_partial
#print axioms Wormhole.C08.ExC.C08_reopen_after_close_counterexample
#print axioms Wormhole.C08.ExC.C08_alive_while_subscribed_full_fails
