/-
  C12, second part (audit B, P6) — REFUSED commands are activity too.

  `C12_activity_stamps_{claim,allocate,open,add}` (Props/C12.lean) are about commands that were answered
  without an `error` frame.  But `AppNamespace.open_mailbox` stamps the mailbox row (`_add_mailbox` /
  `Mailbox.open` → `_touch`) BEFORE it raises `CrowdedError`, so an `open`, a `claim` or a `close` that is
  answered `crowded` has set `updated = t` all the same (model: `Sys.openMailbox` returns the stamped state
  with `.crowded`; code: confirmed by the audit, `updated = 50` after a crowded open at 50).  And a `close`
  sent on a connection that does not hold the mailbox first opens it (`handle_close`: `if not self._mailbox:
  self._mailbox = open_mailbox(...)`) and thereby stamps it — finding K-close-touch, seen from C12.

  * `C12_activity_stamps_open_crowded`, `C12_activity_stamps_claim_crowded`, `C12_activity_stamps_close_crowded`
        an `open` / `claim` / `close` at time `t` answered by the frame `error "crowded"`: the mailbox row
        (of the named mailbox / of the nameplate's mailbox) exists under the connection's app with
        `updated = t`;
  * `C12_activity_stamps_refused`      the three together;
  * `C12_activity_stamps_close_reopen` a `close` at `t` on a connection WITHOUT a handle, answered `closed`:
        every mailbox row with that id that is left has `updated = t`; if the mailbox survives (another side
        still has it open) its row is `Stamped … t`, otherwise no row with that id is left;
  so all of these count as activity for `C12_recent_activity_survives` / `C12_activity_survives`.
-/
import Wormhole.Props.C12
import Wormhole.Inv.SimDefs
import Wormhole.Inv.MbStep

namespace Wormhole
open Generated

namespace Sys

/-- not the frame `f` (to anybody) -/
def NotF (f : Frame) (e : Event) : Prop := ∀ c b, e ≠ .frame c f b

theorem notF_of_commit {f : Frame} (e : Event) (h : IsCommit e) : NotF f e := by
  obtain ⟨w, rfl⟩ := h
  intro c b hh; cases hh

theorem CExt.notF {f : Frame} {s s' : Sys} (h : CExt s s') : OutExt (NotF f) s s' :=
  OutExt.mono notF_of_commit h

/-- `open_mailbox` that ends in `CrowdedError` or normally: the continuation of `claim_nameplate` -/
theorem claimCont_stamped_any {s s1 : Sys} {app npid mb side t r}
    (h : claimCont s app npid mb side t = (s1, r)) (hr : r ≠ .integrity) :
    s1.Stamped app mb t ∧ s1.db.nameplates = s.db.nameplates := by
  have hnp := (claimCont_spec h).1.np
  simp only [Chan.npPart, Prod.mk.injEq] at hnp
  unfold claimCont at h
  dsimp only at h
  split at h
  · simp only [Prod.mk.injEq] at h; exact absurd h.2.symm hr
  · rename_i s3 e
    simp only [Prod.mk.injEq] at h
    obtain ⟨rfl, _⟩ := h
    exact ⟨openMailbox_stamped e (by simp), hnp.1⟩
  · rename_i s3 e
    split at h <;>
    · simp only [Prod.mk.injEq] at h
      obtain ⟨rfl, _⟩ := h
      exact ⟨openMailbox_stamped e (by simp), hnp.1⟩

theorem claimTail_stamped_crowded {s s1 : Sys} {app npid mb side t}
    (h : s.claimTail app npid mb side t = (s1, .crowded)) :
    s1.Stamped app mb t ∧ s1.db.nameplates = s.db.nameplates := by
  rw [claimTail_eq] at h
  split at h
  · obtain ⟨a, b⟩ := claimCont_stamped_any h (by simp)
    exact ⟨a, b⟩
  · split at h
    · exact claimCont_stamped_any h (by simp)
    · simp at h

/-- `claim_nameplate(name, side, when)` that raises `CrowdedError`: the nameplate `(app, name)` exists and
    the row of its mailbox is stamped `when` all the same -/
theorem claimNameplate_stamped_crowded {s s1 : Sys} {app name side t fresh}
    (h : s.claimNameplate app name side t fresh = (s1, .crowded)) :
    ∃ n ∈ s1.db.nameplates, n.app = app ∧ n.name = name ∧ s1.Stamped app n.mailbox t := by
  unfold claimNameplate at h
  split at h
  · split at h
    · simp at h
    · rename_i s0 e
      obtain ⟨b, c⟩ := claimTail_stamped_crowded h
      refine ⟨⟨s0.db.nextNp, app, name, fresh⟩, ?_, rfl, rfl, b⟩
      rw [c]; simp [Chan.insNameplate]
  · rename_i row e
    obtain ⟨b, c⟩ := claimTail_stamped_crowded h
    have := List.find?_some e
    simp only [decide_eq_true_eq] at this
    refine ⟨row, ?_, this.1, this.2, b⟩
    rw [c]; exact List.mem_of_find?_eq_some e

theorem c12b_uNps_db (s : Sys) (app : String) (t : Time) : ∀ (l : List Nameplate), (s.uNps app t l).1.db = s.db := by
  intro l
  induction l generalizing s with
  | nil => rfl
  | cons np rest ih =>
    unfold Sys.uNps
    have hd := s.uNp_db app (s.db.npSidesOf np.id) t false
    cases e : s.uNp app (s.db.npSidesOf np.id) t false with
    | mk a1 b1 =>
      rw [e] at hd
      cases b1 with
      | false => exact hd
      | true => dsimp only; rw [ih a1]; exact hd

/-- what `Mailbox.close` does to the table `mailboxes`: nothing, or `DELETE FROM mailboxes WHERE id=mb` -/
theorem mailboxClose_mailboxes (s : Sys) (app mb side : String) (mood : Option String) (t : Time) :
    (s.mailboxClose app mb side mood t).1.db.mailboxes = s.db.mailboxes ∨
    (s.mailboxClose app mb side mood t).1.db.mailboxes = s.db.mailboxes.filter (fun r => ¬ r.id = mb) ∨
    (s.mailboxClose app mb side mood t).2 = false := by
  rw [mailboxClose_eq]
  cases s.db.findMailbox app mb with
  | none => exact Or.inl rfl
  | some row =>
    dsimp only
    cases s.db.findMbSide mb side with
    | none => exact Or.inl rfl
    | some r =>
      dsimp only
      split
      · left; simp [Chan.closeSide]
      · split
        · exact Or.inr (Or.inr rfl)
        · rename_i s2 e
          right; left
          have hd : s2.db = ((s.modDb (·.closeSide mb side mood)).commit).db := by
            have := c12b_uNps_db ((s.modDb (·.closeSide mb side mood)).commit) app t
              (((s.modDb (·.closeSide mb side mood)).commit).db.nameplatesOfMailbox app mb)
            rw [e] at this; exact this
          simp only [stopListeners, commit_db, uCommit_db, uMb_db, modDb_db, hd]
          simp [Chan.delMailbox, Chan.delMbSidesOf, Chan.delMessagesOf, Chan.delNameplatesOfMailbox,
            Chan.delNpSidesOfMailbox, Chan.closeSide]

end Sys

open Sys

private theorem contra_crowd {f : Frame} {s' : Sys} {c : Nat}
    (h : ∃ b, Event.frame c f b ∈ s'.out) (hn : ∀ e ∈ s'.out, NotF f e) : False := by
  obtain ⟨b, hb⟩ := h
  exact hn _ hb c b rfl

/-- the events of a step that starts with `ack` and then only commits, replayed messages and frames other
    than `error "crowded"` -/
private theorem ack_notCrowded {f : Frame} (hf : ∀ i, Frame.ack i ≠ f) (s : Sys) (c : Nat) (id : Val) :
    ∀ e ∈ (({ s with out := [], snaps := [] } : Sys).send c (.ack id)).out, NotF f e := by
  intro e he
  simp [send, emit] at he
  subst he
  intro c' b hh
  simp only [Event.frame.injEq] at hh
  exact hf _ hh.2.1

private theorem all_of_outExt {f : Frame} {s s' : Sys} (h : OutExt (NotF f) s s') (h0 : ∀ e ∈ s.out, NotF f e) :
    ∀ e ∈ s'.out, NotF f e := by
  obtain ⟨l, e, p⟩ := h
  intro x hx
  rw [e] at hx
  rcases List.mem_append.1 hx with h1 | h1
  · exact h0 x h1
  · exact p x h1

private theorem err_notCrowded {c : Nat} {txt : String} (h : txt ≠ "crowded") (b : Bool) :
    NotF (.error "crowded") (.frame c (.error txt) b) := by
  intro c' b' hh
  simp only [Event.frame.injEq, Frame.error.injEq] at hh
  exact h hh.2.1

private theorem frame_notF {f f' : Frame} {c : Nat} (h : f' ≠ f) (b : Bool) : NotF f (.frame c f' b) := by
  intro c' b' hh
  simp only [Event.frame.injEq] at hh
  exact h hh.2.1

private theorem internal_notF {f : Frame} (c : Option Nat) (cls : String) : NotF f (.internal c cls) := by
  intro c' b' hh; cases hh

/-- **C12_activity_stamps (open, refused).**  An `open` at time `t` on a bound connection that is answered by
    the frame `error "crowded"`: it named a mailbox, and the row of that mailbox under the connection's app
    exists with `updated = t` (every row with that id has `updated = t`) — `open_mailbox` stamps before it
    raises. -/
theorem C12_activity_stamps_open_crowded {s : Sys} {c : Nat} {x : Conn} {app : String}
    (hx : s.findConn c = some x) (happ : x.app = some app) (t : Time) (id : Val) (m : Option String)
    (hcr : ∃ b, Event.frame c (.error "crowded") b ∈ (s.step (.recv c t id (.open_ m))).out) :
    ∃ mb, m = some mb ∧ (s.step (.recv c t id (.open_ m))).Stamped app mb t := by
  have hx0 : ({ s with out := [], snaps := [] } : Sys).findConn c = some x := hx
  have h0 := ack_notCrowded (f := .error "crowded") (fun _ h => by cases h) s c id
  rw [c12_step_recv] at hcr ⊢
  simp only [onMessage, hx0, happ, handleOpen] at hcr ⊢
  split at hcr
  · exact (contra_crowd hcr (all_of_outExt (OutExt.refl.send (fun b => err_notCrowded (by decide) b)) h0)).elim
  · rename_i hmo
    rw [if_neg hmo]
    cases m with
    | none =>
      exact (contra_crowd hcr (all_of_outExt (OutExt.refl.send (fun b => err_notCrowded (by decide) b)) h0)).elim
    | some mb =>
      refine ⟨mb, rfl, ?_⟩
      dsimp only at hcr ⊢
      have hce := (CExt.openMailbox (app := app) (mb := mb) (side := x.side.getD "") (t := t)
        (OutExt.refl (P := IsCommit) (s := (({ s with out := [], snaps := [] } : Sys).send c (.ack id)).updConn x.id
          (fun y => { y with mailboxId := some mb })))).notF (f := .error "crowded")
      generalize hE : Sys.openMailbox _ app mb _ t = p at hcr hce ⊢
      obtain ⟨s1, res⟩ := p
      cases res <;> dsimp only at hcr hce ⊢
      · -- ok: ack, commits, replayed `message` frames
        refine (contra_crowd hcr (all_of_outExt ?_ h0)).elim
        unfold replay
        exact OutExt.foldl_send _ _ _ (OutExt.updConn hce) (fun a _ b c' b' hh => by cases hh)
      · have := openMailbox_stamped hE (by simp)
        simpa [Sys.Stamped] using this
      · refine (contra_crowd hcr (all_of_outExt (hce.emit ?_) h0)).elim
        intro c' b' hh; cases hh

/-- **C12_activity_stamps (claim, refused).**  A `claim` at time `t` answered by the frame `error "crowded"`:
    it named a nameplate, that nameplate exists under the connection's app afterwards, and the row of its
    mailbox has `updated = t`. -/
theorem C12_activity_stamps_claim_crowded {s : Sys} {c : Nat} {x : Conn} {app : String}
    (hx : s.findConn c = some x) (happ : x.app = some app) (t : Time) (id : Val) (n : Option String)
    (fresh : String)
    (hcr : ∃ b, Event.frame c (.error "crowded") b ∈ (s.step (.recv c t id (.claim n fresh))).out) :
    ∃ name, n = some name ∧ ∃ np ∈ (s.step (.recv c t id (.claim n fresh))).db.nameplates,
      np.app = app ∧ np.name = name ∧ (s.step (.recv c t id (.claim n fresh))).Stamped app np.mailbox t := by
  have hx0 : ({ s with out := [], snaps := [] } : Sys).findConn c = some x := hx
  have h0 := ack_notCrowded (f := .error "crowded") (fun _ h => by cases h) s c id
  rw [c12_step_recv] at hcr ⊢
  simp only [onMessage, hx0, happ, handleClaim] at hcr ⊢
  cases n with
  | none =>
    exact (contra_crowd hcr (all_of_outExt (OutExt.refl.send (fun b => err_notCrowded (by decide) b)) h0)).elim
  | some name =>
    refine ⟨name, rfl, ?_⟩
    dsimp only at hcr ⊢
    split at hcr
    · exact (contra_crowd hcr (all_of_outExt (OutExt.refl.send (fun b => err_notCrowded (by decide) b)) h0)).elim
    · rename_i hdc
      rw [if_neg hdc]
      have hce := (CExt.claimNameplate (app := app) (name := name) (side := x.side.getD "") (t := t) (fresh := fresh)
        (OutExt.refl (P := IsCommit) (s := (({ s with out := [], snaps := [] } : Sys).send c (.ack id)).updConn x.id
          (fun y => { y with didClaim := true, nameplateId := some name })))).notF (f := .error "crowded")
      generalize hE : Sys.claimNameplate _ app name _ t fresh = p at hcr hce ⊢
      obtain ⟨s1, res⟩ := p
      cases res <;> dsimp only at hcr hce ⊢
      · refine (contra_crowd hcr (all_of_outExt (hce.send ?_) h0)).elim
        intro b c' b' hh; cases hh
      · obtain ⟨np, hnp, f1, f2, f3⟩ := claimNameplate_stamped_crowded hE
        exact ⟨np, hnp, f1, f2, by simpa [Sys.Stamped] using f3⟩
      · exact (contra_crowd hcr (all_of_outExt (hce.send (fun b => err_notCrowded (by decide) b)) h0)).elim
      · refine (contra_crowd hcr (all_of_outExt (hce.emit ?_) h0)).elim
        intro c' b' hh; cases hh


/-! ## close -/

/-- the texts validation answers a `close` with are not "crowded" / the answer is not `closed` -/
private theorem close_reject_out {s : Sys} {c : Nat} {x : Conn} {t : Time} {id : Val} {m mood} {text : String}
    (hx : s.findConn c = some x) (hr : rejectText x (.close m mood) = some text) {f : Frame}
    (hf1 : ∀ i, Frame.ack i ≠ f) (hf2 : Frame.error text ≠ f) :
    ∀ e ∈ (({ s with out := [], snaps := [] } : Sys).onMessage c t id (.close m mood)).out, NotF f e := by
  have hx0 : ({ s with out := [], snaps := [] } : Sys).findConn c = some x := hx
  rw [onMessage_rejected hx0 hr]
  simp only [reduceCtorEq, if_false]
  intro e he
  simp [sendError, send, emit] at he
  rcases he with rfl | rfl
  · exact frame_notF (hf1 _) _
  · exact frame_notF hf2 _

private theorem close_text_ne_crowded {x : Conn} {m mood} {text : String}
    (hr : rejectText x (.close m mood) = some text) : text ≠ "crowded" := by
  simp only [rejectText, needBind] at hr
  repeat' split at hr
  all_goals first | (cases hr; decide) | (cases hr)

/-- **C12_activity_stamps (close, refused).**  A `close` at time `t` answered by the frame `error "crowded"`:
    the connection held no handle (the close went through the implicit `open_mailbox`), the close resolved
    to a mailbox name `mb` (the `mailbox` key, else the remembered id), and the row of `mb` under the
    connection's app exists with `updated = t`. -/
theorem C12_activity_stamps_close_crowded {s : Sys} {c : Nat} {x : Conn} {app : String}
    (hx : s.findConn c = some x) (happ : x.app = some app) (t : Time) (id : Val) (m mood : Option String)
    (hcr : ∃ b, Event.frame c (.error "crowded") b ∈ (s.step (.recv c t id (.close m mood))).out) :
    x.mailbox = none ∧ ∃ mb, x.closeName m = some mb ∧ (s.step (.recv c t id (.close m mood))).Stamped app mb t := by
  have hx0 : ({ s with out := [], snaps := [] } : Sys).findConn c = some x := hx
  have hid := c12_findConn_id hx
  have h0 := ack_notCrowded (f := .error "crowded") (fun _ h => by cases h) s c id
  rw [c12_step_recv] at hcr ⊢
  cases hr : rejectText x (.close m mood) with
  | some text =>
    exact (contra_crowd hcr (close_reject_out hx hr (fun _ h => by cases h)
      (by intro h; cases h; exact close_text_ne_crowded hr rfl))).elim
  | none =>
    obtain ⟨_, _, ⟨mb, hn⟩, _⟩ := close_accepted hr
    rw [onMessage_close_eq hx0 hr happ hn] at hcr ⊢
    unfold closeGo at hcr ⊢
    cases hm : x.mailbox with
    | some h =>
      exfalso
      simp only [hm] at hcr
      have hce := (CExt.mailboxClose (app := app) (mb := h) (side := x.side.getD "") (mood := mood) (t := t)
        (OutExt.refl (P := IsCommit) (s := (({ s with out := [], snaps := [] } : Sys).send c (.ack id)).updConn x.id
          (fun y => { y with listening := false, didClose := true })))).notF (f := .error "crowded")
      generalize hE : Sys.mailboxClose _ app h _ mood t = p at hcr hce
      obtain ⟨s3, ok⟩ := p
      cases ok <;> dsimp only at hcr hce
      · exact contra_crowd hcr (all_of_outExt (hce.emit (internal_notF _ _)) h0)
      · exact contra_crowd hcr (all_of_outExt ((OutExt.updConn hce).send (fun b => frame_notF (by decide) b)) h0)
    | none =>
      refine ⟨rfl, mb, hn, ?_⟩
      simp only [hm] at hcr ⊢
      have hce := (CExt.openMailbox (app := app) (mb := mb) (side := x.side.getD "") (t := t)
        (OutExt.refl (P := IsCommit) (s := (({ s with out := [], snaps := [] } : Sys).send c (.ack id))))).notF
          (f := .error "crowded")
      generalize hE : Sys.openMailbox _ app mb _ t = p at hcr hce ⊢
      obtain ⟨s1, res⟩ := p
      cases res <;> dsimp only at hcr hce ⊢
      · exfalso
        simp only [if_true] at hcr
        have hce2 := (CExt.mailboxClose (app := app) (mb := mb) (side := x.side.getD "") (mood := mood) (t := t)
          (OutExt.refl (P := IsCommit) (s := (s1.updConn x.id (fun y => { y with mailbox := some mb })).updConn x.id
            (fun y => { y with listening := false, didClose := true })))).notF (f := .error "crowded")
        generalize hE2 : Sys.mailboxClose _ app mb _ mood t = p2 at hcr hce2
        obtain ⟨s3, ok⟩ := p2
        have hce1 : OutExt (NotF (.error "crowded")) ((({ s with out := [], snaps := [] } : Sys).send c (.ack id)))
            s3 := (OutExt.updConn (OutExt.updConn hce)).trans hce2
        cases ok <;> dsimp only at hcr
        · exact contra_crowd hcr (all_of_outExt (hce1.emit (internal_notF _ _)) h0)
        · exact contra_crowd hcr (all_of_outExt ((OutExt.updConn hce1).send (fun b => frame_notF (by decide) b)) h0)
      · have := openMailbox_stamped hE (by simp)
        simpa [Sys.Stamped] using this
      · exact (contra_crowd hcr (all_of_outExt ((OutExt.updConn hce).emit (internal_notF _ _)) h0)).elim

/-- **C12_activity_stamps_refused.**  An `open`, `claim` or `close` at time `t` that the server refuses with
    `error "crowded"` has nevertheless stamped the mailbox: a row of the connection's app with `updated = t`
    exists afterwards (for `open`: the named mailbox; `claim`: the mailbox of the named nameplate; `close`:
    the mailbox the close resolved to).  `open_mailbox` is called — and commits — before the exception. -/
theorem C12_activity_stamps_refused {s : Sys} {c : Nat} {x : Conn} {app : String}
    (hx : s.findConn c = some x) (happ : x.app = some app) (t : Time) (id : Val) (cmd : Cmd)
    (hcmd : (∃ m, cmd = .open_ m) ∨ (∃ n f, cmd = .claim n f) ∨ (∃ m mood, cmd = .close m mood))
    (hcr : ∃ b, Event.frame c (.error "crowded") b ∈ (s.step (.recv c t id cmd)).out) :
    ∃ mb, (s.step (.recv c t id cmd)).Stamped app mb t ∧
      (∀ m, cmd = .open_ m → m = some mb) ∧
      (∀ n f, cmd = .claim n f → ∃ name, n = some name ∧
        ∃ np ∈ (s.step (.recv c t id cmd)).db.nameplates, np.app = app ∧ np.name = name ∧ np.mailbox = mb) ∧
      (∀ m mood, cmd = .close m mood → x.mailbox = none ∧ x.closeName m = some mb) := by
  rcases hcmd with ⟨m, rfl⟩ | ⟨n, f, rfl⟩ | ⟨m, mood, rfl⟩
  · obtain ⟨mb, e, hst⟩ := C12_activity_stamps_open_crowded hx happ t id m hcr
    refine ⟨mb, hst, ?_, ?_, ?_⟩
    · intro m' h; cases h; exact e
    · intro _ _ h; cases h
    · intro _ _ h; cases h
  · obtain ⟨name, e, np, hnp, f1, f2, hst⟩ := C12_activity_stamps_claim_crowded hx happ t id n f hcr
    refine ⟨np.mailbox, hst, ?_, ?_, ?_⟩
    · intro _ h; cases h
    · intro n' f' h; cases h; exact ⟨name, e, np, hnp, f1, f2, rfl⟩
    · intro _ _ h; cases h
  · obtain ⟨hm, mb, hn, hst⟩ := C12_activity_stamps_close_crowded hx happ t id m mood hcr
    refine ⟨mb, hst, ?_, ?_, ?_⟩
    · intro _ h; cases h
    · intro _ _ h; cases h
    · intro m' mood' h; cases h; exact ⟨hm, hn⟩

/-- **C12_activity_stamps_close_reopen (K-close-touch, seen from C12).**  A `close` at time `t` on a connection
    that does NOT hold a mailbox handle (never opened, or the mailbox was closed under it), answered
    `closed`: the close resolved to a mailbox name `mb`; `handle_close` opened that mailbox first, so
    afterwards EVERY mailbox row with id `mb` has `updated = t`; if the mailbox survived the close (another
    side still has it open, or the table still has the row for any reason) its row under the connection's app
    is `Stamped … t`; otherwise no row with id `mb` is left.  So a close by a side that is not subscribed
    counts as activity on a surviving mailbox. -/
theorem C12_activity_stamps_close_reopen {s : Sys} {c : Nat} {x : Conn} {app : String}
    (hx : s.findConn c = some x) (happ : x.app = some app) (hnoh : x.mailbox = none) (t : Time) (id : Val)
    (m mood : Option String)
    (hcl : ∃ b, Event.frame c .closed b ∈ (s.step (.recv c t id (.close m mood))).out) :
    ∃ mb, x.closeName m = some mb ∧
      (∀ r ∈ (s.step (.recv c t id (.close m mood))).db.mailboxes, r.id = mb → r.updated = t) ∧
      ((s.step (.recv c t id (.close m mood))).Stamped app mb t ∨
        ∀ r ∈ (s.step (.recv c t id (.close m mood))).db.mailboxes, r.id ≠ mb) := by
  have hx0 : ({ s with out := [], snaps := [] } : Sys).findConn c = some x := hx
  have h0 := ack_notCrowded (f := .closed) (fun _ h => by cases h) s c id
  rw [c12_step_recv] at hcl ⊢
  cases hr : rejectText x (.close m mood) with
  | some text =>
    exact (contra_crowd hcl (close_reject_out hx hr (fun _ h => by cases h) (by intro h; cases h))).elim
  | none =>
    obtain ⟨_, _, ⟨mb, hn⟩, _⟩ := close_accepted hr
    refine ⟨mb, hn, ?_⟩
    rw [onMessage_close_eq hx0 hr happ hn] at hcl ⊢
    unfold closeGo at hcl ⊢
    simp only [hnoh] at hcl ⊢
    have hce := (CExt.openMailbox (app := app) (mb := mb) (side := x.side.getD "") (t := t)
      (OutExt.refl (P := IsCommit) (s := (({ s with out := [], snaps := [] } : Sys).send c (.ack id))))).notF
        (f := .closed)
    generalize hE : Sys.openMailbox _ app mb _ t = p at hcl hce ⊢
    obtain ⟨s1, res⟩ := p
    cases res <;> dsimp only at hcl hce ⊢
    · simp only [if_true] at hcl ⊢
      obtain ⟨⟨r0, hr0, e1, e2, e3⟩, hall⟩ := openMailbox_stamped hE (by simp)
      have hmc := mailboxClose_mailboxes ((s1.updConn x.id (fun y => { y with mailbox := some mb })).updConn x.id
        (fun y => { y with listening := false, didClose := true })) app mb (x.side.getD "") mood t
      have hce2 := (CExt.mailboxClose (app := app) (mb := mb) (side := x.side.getD "") (mood := mood) (t := t)
        (OutExt.refl (P := IsCommit) (s := (s1.updConn x.id (fun y => { y with mailbox := some mb })).updConn x.id
          (fun y => { y with listening := false, didClose := true })))).notF (f := .closed)
      generalize hE2 : Sys.mailboxClose _ app mb _ mood t = p2 at hcl hce2 hmc ⊢
      obtain ⟨s3, ok⟩ := p2
      have hce1 : OutExt (NotF .closed) ((({ s with out := [], snaps := [] } : Sys).send c (.ack id)))
          s3 := (OutExt.updConn (OutExt.updConn hce)).trans hce2
      cases ok <;> dsimp only at hcl hmc ⊢
      · exact (contra_crowd hcl (all_of_outExt (hce1.emit (internal_notF _ _)) h0)).elim
      · show (∀ r ∈ s3.db.mailboxes, r.id = mb → r.updated = t) ∧
          ((∃ r ∈ s3.db.mailboxes, r.id = mb ∧ r.app = app ∧ r.updated = t) ∧
              (∀ r ∈ s3.db.mailboxes, r.id = mb → r.updated = t) ∨
            ∀ r ∈ s3.db.mailboxes, r.id ≠ mb)
        rcases hmc with hmc | hmc | hmc
        · rw [hmc]
          exact ⟨hall, Or.inl ⟨⟨r0, hr0, e1, e2, e3⟩, hall⟩⟩
        · rw [hmc]
          refine ⟨?_, Or.inr ?_⟩
          · intro r hr; simp at hr; intro e; exact absurd e hr.2
          · intro r hr; simp at hr; exact hr.2
        · cases hmc
    · exact (contra_crowd hcl (all_of_outExt ((OutExt.updConn hce).send (fun b => frame_notF (by decide) b)) h0)).elim
    · exact (contra_crowd hcl (all_of_outExt ((OutExt.updConn hce).emit (internal_notF _ _)) h0)).elim


/-! ## Non-vacuity -/

namespace C12bExample

def bind (c : Nat) (t : Time) (side : String) : Op := .recv c t .null (.bind (some "a") (some side) none none)

/-- sides s1 and s2 have claimed nameplate "4" and opened its mailbox "m" (at 10 … 13); connections 3 (side s3)
    and 4 (side s1 again) are bound and hold nothing -/
def H : List Op :=
  [.connect 1, bind 1 1 "s1", .connect 2, bind 2 2 "s2", .connect 3, bind 3 3 "s3", .connect 4, bind 4 4 "s1",
   .recv 1 10 .null (.claim (some "4") "m"), .recv 2 11 .null (.claim (some "4") "zz"),
   .recv 1 12 .null (.open_ (some "m")), .recv 2 13 .null (.open_ (some "m"))]

def s : Sys := (Sys.run {} H).1
def x3 : Conn := { id := 3, app := some "a", side := some "s3" }
def x4 : Conn := { id := 4, app := some "a", side := some "s1" }

theorem find3 : s.findConn 3 = some x3 := by decide +kernel
theorem find4 : s.findConn 4 = some x4 := by decide +kernel

example : s.db.mailboxes = [⟨"a", "m", 13, true⟩] := by decide +kernel

/-- a third side opens at 50: answered `crowded`, and the row is stamped 50 -/
theorem open_crowded : ∃ b, Event.frame 3 (.error "crowded") b ∈ (s.step (.recv 3 50 .null (.open_ (some "m")))).out :=
  ⟨true, by decide +kernel⟩
example := C12_activity_stamps_open_crowded find3 rfl 50 .null (some "m") open_crowded
example : (s.step (.recv 3 50 .null (.open_ (some "m")))).db.mailboxes = [⟨"a", "m", 50, true⟩] := by decide +kernel

/-- a third side claims at 50: `crowded`, stamped -/
theorem claim_crowded :
    ∃ b, Event.frame 3 (.error "crowded") b ∈ (s.step (.recv 3 50 .null (.claim (some "4") "f"))).out :=
  ⟨true, by decide +kernel⟩
example := C12_activity_stamps_claim_crowded find3 rfl 50 .null (some "4") "f" claim_crowded
example : (s.step (.recv 3 50 .null (.claim (some "4") "f"))).db.mailboxes = [⟨"a", "m", 50, true⟩] := by
  decide +kernel

/-- a third side sends `close` at 50 (no handle: implicit open): `crowded`, stamped -/
theorem close_crowded :
    ∃ b, Event.frame 3 (.error "crowded") b ∈ (s.step (.recv 3 50 .null (.close (some "m") none))).out :=
  ⟨true, by decide +kernel⟩
example := C12_activity_stamps_close_crowded find3 rfl 50 .null (some "m") none close_crowded
example := C12_activity_stamps_refused find3 rfl 50 .null (.close (some "m") none) (Or.inr (Or.inr ⟨_, _, rfl⟩))
  close_crowded
example : (s.step (.recv 3 50 .null (.close (some "m") none))).db.mailboxes = [⟨"a", "m", 50, true⟩] := by
  decide +kernel

/-- connection 4 (side s1, no handle) closes "m" at 60 while s2 still has it open: answered `closed`, the
    mailbox survives and its row is stamped 60 (K-close-touch) -/
theorem close_reopen : ∃ b, Event.frame 4 .closed b ∈ (s.step (.recv 4 60 .null (.close (some "m") (some "happy")))).out :=
  ⟨true, by decide +kernel⟩
example := C12_activity_stamps_close_reopen find4 rfl rfl 60 .null (some "m") (some "happy") close_reopen
example : (s.step (.recv 4 60 .null (.close (some "m") (some "happy")))).Stamped "a" "m" 60 := by decide +kernel

/-- ... and when the closing side is the last one open the mailbox is deleted: the other disjunct.
    (state: only s1 has "m2" open; connection 4 = side s1 again closes it) -/
def H' : List Op :=
  [.connect 1, bind 1 1 "s1", .connect 4, bind 4 4 "s1", .recv 1 12 .null (.open_ (some "m2"))]
def s' : Sys := (Sys.run {} H').1
theorem find4' : s'.findConn 4 = some x4 := by decide +kernel
theorem close_reopen' :
    ∃ b, Event.frame 4 .closed b ∈ (s'.step (.recv 4 60 .null (.close (some "m2") none))).out := ⟨true, by decide +kernel⟩
example := C12_activity_stamps_close_reopen find4' rfl rfl 60 .null (some "m2") none close_reopen'
example : (s'.step (.recv 4 60 .null (.close (some "m2") none))).db.mailboxes = [] := by decide +kernel

end C12bExample

end Wormhole

#print axioms Wormhole.C12_activity_stamps_open_crowded
#print axioms Wormhole.C12_activity_stamps_claim_crowded
#print axioms Wormhole.C12_activity_stamps_close_crowded
#print axioms Wormhole.C12_activity_stamps_refused
#print axioms Wormhole.C12_activity_stamps_close_reopen
