/-
  C03 -- "A nameplate leads all its claimants to one stable, unshared mailbox".

  GHOST.  The *incarnation* of a nameplate `(app, name)` is the value of `nameplates.id` of its row.
  This is a faithful ghost: the column is `INTEGER PRIMARY KEY AUTOINCREMENT`, so SQLite never
  hands the same value out twice; the model's `Chan.nextNp` is that counter, and we PROVE
  (`C03_id_never_reused`) that a row with a given id, once gone, never comes back, and that a
  newly created row gets an id larger than every id seen before (`C03_new_row`).  No table
  other than `nameplates` is consulted to define it.
  The *claimed answers* of a step (`claimedAnswers`) are read off its output: the frames
  `claimed m` sent to the connection whose `claim` of `name` the step processes, tagged with
  that connection's app.

  Step-level theorems are for ALL states with `Synced ∧ CInv` (weaker than reachable);
  history-level theorems take `hreach : ∀ g, g.Reach → g.GInv` (the lead instantiates it with
  `GSys.Reach.ginv`).
-/
import Wormhole.Inv.NpFacts
import Wormhole.Inv.NpOut
import Wormhole.Inv.Main
import Wormhole.Props.C17

namespace Wormhole
open Sys Sys.Np

/-! ## plumbing: crashed steps, runs -/

theorem Op.inner_of_not_crash {op : Op} (h : op.isCrash = false) : op.inner = op := by
  cases op <;> first | rfl | simp [Op.isCrash] at h

/-- the events of a crashed step are among those of the step it cuts short -/
theorem step_out_sub (s : Sys) (op : Op) {e : Event} (h : e ∈ (s.step op).out) :
    e ∈ (s.step op.inner).out := by
  cases op with
  | crashIn k op' =>
    have hsub : e ∈ (({ s with out := [], snaps := [] } : Sys).stepPlain op').out := by
      unfold Sys.step at h
      dsimp only at h
      split at h
      · simp at h
      · exact Sys.mem_cutAtCommit _ _ e h
      · exact h
    cases op' with
    | crashIn k' op'' => simp [Sys.stepPlain] at hsub
    | connect c => exact hsub
    | recv c t id cmd => exact hsub
    | drop c => exact hsub
    | sweep now f => exact hsub
    | restart t => exact hsub
  | connect c => exact h
  | recv c t id cmd => exact h
  | drop c => exact h
  | sweep now f => exact h
  | restart t => exact h

theorem npLbl_inner (s : Sys) (op : Op) : s.npLbl op.inner = s.npLbl op := by
  induction op with
  | crashIn k op ih => exact ih
  | _ => rfl

theorem Op.mailboxIds_inner (op : Op) : op.inner.mailboxIds = op.mailboxIds := by
  induction op with
  | crashIn k op ih => exact ih
  | _ => rfl

namespace GSys

theorem run_cons (g : GSys) (op : Op) (rest : List Op) : g.run (op :: rest) = (g.step op).run rest := rfl

theorem run_append (g : GSys) (l1 l2 : List Op) : g.run (l1 ++ l2) = (g.run l1).run l2 := by
  induction l1 generalizing g with
  | nil => rfl
  | cons op rest ih => simp [run, ih]

theorem WF_append {g : GSys} {l1 l2 : List Op} : g.WF (l1 ++ l2) ↔ g.WF l1 ∧ (g.run l1).WF l2 := by
  induction l1 generalizing g with
  | nil => simp [WF, run]
  | cons op rest ih => simp [WF, run, ih, and_assoc]

end GSys

/-! ## the `claim` step -/

/-- a `claim` of `n` on a bound connection that has not claimed yet, as a state equation -/
theorem step_claim {s : Sys} {c : Nat} {x : Conn} {a : String} (t : Time) (id : Val) (n fresh : String)
    (hx : s.findConn c = some x) (ha : x.app = some a) (hd : x.didClaim = false) :
    s.step (.recv c t id (.claim (some n) fresh)) =
      match (((({ s with out := [], snaps := [] } : Sys).send c (.ack id)).updConn c
          (fun y => { y with didClaim := true, nameplateId := some n })).claimNameplate a n (x.side.getD "") t fresh) with
      | (s1, .ok mb) => s1.send c (.claimed mb)
      | (s1, .crowded) => s1.sendError c "crowded"
      | (s1, .reclaimed) => s1.sendError c "reclaimed"
      | (s1, .integrity) => s1.internalErr c "IntegrityError" := by
  have hid := findConn_id hx
  rw [step_recv]
  unfold Sys.onMessage
  have : ({ s with out := [], snaps := [] } : Sys).findConn c = some x := hx
  rw [this]
  simp only [ha]
  unfold Sys.handleClaim
  simp only [hd, hid]
  rfl

/-- frames `claimed _` do not come out of `claim_nameplate` itself -/
theorem claimed_not_in_core {s s1 : Sys} {a n σ t fresh r} (h : s.claimNameplate a n σ t fresh = (s1, r))
    {c : Nat} {m : String} {b : Bool} (hm : Event.frame c (.claimed m) b ∈ s1.out) :
    Event.frame c (.claimed m) b ∈ s.out := by
  have hc := CExt.claimNameplate (s := s) (s1 := s) OutExt.refl (app := a) (name := n) (side := σ) (t := t)
    (fresh := fresh)
  rw [h] at hc
  obtain ⟨l, e, hl⟩ := hc
  rw [e, List.mem_append] at hm
  rcases hm with hm | hm
  · exact hm
  · obtain ⟨w, hw⟩ := hl _ hm
    cases hw

/-- **the answer `claimed m` of a `claim` step**: `claim_nameplate` returned `ok m` -/
theorem claim_step_ok {s : Sys} {c : Nat} {x : Conn} {a : String} {t : Time} {id : Val} {n fresh m : String}
    {b : Bool} (hx : s.findConn c = some x) (ha : x.app = some a)
    (hout : Event.frame c (.claimed m) b ∈ (s.step (.recv c t id (.claim (some n) fresh))).out) :
    x.didClaim = false ∧
    ∃ s1, (((({ s with out := [], snaps := [] } : Sys).send c (.ack id)).updConn c
          (fun y => { y with didClaim := true, nameplateId := some n })).claimNameplate a n (x.side.getD "") t fresh)
        = (s1, .ok m) ∧
      s.step (.recv c t id (.claim (some n) fresh)) = s1.send c (.claimed m) := by
  cases hd : x.didClaim with
  | true =>
    exfalso
    have hr : Rejected x (.claim (some n) fresh) "only one claim per connection" :=
      .secondClaim _ _ (by simp [ha]) hd
    rw [(C17_validation_error t id hx hr).1] at hout
    simp at hout
  | false =>
    refine ⟨rfl, ?_⟩
    rw [step_claim t id n fresh hx ha hd] at hout ⊢
    generalize hE : (((({ s with out := [], snaps := [] } : Sys).send c (.ack id)).updConn c
          (fun y => { y with didClaim := true, nameplateId := some n })).claimNameplate a n (x.side.getD "") t fresh) = p
      at hout ⊢
    obtain ⟨s1, r⟩ := p
    have hcore : Event.frame c (.claimed m) b ∉ s1.out := by
      intro hm
      have := claimed_not_in_core hE hm
      simp [Sys.send, Sys.emit, Sys.updConn] at this
    cases r with
    | ok mb =>
      dsimp only at hout ⊢
      simp only [Sys.send, Sys.emit, List.mem_append, List.mem_singleton] at hout
      rcases hout with hm | hm
      · exact absurd hm hcore
      · cases hm
        exact ⟨s1, rfl, rfl⟩
    | crowded =>
      exfalso
      simp only [Sys.sendError, Sys.send, Sys.emit, List.mem_append, List.mem_singleton] at hout
      rcases hout with hm | hm
      · exact hcore hm
      · cases hm
    | reclaimed =>
      exfalso
      simp only [Sys.sendError, Sys.send, Sys.emit, List.mem_append, List.mem_singleton] at hout
      rcases hout with hm | hm
      · exact hcore hm
      · cases hm
    | integrity =>
      exfalso
      simp only [Sys.internalErr, Sys.emit, List.mem_append, List.mem_singleton] at hout
      rcases hout with hm | hm
      · exact hcore hm
      · cases hm


/-! ## the ghost: claimed answers -/

/-- **the claimed answers of a step** `(app, name, mailbox)`: one entry for every frame
    `claimed mailbox` that the step -- a `claim` of `name` received on connection `c`, possibly cut
    short by a crash -- sends to `c`; `app` is what `c` is bound to.  Defined from the output. -/
def claimedAnswers (s : Sys) (op : Op) : List (String × String × String) :=
  match op.inner with
  | .recv c _ _ (.claim (some n) _) =>
    match s.findConn c with
    | some x =>
      match x.app with
      | some a =>
        (s.step op).out.filterMap (fun e =>
          match e with
          | .frame c' (.claimed m) _ => if c' = c then some (a, n, m) else none
          | _ => none)
      | none => []
    | none => []
  | _ => []

theorem mem_claimedAnswers {s : Sys} {op : Op} {a n m : String} (h : (a, n, m) ∈ claimedAnswers s op) :
    ∃ c t id fresh x b, op.inner = .recv c t id (.claim (some n) fresh) ∧ s.findConn c = some x ∧
      x.app = some a ∧ Event.frame c (.claimed m) b ∈ (s.step op).out := by
  unfold claimedAnswers at h
  split at h
  · rename_i c t id n' fresh hop
    split at h
    · rename_i x hx
      split at h
      · rename_i a' ha
        rw [List.mem_filterMap] at h
        obtain ⟨e, he, hm⟩ := h
        split at hm
        · rename_i c' m' b
          split at hm
          · rename_i hc
            simp only [Option.some.injEq, Prod.mk.injEq] at hm
            obtain ⟨rfl, rfl, rfl⟩ := hm
            subst hc
            exact ⟨c', t, id, fresh, x, b, hop, hx, ha, he⟩
          · cases hm
        · cases hm
      · simp at h
    · simp at h
  · simp at h

/-- conversely: every `claimed m` frame a `claim` step sends to its connection is a claimed answer -/
theorem claimedAnswers_complete {s : Sys} {op : Op} {c : Nat} {t : Time} {id : Val} {n fresh a m : String}
    {x : Conn} {b : Bool} (hop : op.inner = .recv c t id (.claim (some n) fresh))
    (hx : s.findConn c = some x) (ha : x.app = some a)
    (hout : Event.frame c (.claimed m) b ∈ (s.step op).out) : (a, n, m) ∈ claimedAnswers s op := by
  unfold claimedAnswers
  rw [hop]
  simp only [hx, ha]
  rw [List.mem_filterMap]
  exact ⟨_, hout, by simp⟩

theorem Op.inner_not_crash (op : Op) : op.inner.isCrash = false := by
  induction op with
  | crashIn k op ih => exact ih
  | _ => rfl

/-- **the ghost sees every `claimed` frame**: a `claimed m` frame in the output of ANY step (a
    command of any kind, a sweep, a connect, ..., crashed or not) is sent by a `claim` of some
    name `n`, to the connection the claim arrived on, which is bound to some app `a`; so it is
    recorded in `claimedAnswers` as `(a, n, m)`. -/
theorem claimedAnswers_sees_all (s : Sys) (op : Op) {c : Nat} {m : String} {b : Bool}
    (h : Event.frame c (.claimed m) b ∈ (s.step op).out) :
    ∃ t id n fresh x a, op.inner = .recv c t id (.claim (some n) fresh) ∧ s.findConn c = some x ∧
      x.app = some a ∧ (a, n, m) ∈ claimedAnswers s op := by
  have h' := step_out_sub s op h
  have hnc := Op.inner_not_crash op
  generalize hop : op.inner = op' at h' hnc
  have key : ∀ {P : Event → Prop} {s1 : Sys},
      OutExt P ({ s with out := [], snaps := [] } : Sys) s1 → Event.frame c (.claimed m) b ∈ s1.out →
      P (Event.frame c (.claimed m) b) := by
    intro P s1 ⟨l, e, hl⟩ hm
    rw [e] at hm
    exact hl _ (by simpa using hm)
  cases op' with
  | crashIn k o => simp [Op.isCrash] at hnc
  | connect c1 => simp [Sys.step, Sys.stepPlain, Sys.connect, Sys.send, Sys.emit] at h'
  | drop c1 => simp [Sys.step, Sys.stepPlain, Sys.dropConn] at h'
  | restart t => simp [Sys.step, Sys.stepPlain, Sys.restart] at h'
  | sweep now f =>
    exact absurd (key (Sys.expire_notFrame (s := { s with out := [], snaps := [] }) (now := now) (fault := f)) h')
      (by simp [NotFrame])
  | recv c1 t id cmd =>
    rw [step_recv] at h'
    by_cases hcmd : ∀ n fresh, cmd ≠ .claim n fresh
    · exact absurd (key (onMessage_nc c1 t id hcmd) h') (by simp [NotClaimed])
    · have : ∃ n fresh, cmd = .claim n fresh := by
        apply Classical.byContradiction
        intro hne
        exact hcmd (fun n fresh e => hne ⟨n, fresh, e⟩)
      obtain ⟨n, fresh, rfl⟩ := this
      have := key (onMessage_claim_nc (s := { s with out := [], snaps := [] }) c1 t id n fresh
        (∃ x a nm, s.findConn c1 = some x ∧ x.app = some a ∧ n = some nm)
        (fun x a nm h1 h2 h3 => ⟨x, a, nm, h1, h2, h3⟩)) h'
      obtain ⟨rfl, x, a, nm, hx, ha, rfl⟩ := this c m b rfl
      exact ⟨t, id, nm, fresh, x, a, rfl, hx, ha, claimedAnswers_complete hop hx ha h⟩

/-- **answers and rows.**  If a step (crashed or not) from a synced state with `CInv` carries the
    claimed answer `(a, n, m)` then every nameplate row `(a, n)` of the pre-state AND of the
    post-state has `mailbox = m`. -/
theorem answer_rows {s : Sys} (hs : s.Synced) (hc : s.db.CInv) {op : Op} {a n m : String}
    (h : (a, n, m) ∈ claimedAnswers s op) :
    (∀ row ∈ s.db.nameplates, row.app = a → row.name = n → row.mailbox = m) ∧
    (∀ row ∈ (s.step op).db.nameplates, row.app = a → row.name = n → row.mailbox = m) := by
  obtain ⟨c, t, id, fresh, x, b, hop, hx, ha, hout⟩ := mem_claimedAnswers h
  have hout' := step_out_sub s op hout
  rw [hop] at hout'
  obtain ⟨_, s1, hE, _⟩ := claim_step_ok hx ha hout'
  have hok : (∃ row, s.db.findNameplate a n = some row ∧ m = row.mailbox) ∨
      (s.db.findNameplate a n = none ∧ m = fresh) := by
    have := claimNameplate_ok hE
    exact this
  have hpre : ∀ row ∈ s.db.nameplates, row.app = a → row.name = n → row.mailbox = m := by
    intro row hrow e1 e2
    rcases hok with ⟨row0, h0, rfl⟩ | ⟨hnone, _⟩
    · obtain ⟨m1, m2, m3⟩ := Chan.findNameplate_spec h0
      have : row = row0 := hc.toPInv.np_eq_of_key hrow m1 (e1.trans m2.symm) (e2.trans m3.symm)
      rw [this]
    · exact absurd ⟨e1, e2⟩ (Chan.findNameplate_none_spec hnone row hrow)
  refine ⟨hpre, ?_⟩
  intro row hrow e1 e2
  have hrel := step_rel hs hc.npOk op
  rcases hrel.np_mem hrow with h0 | ⟨a', nm, σ, fresh', t', hl, rfl, hnone⟩
  · exact hpre row h0 e1 e2
  · -- the row is new: the label says which `claim` made it
    rw [← npLbl_inner, hop] at hl
    simp only [Sys.npLbl, hx, cmdLbl, ha, NpLbl.claim.injEq] at hl
    obtain ⟨rfl, rfl, _, rfl, _⟩ := hl
    rcases hok with ⟨row0, h0, _⟩ | ⟨_, rfl⟩
    · rw [hnone] at h0; cases h0
    · rfl

/-- **C03 (step form).**  If a `claim` of `n` received on a connection bound to `a` is answered
    `claimed m`, then afterwards the nameplate row `(a, n)` exists and has `mailbox = m`; and if
    a row `(a, n)` existed before, its mailbox was already `m` and the row (same `id`, all
    fields) is still there. -/
theorem C03_claimed_step {s : Sys} (hs : s.Synced) (hc : s.db.CInv) {c : Nat} {x : Conn} {a n fresh m : String}
    {t : Time} {id : Val} {b : Bool} (hx : s.findConn c = some x) (ha : x.app = some a)
    (hout : Event.frame c (.claimed m) b ∈ (s.step (.recv c t id (.claim (some n) fresh))).out) :
    (∃ row ∈ (s.step (.recv c t id (.claim (some n) fresh))).db.nameplates,
      row.app = a ∧ row.name = n ∧ row.mailbox = m) ∧
    (∀ row0 ∈ s.db.nameplates, row0.app = a → row0.name = n →
      row0.mailbox = m ∧ row0 ∈ (s.step (.recv c t id (.claim (some n) fresh))).db.nameplates) := by
  have hans : (a, n, m) ∈ claimedAnswers s (.recv c t id (.claim (some n) fresh)) :=
    claimedAnswers_complete rfl hx ha hout
  obtain ⟨hpre, hpost⟩ := answer_rows hs hc hans
  obtain ⟨_, s1, hE, hstep⟩ := claim_step_ok hx ha hout
  have hrel := claimNameplate_rel hE hc.bounded ⟨by
    show Chan.NpRel _ s.db s.disk
    rw [← hs.1]; exact Chan.NpRel.refl _ _, by intro p hp; simp [Sys.send, Sys.emit, Sys.updConn] at hp⟩
  have hdb : (s.step (.recv c t id (.claim (some n) fresh))).db = s1.db := by rw [hstep]; rfl
  have hr : Chan.NpRel (.claim a n (x.side.getD "") fresh t) s.db s1.db := hrel.2
  have hsub : ∀ row0 ∈ s.db.nameplates, row0 ∈ s1.db.nameplates := by
    intro row0 h0
    simp only [Chan.NpRel, Chan.npPart, Prod.mk.injEq] at hr
    rcases hr with h | ⟨_, _, _, h⟩ | ⟨_, h⟩ <;> rw [h.1] <;> simp [h0]
  rw [hdb] at hpost ⊢
  refine ⟨?_, fun row0 h0 e1 e2 => ⟨hpre row0 h0 e1 e2, hsub row0 h0⟩⟩
  have hok : (∃ row, s.db.findNameplate a n = some row ∧ m = row.mailbox) ∨
      (s.db.findNameplate a n = none ∧ m = fresh) := by
    have := claimNameplate_ok hE
    exact this
  rcases hok with ⟨row0, h0, _⟩ | ⟨hnone, _⟩
  · obtain ⟨m1, m2, m3⟩ := Chan.findNameplate_spec h0
    exact ⟨row0, hsub row0 m1, m2, m3, hpost row0 (hsub row0 m1) m2 m3⟩
  · -- no row before: `ok` means the third shape
    have hnew : (⟨s.db.nextNp, a, n, fresh⟩ : Nameplate) ∈ s1.db.nameplates := by
      have h3 := hE
      unfold Sys.claimNameplate at h3
      have hnone' : ((({ s with out := [], snaps := [] } : Sys).send c (.ack id)).updConn c
          (fun y => { y with didClaim := true, nameplateId := some n })).db.findNameplate a n = none := hnone
      simp only [hnone'] at h3
      split at h3
      · cases h3
      · rename_i s0 e
        obtain ⟨d0, _⟩ := addMailbox_spec e
        have hnp := d0.np
        simp only [Chan.npPart, Prod.mk.injEq] at hnp
        have hmem : (⟨s.db.nextNp, a, n, fresh⟩ : Nameplate) ∈ (s0.modDb (·.insNameplate a n fresh)).db.nameplates := by
          simp only [modDb_db, Chan.insNameplate, List.mem_append, List.mem_singleton]
          right
          rw [hnp.2.2]; rfl
        rw [claimTail_eq] at h3
        have key : ∀ (s' : Sys), (⟨s.db.nextNp, a, n, fresh⟩ : Nameplate) ∈ s'.db.nameplates →
            claimCont s' a s0.db.nextNp fresh (x.side.getD "") t = (s1, .ok m) →
            (⟨s.db.nextNp, a, n, fresh⟩ : Nameplate) ∈ s1.db.nameplates := by
          intro s' hm' hc'
          obtain ⟨d1, _, _⟩ := claimCont_spec hc'
          have := d1.np
          simp only [Chan.npPart, Prod.mk.injEq] at this
          rw [this.1]; exact hm'
        split at h3
        · exact key _ (by simpa [Chan.insNpSide] using hmem) h3
        · split at h3
          · exact key _ hmem h3
          · cases h3
    exact ⟨_, hnew, rfl, rfl, hpost _ hnew rfl rfl⟩


/-- **C03 (step form, crashed step).**  If a `claim` step that is cut short by a crash still got
    its `claimed m` out, the state the crash leaves (the files as of some commit point of the
    step) contains the nameplate row `(a, n)` with `mailbox = m`: an answer that was sent is
    never lost. -/
theorem C03_claimed_step_crash {s : Sys} (hs : s.Synced) (hc : s.db.CInv) {k c : Nat} {x : Conn}
    {a n fresh m : String} {t : Time} {id : Val} {b : Bool} (hx : s.findConn c = some x) (ha : x.app = some a)
    (hout : Event.frame c (.claimed m) b ∈ (s.step (.crashIn k (.recv c t id (.claim (some n) fresh)))).out) :
    ∃ row ∈ (s.step (.crashIn k (.recv c t id (.claim (some n) fresh)))).db.nameplates,
      row.app = a ∧ row.name = n ∧ row.mailbox = m := by
  have hans : (a, n, m) ∈ claimedAnswers s (.crashIn k (.recv c t id (.claim (some n) fresh))) :=
    claimedAnswers_complete rfl hx ha hout
  obtain ⟨hpre, hpost⟩ := answer_rows hs hc hans
  have hout' := step_out_sub s _ hout
  obtain ⟨_, s1, hE, hstep⟩ := claim_step_ok hx ha hout'
  have hrel := step_rel hs hc.npOk (.crashIn k (.recv c t id (.claim (some n) fresh)))
  have hok : (∃ row, s.db.findNameplate a n = some row ∧ m = row.mailbox) ∨
      (s.db.findNameplate a n = none ∧ m = fresh) := by
    have := claimNameplate_ok hE
    exact this
  -- whatever the crash point, old rows are still there
  have hsub : ∀ row0 ∈ s.db.nameplates,
      row0 ∈ (s.step (.crashIn k (.recv c t id (.claim (some n) fresh)))).db.nameplates := by
    intro row0 h0
    have hl : s.npLbl (.crashIn k (.recv c t id (.claim (some n) fresh))) =
        .claim a n (x.side.getD "") fresh t := by
      simp [Sys.npLbl, hx, cmdLbl, ha]
    rw [hl] at hrel
    simp only [Chan.NpRel, Chan.npPart, Prod.mk.injEq] at hrel
    rcases hrel with h | ⟨_, _, _, h⟩ | ⟨_, h⟩ <;> rw [h.1] <;> simp [h0]
  rcases hok with ⟨row0, h0, _⟩ | ⟨hnone, _⟩
  · obtain ⟨m1, m2, m3⟩ := Chan.findNameplate_spec h0
    exact ⟨row0, hsub row0 m1, m2, m3, hpre row0 m1 m2 m3⟩
  · -- the nameplate is created by this step: every commit point has the new row
    obtain ⟨hsn, hfin⟩ := claimNameplate_snaps_new hE hc.bounded hnone (by simp)
    have hnew : (⟨s.db.nextNp, a, n, fresh⟩ : Nameplate) ∈
        (s.step (.crashIn k (.recv c t id (.claim (some n) fresh)))).db.nameplates := by
      obtain ⟨q, _, hsy⟩ := claimNameplate_spec hE hc.bounded
      have hplain : ({ s with out := [], snaps := [] } : Sys).stepPlain (.recv c t id (.claim (some n) fresh)) =
          s1.send c (.claimed m) := hstep
      unfold Sys.step at hout ⊢
      dsimp only at hout ⊢
      rw [hplain] at hout ⊢
      split
      · simp at hout
      · rename_i p _ hp
        have hp' : p ∈ s1.snaps := List.mem_of_getElem? hp
        rcases hsn p hp' with h | h
        · simp [Sys.send, Sys.emit, Sys.updConn] at h
        · exact h
      · show _ ∈ s1.disk.nameplates
        rw [← hsy hs.1]; exact hfin
    exact ⟨_, hnew, rfl, rfl, hpost _ hnew rfl rfl⟩

/-! ## invariant forms: the row of an incarnation never changes; ids are never reused -/

/-- **C03 (invariant form).**  Over ANY step -- a command of anybody, a sweep, a restart, a
    connect, a drop, a crash anywhere inside one of these -- a nameplate row that still exists
    afterwards (same `id`) is the same row: `app`, `name` and `mailbox` are never updated. -/
theorem C03_mailbox_never_changes {s : Sys} (hs : s.Synced) (hc : s.db.CInv) (op : Op) {n n' : Nameplate}
    (hn : n ∈ s.db.nameplates) (hn' : n' ∈ (s.step op).db.nameplates) (e : n'.id = n.id) : n' = n :=
  (step_rel hs hc.npOk op).np_same hc.toPInv hn' hn e

/-- the AUTOINCREMENT counter never decreases -/
theorem C03_nextNp_mono {s : Sys} (hs : s.Synced) (hc : s.db.CInv) (op : Op) :
    s.db.nextNp ≤ (s.step op).db.nextNp :=
  (step_rel hs hc.npOk op).nextNp_le

/-- a nameplate row that a step creates gets the old counter value as its id -- larger than every
    id in use -- and it is the row of a `claim`/`allocate` that found no nameplate of that name:
    its mailbox is the id generated in that very step -/
theorem C03_new_row {s : Sys} (hs : s.Synced) (hc : s.db.CInv) (op : Op) {n' : Nameplate}
    (hn' : n' ∈ (s.step op).db.nameplates) (hnew : n' ∉ s.db.nameplates) :
    n'.id = s.db.nextNp ∧ (∀ n ∈ s.db.nameplates, n.id < n'.id) ∧
    s.db.findNameplate n'.app n'.name = none ∧ op.fresh? = some n'.mailbox ∧
    n'.mailbox ∈ op.mailboxIds := by
  rcases (step_rel hs hc.npOk op).np_mem hn' with h0 | ⟨a, nm, σ, fresh, t, hl, rfl, hnone⟩
  · exact absurd h0 hnew
  · obtain ⟨c, id, cmd, x, hop, _, _, _, hf, hcmd⟩ := npLbl_claim hl
    refine ⟨rfl, fun n hn => hc.bounded.1 n hn, hnone, hf, ?_⟩
    rw [← Op.mailboxIds_inner, hop]
    rcases hcmd with rfl | ⟨p, dr, rfl, _⟩ <;> simp [Op.mailboxIds, Cmd.mailboxIds]

namespace GSys

theorem GInv.npRel {g : GSys} (hI : g.GInv) (op : Op) :
    Chan.NpRel (g.sys.npLbl op) g.sys.db (g.step op).sys.db := step_rel hI.synced hI.cinv.npOk op

/-- an invariant of reachable states that is kept by well-formed steps is kept by well-formed runs -/
theorem run_induction (hreach : ∀ g : GSys, g.Reach → g.GInv) (J : GSys → Prop)
    (hstep : ∀ g op, g.Reach → g.GInv → g.WFOp op → J g → J (g.step op)) :
    ∀ (ops : List Op) {g : GSys}, g.Reach → g.WF ops → J g → J (g.run ops) := by
  intro ops
  induction ops with
  | nil => intro g _ _ h; exact h
  | cons op rest ih =>
    intro g hg hwf h
    exact ih (.step op hg hwf.1) hwf.2 (hstep g op hg (hreach g hg) hwf.1 h)

end GSys

/-- **AUTOINCREMENT never reuses an id** (history form): a row with the id of a row that existed at
    some point of a well-formed history is, at every later point, that very row.  So the `id` names
    one incarnation of one `(app, name)` for ever. -/
theorem C03_id_never_reused (hreach : ∀ g : GSys, g.Reach → g.GInv) {g : GSys} (hg : g.Reach)
    (ops : List Op) (hwf : g.WF ops) {row row' : Nameplate} (hrow : row ∈ g.sys.db.nameplates)
    (hrow' : row' ∈ (g.run ops).sys.db.nameplates) (e : row'.id = row.id) : row' = row := by
  have hJ := GSys.run_induction hreach
    (fun g' => row.id < g'.sys.db.nextNp ∧ ∀ r ∈ g'.sys.db.nameplates, r.id = row.id → r = row)
    (by
      intro g' op _ hI _ ⟨h1, h2⟩
      have hr := hI.npRel op
      refine ⟨Nat.lt_of_lt_of_le h1 hr.nextNp_le, ?_⟩
      intro r hr' e'
      rcases hr.np_mem hr' with h0 | ⟨a, nm, σ, fresh, t, _, rfl, _⟩
      · exact h2 r h0 e'
      · simp at e'; omega)
    ops hg hwf
    ⟨(hreach g hg).cinv.bounded.1 row hrow,
      fun r hr e' => (hreach g hg).cinv.toPInv.np_eq_of_id hr hrow e'⟩
  exact hJ.2 row' hrow' e

/-- a row survives a run if its id is present after every step of the run -/
theorem row_survives (hreach : ∀ g : GSys, g.Reach → g.GInv) :
    ∀ (mid : List Op) {g : GSys}, g.Reach → g.WF mid → ∀ {row : Nameplate}, row ∈ g.sys.db.nameplates →
      (∀ p, p <+: mid → ∃ r' ∈ (g.run p).sys.db.nameplates, r'.id = row.id) →
      row ∈ (g.run mid).sys.db.nameplates := by
  intro mid g hg hwf row hrow hlive
  obtain ⟨r', hr', e⟩ := hlive mid (List.prefix_refl _)
  rw [C03_id_never_reused hreach hg mid hwf hrow hr' e] at hr'
  exact hr'

/-- **C03_same_mailbox** (history form).  In a well-formed history, take a step `op` with claimed
    answer `(a, n, m)` and a later step `op'` with claimed answer `(a, n, m')`.  If a row `(a, n)`
    present right after `op` -- the incarnation the first answer refers to -- has its `id` present
    in every state up to `op'` (it was never deleted in between), then `m = m'`: across
    connections, sides, restarts and crashes.
    (After a non-crashed `op` such a row exists: `C03_claimed_step`.) -/
theorem C03_same_mailbox (hreach : ∀ g : GSys, g.Reach → g.GInv) {g : GSys} (hg : g.Reach)
    (op : Op) (mid : List Op) (op' : Op) (hwf : g.WF (op :: (mid ++ [op'])))
    {a n m m' : String}
    (h1 : (a, n, m) ∈ claimedAnswers g.sys op)
    (h2 : (a, n, m') ∈ claimedAnswers ((g.step op).run mid).sys op')
    {row : Nameplate} (hrow : row ∈ (g.step op).sys.db.nameplates) (hra : row.app = a) (hrn : row.name = n)
    (hlive : ∀ p, p <+: mid → ∃ r' ∈ ((g.step op).run p).sys.db.nameplates, r'.id = row.id) :
    m = m' := by
  have hI := hreach g hg
  have hg1 : (g.step op).Reach := .step op hg hwf.1
  have hwf2 : (g.step op).WF mid := (GSys.WF_append.1 hwf.2).1
  have hg2 : ((g.step op).run mid).Reach := GSys.reach_run hg1 mid hwf2
  have hI2 := hreach _ hg2
  have e1 : row.mailbox = m := (answer_rows hI.synced hI.cinv h1).2 row hrow hra hrn
  have hrow2 : row ∈ ((g.step op).run mid).sys.db.nameplates := row_survives hreach mid hg1 hwf2 hrow hlive
  have e2 : row.mailbox = m' := (answer_rows hI2.synced hI2.cinv h2).1 row hrow2 hra hrn
  exact e1.symm.trans e2

/-! ## C03_distinct: mailboxes are not shared between incarnations -/

/-- **the invariant `NpMbInjective`** (two nameplate rows with different ids have different
    mailboxes) is kept by every well-formed step from a `GInv` state -/
theorem C03_npMbInjective_step {g : GSys} (hI : g.GInv) {op : Op} (hw : g.WFOp op)
    (hinj : g.sys.db.NpMbInjective) : (g.step op).sys.db.NpMbInjective := by
  refine (hI.npRel op).npMbInjective hI.cinv.toPInv hinj ?_
  intro a nm σ fresh t hl m hm e
  obtain ⟨_, _, _, _, _, _, _, _, hf, _⟩ := npLbl_claim hl
  exact hw.idFresh fresh hf (e ▸ hI.used m hm)

theorem C03_npMbInjective_reach (hreach : ∀ g : GSys, g.Reach → g.GInv) {g : GSys} (hg : g.Reach) :
    g.sys.db.NpMbInjective := by
  induction hg with
  | init cfg rb => intro n1 h1; simp [GSys.init] at h1
  | step op hg hw ih => exact C03_npMbInjective_step (hreach _ hg) hw ih

/-- **a new incarnation gets a never-seen mailbox id**: the mailbox of a nameplate row created by
    a step differs from every mailbox id mentioned earlier in the history (generated,
    client-chosen, or stored), and is recorded as used afterwards -/
theorem C03_new_incarnation_fresh {g : GSys} (hI : g.GInv) {op : Op} (hw : g.WFOp op) {row : Nameplate}
    (hrow : row ∈ (g.step op).sys.db.nameplates) (hnew : row ∉ g.sys.db.nameplates) :
    row.mailbox ∉ g.used ∧ row.mailbox ∈ (g.step op).used := by
  obtain ⟨_, _, _, hf, hm⟩ := C03_new_row hI.synced hI.cinv op hrow hnew
  exact ⟨hw.idFresh _ hf, List.mem_append_right _ hm⟩

/-- **C03_distinct** (history form).  Two nameplate rows with different ids -- different
    incarnations of one name, different names, different apps -- have different mailbox ids,
    whether they exist at the same time (`ops = []`) or at different times of a well-formed
    history.  Hypothesis: `WFOp.idFresh` (generated ids are new), via `hwf`. -/
theorem C03_distinct (hreach : ∀ g : GSys, g.Reach → g.GInv) {g : GSys} (hg : g.Reach)
    (ops : List Op) (hwf : g.WF ops) {row1 row2 : Nameplate} (h1 : row1 ∈ g.sys.db.nameplates)
    (h2 : row2 ∈ (g.run ops).sys.db.nameplates) (hne : row1.id ≠ row2.id) :
    row1.mailbox ≠ row2.mailbox := by
  have hI := hreach g hg
  have hJ := GSys.run_induction hreach
    (fun g' => row1.mailbox ∈ g'.used ∧
      ∀ r ∈ g'.sys.db.nameplates, r.id ≠ row1.id → r.mailbox ≠ row1.mailbox)
    (by
      intro g' op _ hI' hw ⟨a1, a2⟩
      refine ⟨List.mem_append_left _ a1, ?_⟩
      intro r hr hid
      by_cases hold : r ∈ g'.sys.db.nameplates
      · exact a2 r hold hid
      · intro e
        exact (C03_new_incarnation_fresh hI' hw hr hold).1 (e ▸ a1))
    ops hg hwf
    ⟨by
      obtain ⟨m, hm, e, _⟩ := hI.cinv.npMb row1 h1
      exact e ▸ hI.used m hm,
     fun r hr hid => C03_npMbInjective_reach hreach hg r hr row1 h1 hid⟩
  exact fun e => hJ.2 row2 h2 (Ne.symm hne) e.symm

/-- **C03_distinct for answers**: claimed answers that refer to rows with different ids carry
    different mailbox ids -/
theorem C03_distinct_answers (hreach : ∀ g : GSys, g.Reach → g.GInv) {g : GSys} (hg : g.Reach)
    (op : Op) (mid : List Op) (op' : Op) (hwf : g.WF (op :: (mid ++ [op'])))
    {a n m a' n' m' : String}
    (h1 : (a, n, m) ∈ claimedAnswers g.sys op)
    (h2 : (a', n', m') ∈ claimedAnswers ((g.step op).run mid).sys op')
    {row row' : Nameplate} (hrow : row ∈ (g.step op).sys.db.nameplates) (hra : row.app = a) (hrn : row.name = n)
    (hrow' : row' ∈ (((g.step op).run mid).step op').sys.db.nameplates) (hra' : row'.app = a')
    (hrn' : row'.name = n') (hne : row.id ≠ row'.id) : m ≠ m' := by
  have hI := hreach g hg
  have hg1 : (g.step op).Reach := .step op hg hwf.1
  have hwf2 := GSys.WF_append.1 hwf.2
  have hg2 : ((g.step op).run mid).Reach := GSys.reach_run hg1 mid hwf2.1
  have hI2 := hreach _ hg2
  have e1 : row.mailbox = m := (answer_rows hI.synced hI.cinv h1).2 row hrow hra hrn
  have e2 : row'.mailbox = m' := (answer_rows hI2.synced hI2.cinv h2).2 row' hrow' hra' hrn'
  have hwf3 : (g.step op).WF (mid ++ [op']) := hwf.2
  have := C03_distinct hreach hg1 (mid ++ [op']) hwf3 hrow
    (by rw [GSys.run_append]; exact hrow') hne
  rw [e1, e2] at this
  exact this


/-! ## C03_repeat: a side that holds a claim can claim again -- up to K-crowded-rejoin -/

/-- **C03_repeat_partial.**  A side with a claimed row on a live nameplate claims again, on a
    connection that has not claimed yet.  The answer is exactly `[ack, claimed m]` with the row's
    mailbox id PROVIDED neither crowding check fires: the mailbox has at most two side rows after
    the call and the nameplate has at most two side rows.
    FULL statement (false, finding K-crowded-rejoin): the same without the two guards.
    The guard on `nameplate_sides` cannot be dropped either: after a crash between the two commits
    of a third side's claim the nameplate has three side rows and the mailbox two.
    Frames only: the step may also record a `commit` event (the mailbox is touched). -/
theorem C03_repeat_partial {s : Sys} (hs : s.Synced) (hc : s.db.CInv) {c : Nat} {x : Conn} {a n fresh : String}
    {t : Time} {id : Val} {row : Nameplate} {r : NpSide}
    (hx : s.findConn c = some x) (ha : x.app = some a) (hd : x.didClaim = false)
    (hrow : s.db.findNameplate a n = some row)
    (hside : s.db.findNpSide row.id (x.side.getD "") = some r) (hr : r.claimed = true)
    (hg1 : ¬ ((s.step (.recv c t id (.claim (some n) fresh))).db.mbSidesOf row.mailbox).length > 2)
    (hg2 : ¬ (s.db.npSidesOf row.id).length > 2) :
    (s.step (.recv c t id (.claim (some n) fresh))).frames =
      [.frame c (.ack id) true, .frame c (.claimed row.mailbox) true] := by
  have hstep := step_claim t id n fresh hx ha hd
  generalize hE : (((({ s with out := [], snaps := [] } : Sys).send c (.ack id)).updConn c
      (fun y => { y with didClaim := true, nameplateId := some n })).claimNameplate a n (x.side.getD "") t fresh) = p
    at hstep
  obtain ⟨s1, res⟩ := p
  have hdb : (s.step (.recv c t id (.claim (some n) fresh))).db = s1.db := by
    rw [hstep]; cases res <;> rfl
  rw [hdb] at hg1
  obtain ⟨q, _, hsy⟩ := claimNameplate_spec hE hc.bounded
  rcases claimNameplate_present (s := ((({ s with out := [], snaps := [] } : Sys).send c (.ack id)).updConn c
      (fun y => { y with didClaim := true, nameplateId := some n }))) hc.toPInv hrow hE with
    ⟨r0, h0, hf, _, _⟩ | ⟨_, e1, _, e3⟩
  · have h0' : s.db.findNpSide row.id (x.side.getD "") = some r0 := h0
    rw [hside] at h0'
    cases h0'
    rw [hr] at hf; cases hf
  · have hns : s1.db.npSidesOf row.id = s.db.npSidesOf row.id := by
      rw [e1]
      unfold Chan.npSidesOf
      rw [Chan.npClaim_npSides]
      have : s.db.findNpSide row.id (x.side.getD "") = some r := hside
      show List.filter _ (s.db.npSides ++ (match s.db.findNpSide row.id (x.side.getD "") with
        | none => _ | some _ => [])) = _
      rw [this]; simp
    have hres : res = .ok row.mailbox := by
      rw [e3]
      unfold Chan.npClaimRes
      rw [if_neg hg1, hns, if_neg hg2]
    subst hres
    rw [hstep]
    dsimp only
    have hsyn : s1.synced = true := by
      rw [synced_iff]
      exact ⟨hsy hs.1, by rw [q.udb, q.udisk]; exact hs.2⟩
    have hs0 : ({ s with out := [], snaps := [] } : Sys).synced = true := (synced_iff s).2 hs
    simp only [Sys.send, emit_frames, Event.isFrame, if_true, q.frames, hsyn]
    simp [Sys.frames, Sys.emit, Sys.updConn, hs0, List.filter, Event.isFrame]

/-! ### concrete states for the counterexample and the non-vacuity examples -/

/-- a decidable rendering of `WFOp` -/
def wfOpDec (g : GSys) (op : Op) : Bool :=
  (match op with
   | .connect c => g.sys.conns.all (fun x => x.id ≠ c)
   | .crashIn _ op' =>
     !op'.isCrash && (match op' with | .connect c => g.sys.conns.all (fun x => x.id ≠ c) | _ => true)
   | _ => true) &&
  (match op.time? with | some t => decide (g.clock ≤ t) | none => true) &&
  (match op.fresh? with | some f => decide (f ∉ g.used) | none => true)

theorem wfOp_of_wfOpDec {g : GSys} {op : Op} (h : wfOpDec g op = true) : g.WFOp op := by
  simp only [wfOpDec, Bool.and_eq_true] at h
  obtain ⟨⟨h1, h2⟩, h3⟩ := h
  refine ⟨?_, ?_, ?_, ?_⟩
  · intro c e; subst e
    simpa using h1
  · intro t e; rw [e] at h2; simpa using h2
  · intro f e; rw [e] at h3; simpa using h3
  · intro k op' e; subst e
    simp only [Bool.and_eq_true, Bool.not_eq_true'] at h1
    refine ⟨h1.1, ?_⟩
    intro c e; subst e
    simpa using h1.2

def wfDec (g : GSys) : List Op → Bool
  | [] => true
  | op :: rest => wfOpDec g op && wfDec (g.step op) rest

theorem wf_of_wfDec : ∀ (ops : List Op) (g : GSys), wfDec g ops = true → g.WF ops := by
  intro ops
  induction ops with
  | nil => intro g _; trivial
  | cons op rest ih =>
    intro g h
    simp only [wfDec, Bool.and_eq_true] at h
    exact ⟨wfOp_of_wfOpDec h.1, ih _ h.2⟩

/-- a decidable rendering of `CInv` -/
theorem cinv_of_decide (d : Chan)
    (h : d.nameplates.Pairwise (fun a b => ¬ a.id = b.id) ∧
      d.nameplates.Pairwise (fun a b => ¬ (a.app = b.app ∧ a.name = b.name)) ∧
      ((∀ n ∈ d.nameplates, n.id < d.nextNp) ∧ (∀ r ∈ d.npSides, r.npid < d.nextNp)) ∧
      d.mailboxes.Pairwise (fun a b => ¬ a.id = b.id) ∧
      (∀ n ∈ d.nameplates, ∃ m ∈ d.mailboxes, m.id = n.mailbox ∧ m.app = n.app) ∧
      (∀ r ∈ d.npSides, ∃ n ∈ d.nameplates, n.id = r.npid) ∧
      d.npSides.Pairwise (fun a b => ¬ (a.npid = b.npid ∧ a.side = b.side)) ∧
      (∀ r ∈ d.mbSides, ∃ m ∈ d.mailboxes, m.id = r.mailbox) ∧
      d.mbSides.Pairwise (fun a b => ¬ (a.mailbox = b.mailbox ∧ a.side = b.side)) ∧
      (∀ r ∈ d.messages, ∃ m ∈ d.mailboxes, m.id = r.mailbox ∧ m.app = r.app) ∧
      (∀ n ∈ d.nameplates, ∃ r ∈ d.npSides, r.npid = n.id)) : d.CInv := by
  obtain ⟨h1, h2, h3, h4, h5, h6, h7, h8, h9, h10, h11⟩ := h
  exact ⟨⟨h1, h2, h3, h4, h5, h6, h7, h8, h9, h10⟩, h11⟩

/-- three sides of app "app" claim nameplate "7" (the third is told `crowded`, its rows stay);
    then side "s1" reconnects (connection 4) -/
def cxOps : List Op :=
  [ .connect 1, .recv 1 10 .null (.bind (some "app") (some "s1") none none),
    .recv 1 11 .null (.claim (some "7") "mb1"),
    .connect 2, .recv 2 12 .null (.bind (some "app") (some "s2") none none),
    .recv 2 13 .null (.claim (some "7") "mb2"),
    .connect 3, .recv 3 14 .null (.bind (some "app") (some "s3") none none),
    .recv 3 15 .null (.claim (some "7") "mb3"),
    .connect 4, .recv 4 16 .null (.bind (some "app") (some "s1") none none) ]

/-- the state after `cxOps` from the initial state -/
def cxG : GSys := (GSys.init {} 0).run cxOps

theorem cxG_reach : cxG.Reach := GSys.reach_run (.init {} 0) cxOps (wf_of_wfDec _ _ (by decide +kernel))

/-- **C03_repeat_counterexample** (finding K-crowded-rejoin).  In the reachable state `cxG` side
    "s1" holds a claimed row on the live nameplate ("app", "7") and its connection 4 has not
    claimed; the operation is well-formed; yet the repeated claim is answered `crowded`, not
    `claimed "mb1"`: the conclusion of `C03_repeat_partial` fails without its guards. -/
theorem C03_repeat_counterexample :
    cxG.Reach ∧
    cxG.WFOp (.recv 4 17 (.int 1) (.claim (some "7") "mb4")) ∧
    (∃ x, cxG.sys.findConn 4 = some x ∧ x.app = some "app" ∧ x.side = some "s1" ∧ x.didClaim = false) ∧
    (∃ row r, cxG.sys.db.findNameplate "app" "7" = some row ∧ row.mailbox = "mb1" ∧
      cxG.sys.db.findNpSide row.id "s1" = some r ∧ r.claimed = true) ∧
    (cxG.sys.step (.recv 4 17 (.int 1) (.claim (some "7") "mb4"))).frames =
      [.frame 4 (.ack (.int 1)) true, .frame 4 (.error "crowded") true] :=
  ⟨cxG_reach, wfOp_of_wfOpDec (by decide +kernel),
    ⟨{ id := 4, app := some "app", side := some "s1" }, by decide +kernel, rfl, rfl, rfl⟩,
    ⟨⟨1, "app", "7", "mb1"⟩, ⟨1, true, "s1", 11⟩, by decide +kernel, rfl, by decide +kernel, rfl⟩,
    by decide +kernel⟩

/-- the same two sides claim; the third side's claim is cut by a crash right after its FIRST commit
    (the nameplate-side row is on disk, the mailbox-side row is not); then "s1" reconnects -/
def cxOpsCrash : List Op :=
  [ .connect 1, .recv 1 10 .null (.bind (some "app") (some "s1") none none),
    .recv 1 11 .null (.claim (some "7") "mb1"),
    .connect 2, .recv 2 12 .null (.bind (some "app") (some "s2") none none),
    .recv 2 13 .null (.claim (some "7") "mb2"),
    .connect 3, .recv 3 14 .null (.bind (some "app") (some "s3") none none),
    .crashIn 1 (.recv 3 15 .null (.claim (some "7") "mb3")),
    .connect 4, .recv 4 16 .null (.bind (some "app") (some "s1") none none) ]

def cxGCrash : GSys := (GSys.init {} 0).run cxOpsCrash

/-- **why `C03_repeat_partial` needs the guard on `nameplate_sides` too** (K-crowded-rejoin after a
    crash): in the reachable state `cxGCrash` the mailbox has TWO side rows before and after the
    repeated claim of "s1", the nameplate has three, and the answer is `crowded`. -/
theorem C03_repeat_counterexample_crash :
    cxGCrash.Reach ∧
    cxGCrash.WFOp (.recv 4 17 (.int 1) (.claim (some "7") "mb4")) ∧
    (cxGCrash.sys.db.mbSidesOf "mb1").length = 2 ∧ (cxGCrash.sys.db.npSidesOf 1).length = 3 ∧
    ((cxGCrash.sys.step (.recv 4 17 (.int 1) (.claim (some "7") "mb4"))).db.mbSidesOf "mb1").length = 2 ∧
    (cxGCrash.sys.step (.recv 4 17 (.int 1) (.claim (some "7") "mb4"))).frames =
      [.frame 4 (.ack (.int 1)) true, .frame 4 (.error "crowded") true] :=
  ⟨GSys.reach_run (.init {} 0) cxOpsCrash (wf_of_wfDec _ _ (by decide +kernel)),
    wfOp_of_wfOpDec (by decide +kernel), by decide +kernel, by decide +kernel, by decide +kernel,
    by decide +kernel⟩

/-! ## non-vacuity -/

theorem forall_prefix_of_take {α : Type} {mid : List α} {P : List α → Prop}
    (h : ∀ k ∈ List.range (mid.length + 1), P (mid.take k)) : ∀ p, p <+: mid → P p := by
  intro p hp
  have e := List.prefix_iff_eq_take.1 hp
  rw [e]
  exact h _ (List.mem_range.2 (Nat.lt_succ_of_le hp.length_le))

/-- two sides have claimed ("app", "7"); side "s1" has reconnected as connection 4 -/
def exOps : List Op :=
  [ .connect 1, .recv 1 10 .null (.bind (some "app") (some "s1") none none),
    .recv 1 11 .null (.claim (some "7") "mb1"),
    .connect 2, .recv 2 12 .null (.bind (some "app") (some "s2") none none),
    .recv 2 13 .null (.claim (some "7") "mb2"),
    .connect 4, .recv 4 16 .null (.bind (some "app") (some "s1") none none) ]

def exG : GSys := (GSys.init {} 0).run exOps

theorem exG_reach : exG.Reach := GSys.reach_run (.init {} 0) exOps (wf_of_wfDec _ _ (by decide +kernel))
theorem exG_synced : exG.sys.Synced := ⟨by decide +kernel, by decide +kernel⟩
theorem exG_cinv : exG.sys.db.CInv := cinv_of_decide _ (by decide +kernel)

/-- `C03_repeat_partial` applies to `exG`: the repeated claim of "s1" is answered `claimed "mb1"` -/
example : (exG.sys.step (.recv 4 17 (.int 1) (.claim (some "7") "mb4"))).frames =
    [.frame 4 (.ack (.int 1)) true, .frame 4 (.claimed "mb1") true] :=
  C03_repeat_partial (x := { id := 4, app := some "app", side := some "s1" }) (row := ⟨1, "app", "7", "mb1"⟩)
    (r := ⟨1, true, "s1", 11⟩) exG_synced exG_cinv (by decide +kernel) rfl rfl (by decide +kernel)
    (by decide +kernel) rfl (by decide +kernel) (by decide +kernel)

/-- `C03_claimed_step` / `answer_rows` apply: that step has the claimed answer ("app","7","mb1") -/
example : ("app", "7", "mb1") ∈ claimedAnswers exG.sys (.recv 4 17 (.int 1) (.claim (some "7") "mb4")) := by
  decide +kernel

example := C03_claimed_step (s := exG.sys) (c := 4) (x := { id := 4, app := some "app", side := some "s1" })
  (a := "app") (n := "7") (fresh := "mb4") (m := "mb1") (t := 17) (id := .int 1) (b := true)
  exG_synced exG_cinv (by decide +kernel) rfl (by decide +kernel)

example := C03_mailbox_never_changes (s := exG.sys) exG_synced exG_cinv (.sweep 100000 false)
  (n := ⟨1, "app", "7", "mb1"⟩) (n' := ⟨1, "app", "7", "mb1"⟩) (by decide +kernel)

/-- a second incarnation: both sides release "7", then "s1" claims it again (connection 5) and gets
    a NEW row (id 2) with the new mailbox "mb5" -/
def exOps2 : List Op :=
  [ .recv 1 20 .null (.release none), .recv 2 21 .null (.release none),
    .connect 5, .recv 5 22 .null (.bind (some "app") (some "s1") none none),
    .recv 5 23 .null (.claim (some "7") "mb5") ]

example : (exG.run exOps2).sys.db.nameplates = [⟨2, "app", "7", "mb5"⟩] := by decide +kernel

/-- `C03_new_row`: the last step of `exOps2` creates the row with id 2 -/
example := C03_new_row (s := (exG.run (exOps2.take 4)).sys) (by exact ⟨by decide +kernel, by decide +kernel⟩)
  (cinv_of_decide _ (by decide +kernel)) (.recv 5 23 .null (.claim (some "7") "mb5"))
  (n' := ⟨2, "app", "7", "mb5"⟩) (by decide +kernel) (by decide +kernel)

/-- the hypotheses of `C03_same_mailbox` are satisfiable (given the reachability invariant): the
    answers to connection 4 (`exG`, "mb1") and, after a restart and a reconnect, to connection 6 -/
example (hreach : ∀ g : GSys, g.Reach → g.GInv) : "mb1" = "mb1" :=
  C03_same_mailbox hreach exG_reach (.recv 4 17 (.int 1) (.claim (some "7") "mb4"))
    [.restart 30, .connect 6, .recv 6 31 .null (.bind (some "app") (some "s2") none none)]
    (.recv 6 32 .null (.claim (some "7") "mb6"))
    (wf_of_wfDec _ _ (by decide +kernel)) (a := "app") (n := "7") (by decide +kernel) (by decide +kernel)
    (row := ⟨1, "app", "7", "mb1"⟩) (by decide +kernel) rfl rfl
    (forall_prefix_of_take (by decide +kernel))

/-- the hypotheses of `C03_distinct` are satisfiable: incarnation 1 (in `exG`) and incarnation 2
    (after `exOps2`) of ("app","7") -/
example (hreach : ∀ g : GSys, g.Reach → g.GInv) : "mb1" ≠ "mb5" :=
  C03_distinct hreach exG_reach exOps2 (wf_of_wfDec _ _ (by decide +kernel))
    (row1 := ⟨1, "app", "7", "mb1"⟩) (row2 := ⟨2, "app", "7", "mb5"⟩) (by decide +kernel) (by decide +kernel)
    (by decide)

example (hreach : ∀ g : GSys, g.Reach → g.GInv) := C03_npMbInjective_reach hreach exG_reach

#print axioms C03_claimed_step
#print axioms C03_claimed_step_crash
#print axioms answer_rows
#print axioms claimedAnswers_sees_all
#print axioms C03_mailbox_never_changes
#print axioms C03_nextNp_mono
#print axioms C03_new_row
#print axioms C03_id_never_reused
#print axioms C03_same_mailbox
#print axioms C03_npMbInjective_step
#print axioms C03_npMbInjective_reach
#print axioms C03_new_incarnation_fresh
#print axioms C03_distinct
#print axioms C03_distinct_answers
#print axioms C03_repeat_partial
#print axioms C03_repeat_counterexample
#print axioms C03_repeat_counterexample_crash

end Wormhole
