/-
  C11, second part (audit B, P3) — the restart theorem for the machine WITH the object registry.

  `C11_restart_invisible` (Props/C11.lean) is about `Sys`, the object-free model, in which a restart is
  the identity up to `rebooted` almost by construction.  The content of the property — "the in-memory
  registries (`Server._apps`, `AppNamespace._mailboxes`, `Mailbox._listeners`) which a restart empties and
  which sweeps garbage-collect are unobservable" — is carried by the refinement `Reg_refines_Sys`
  (Props/Reg.lean).  This file composes the two:

  * `C11_restart_invisible_reg`   for crash-free `H₁`, `H₂`, both histories well-formed from the initial state:
        `rrun (H₁ ++ dropAll ++ [restart t] ++ H₂)` and `rrun (H₁ ++ dropAll ++ H₂)` on the REGISTRY machine
        `RSys` give every connection the same frames in the same order, and end with the same channel
        database (seen and committed), the same connection records (as `Sys` sees them), the same
        configuration and the same usage tables `nameplates`, `mailboxes`, `client_versions` (the `current`
        row is excluded: its `rebooted` column differs, `C11Example.current_differs`); the registry invariant
        holds in both final states, whose registries are in general DIFFERENT (`C11bExample.registries_differ`);
  * `C11_wf_without_restart`      well-formedness of the run without the restart follows from that of the
        run with it (so `C11_restart_invisible_reg'` needs one hypothesis only);
  * `C11_restart_invisible_reg_startup`   the start-up firing.  In the real service a restart is followed at
        once by one firing of `expire()` (`TimerService(EXPIRATION_CHECK_PERIOD, expire)` starts with
        `now=True`, server_tap.py).  `Sys.restart` / `RSys.restart` contain no firing; a history that models
        the real service has `sweep t false` right after `restart t`.  The theorem covers that: take
        `H₂ = sweep t false :: H₂'` — the sweep is then part of the continuation of BOTH runs.

  NOT CLAIMED (and false, `C11_startup_firing_not_comparable`): a comparison "restart followed by its
  start-up firing" versus "no restart and no firing at that time".  C11 compares the two runs under the
  SAME continuation — the property text says "including sweeps firing before, between and after the
  reconnects": the sweep schedule is part of the history and common to both runs.  A restart at a time when
  the kept server's timer would not have fired adds a firing, and a firing is observable (it deletes
  channels older than `expirationTicks`).
-/
import Wormhole.Props.C11
import Wormhole.Props.Reg

namespace Wormhole
open Sys

/-- the frames handed to connection `c`, in order (the projection used by `Reg_same_per_connection`) -/
def connFrames (c : Nat) (l : List Event) : List Event :=
  l.filter (fun e => match e with | .frame c' _ _ => decide (c' = c) | _ => false)

theorem connFrames_filter_isFrame (c : Nat) (l : List Event) :
    connFrames c (l.filter Event.isFrame) = connFrames c l := by
  unfold connFrames
  rw [List.filter_filter]
  congr 1
  funext e
  cases e <;> simp [Event.isFrame]

theorem connFrames_eq_of_frames_eq {l₁ l₂ : List Event}
    (h : l₁.filter Event.isFrame = l₂.filter Event.isFrame) (c : Nat) : connFrames c l₁ = connFrames c l₂ := by
  rw [← connFrames_filter_isFrame c l₁, ← connFrames_filter_isFrame c l₂, h]

/-- the operations that drop every live connection of the registry machine -/
def rdropAll (r : RSys) : List Op := r.conns.map (fun x => Op.drop x.id)

theorem dropAll_abs (r : RSys) : dropAll r.abs = rdropAll r := by
  simp [dropAll, rdropAll, RSys.abs, RSys.absConn, List.map_map, Function.comp_def]

theorem GSys.c11b_wf_left {g : GSys} {l1 l2 : List Op} (h : g.WF (l1 ++ l2)) : g.WF l1 := by
  induction l1 generalizing g with
  | nil => trivial
  | cons op rest ih => exact ⟨h.1, ih h.2⟩

theorem GSys.c11b_wf_right {g : GSys} {l1 l2 : List Op} (h : g.WF (l1 ++ l2)) : (g.run l1).WF l2 := by
  induction l1 generalizing g with
  | nil => exact h
  | cons op rest ih => exact ih h.2

theorem GSys.c11b_wf_append {g : GSys} {l1 l2 : List Op} (h1 : g.WF l1) (h2 : (g.run l1).WF l2) :
    g.WF (l1 ++ l2) := by
  induction l1 generalizing g with
  | nil => exact h2
  | cons op rest ih => exact ⟨h1.1, ih h1.2 h2⟩

theorem GSys.c11b_run_append (g : GSys) (l1 l2 : List Op) : g.run (l1 ++ l2) = (g.run l1).run l2 := by
  induction l1 generalizing g with
  | nil => rfl
  | cons op rest ih => exact ih _

/-- the connections alive after `H₁` are the same in the two machines -/
theorem rdropAll_eq_dropAll (cfg : Cfg) (rb : Time) (H₁ : List Op) (hwf : (GSys.init cfg rb).WF H₁) :
    rdropAll (rrun (RSys.init cfg rb) H₁).1 = dropAll (Sys.run ({ cfg := cfg, rebooted := rb } : Sys) H₁).1 := by
  have h := (RSys.Reg_refines_Sys cfg rb H₁ hwf).2.1.conns
  rw [← dropAll_abs]
  unfold dropAll
  rw [h]
  rfl

/-- what the two runs of C11 agree on, stated on the registry machine -/
structure RegRebootEq (a b : RSys) : Prop where
  db : a.core.db = b.core.db
  disk : a.core.disk = b.core.disk
  conns : a.abs.conns = b.abs.conns
  cfg : a.core.cfg = b.core.cfg
  unp : a.core.udb.nameplates = b.core.udb.nameplates
  umb : a.core.udb.mailboxes = b.core.udb.mailboxes
  ucl : a.core.udb.clients = b.core.udb.clients
  dnp : a.core.udisk.nameplates = b.core.udisk.nameplates
  dmb : a.core.udisk.mailboxes = b.core.udisk.mailboxes
  dcl : a.core.udisk.clients = b.core.udisk.clients
  /-- nothing uncommitted, on either side -/
  synced₁ : a.core.db = a.core.disk ∧ a.core.udb = a.core.udisk
  synced₂ : b.core.db = b.core.disk ∧ b.core.udb = b.core.udisk
  inv₁ : a.RegInv
  inv₂ : b.RegInv

/-- **C11 on the registry machine.**  `H₁`, `H₂` crash-free; `r` the registry state after `H₁`; both
    histories well-formed from the initial state (the restart carries a time: `WFOp.mono`).  The run of the
    server WITH its object registry over `H₁ ++ dropAll ++ [restart t] ++ H₂` and over `H₁ ++ dropAll ++ H₂`:
    * every connection receives the same frames (content and `synced` flag) in the same order;
    * the final states agree on the channel database as seen by the process and as committed (five tables
      and the id counter each), on the connection records as `Sys` sees them (a held object = its mailbox
      id), on the configuration and on the usage tables `nameplates`, `mailboxes`, `client_versions`
      (pending and committed); nothing is uncommitted; the registry invariant holds in both.
    The registries themselves (`apps`, `nss`, `mbs`, object ids) are NOT claimed equal — they are not. -/
theorem C11_restart_invisible_reg (cfg : Cfg) (rb : Time) (H₁ H₂ : List Op)
    (h1 : ∀ op ∈ H₁, op.isCrash = false) (h2 : ∀ op ∈ H₂, op.isCrash = false) (t : Time)
    (hwA : (GSys.init cfg rb).WF (H₁ ++ rdropAll (rrun (RSys.init cfg rb) H₁).1 ++ [.restart t] ++ H₂))
    (hwB : (GSys.init cfg rb).WF (H₁ ++ rdropAll (rrun (RSys.init cfg rb) H₁).1 ++ H₂)) :
    let r := (rrun (RSys.init cfg rb) H₁).1
    let A := rrun (RSys.init cfg rb) (H₁ ++ rdropAll r ++ [.restart t] ++ H₂)
    let B := rrun (RSys.init cfg rb) (H₁ ++ rdropAll r ++ H₂)
    (∀ c, connFrames c A.2 = connFrames c B.2) ∧ RegRebootEq A.1 B.1 := by
  intro r A B
  have hw1 : (GSys.init cfg rb).WF H₁ := by
    have := GSys.c11b_wf_left hwB
    exact GSys.c11b_wf_left this
  have hd : rdropAll r = dropAll (Sys.run ({ cfg := cfg, rebooted := rb } : Sys) H₁).1 :=
    rdropAll_eq_dropAll cfg rb H₁ hw1
  obtain ⟨_, hfr, e1, e2, e3, e4, e5, e6⟩ := C11_restart_invisible_init cfg rb H₁ H₂ h1 h2 t
  obtain ⟨iA, oA, tA⟩ := RSys.Reg_refines_Sys cfg rb _ hwA
  obtain ⟨iB, oB, tB⟩ := RSys.Reg_refines_Sys cfg rb _ hwB
  -- the Sys-side facts about the two runs (C09: nothing uncommitted; C11: RebootEq)
  have hcf : ∀ l : List Op, (∀ op ∈ l, op.isCrash = false) → ∀ op ∈ H₁ ++ rdropAll r ++ l, op.isCrash = false := by
    intro l hl op hop
    rcases List.mem_append.1 hop with h | h
    · rcases List.mem_append.1 h with h | h
      · exact h1 op h
      · rw [hd] at h; exact dropAll_noCrash _ op h
    · exact hl op h
  have hcfA : ∀ op ∈ H₁ ++ rdropAll r ++ [.restart t] ++ H₂, op.isCrash = false := by
    intro op hop
    rw [List.append_assoc (H₁ ++ rdropAll r)] at hop
    refine hcf ([.restart t] ++ H₂) ?_ op hop
    intro o ho
    rcases List.mem_append.1 ho with h | h
    · simp at h; subst h; rfl
    · exact h2 o h
  obtain ⟨_, sA, _⟩ := C09_frames_synced ({ cfg := cfg, rebooted := rb } : Sys) _ hcfA (init_synced cfg rb) (init_npOk cfg rb)
  obtain ⟨_, sB, _⟩ := C09_frames_synced ({ cfg := cfg, rebooted := rb } : Sys) _ (hcf H₂ h2) (init_synced cfg rb)
    (init_npOk cfg rb)
  have hcfgA := (C11_restart_invisible _ (init_synced cfg rb) (init_npOk cfg rb) H₁ H₂ h1 h2 t).2.2
  rw [← hd] at hfr e1 e2 e3 e4 e5 e6 hcfgA
  refine ⟨?_, ?_⟩
  · intro c
    have a := tA.filter_conn c
    have b := tB.filter_conn c
    exact (a.trans (connFrames_eq_of_frames_eq hfr c)).trans b.symm
  · have fA := oA.fields
    have fB := oB.fields
    obtain ⟨a1, a2, a3, a4, a5, a6, _, _⟩ := fA
    obtain ⟨b1, b2, b3, b4, b5, b6, _, _⟩ := fB
    have a2' : A.1.core.db = _ := a2
    have a3' : A.1.core.disk = _ := a3
    have a4' : A.1.core.udb = _ := a4
    have a5' : A.1.core.udisk = _ := a5
    have a1' : A.1.core.cfg = _ := a1
    have b2' : B.1.core.db = _ := b2
    have b3' : B.1.core.disk = _ := b3
    have b4' : B.1.core.udb = _ := b4
    have b5' : B.1.core.udisk = _ := b5
    have b1' : B.1.core.cfg = _ := b1
    exact {
      db := by rw [a2', b2']; exact e1
      disk := by rw [a3', b3']; exact e2
      conns := by rw [a6, b6]; exact e3
      cfg := by rw [a1', b1']; exact hcfgA.cfg
      unp := by rw [a4', b4']; exact e4
      umb := by rw [a4', b4']; exact e5
      ucl := by rw [a4', b4']; exact e6
      dnp := by rw [a5', b5']; exact hcfgA.dnp
      dmb := by rw [a5', b5']; exact hcfgA.dmb
      dcl := by rw [a5', b5']; exact hcfgA.dcl
      synced₁ := by rw [a2', a3', a4', a5']; exact sA
      synced₂ := by rw [b2', b3', b4', b5']; exact sB
      inv₁ := iA
      inv₂ := iB }


/-! ### well-formedness of the run without the restart follows from that of the run with it -/

/-- a well-formed crash-free continuation stays well-formed when the ghost clock is EARLIER and the
    states differ in `rebooted` / the `current` row only -/
theorem C11_wf_transfer (ops : List Op) (hops : ∀ op ∈ ops, op.isCrash = false) :
    ∀ {g₁ g₂ : GSys}, RebootEq g₁.sys g₂.sys → g₁.sys.db.NpOk → g₂.clock ≤ g₁.clock → g₁.used = g₂.used →
      g₁.WF ops → g₂.WF ops := by
  induction ops with
  | nil => intro _ _ _ _ _ _ _; trivial
  | cons op rest ih =>
    intro g₁ g₂ h hn hc hu hw
    have hop := hops op (by simp)
    obtain ⟨k1, k2, _, _⟩ := C11_step h hn op hop
    refine ⟨?_, ih (fun o ho => hops o (by simp [ho])) (g₁ := g₁.step op) (g₂ := g₂.step op) k1 k2 ?_ ?_ hw.2⟩
    · exact {
        connFresh := by
          intro c e x hx
          rw [← h.chan.2.2] at hx
          exact hw.1.connFresh c e x hx
        mono := fun t e => Int.le_trans hc (hw.1.mono t e)
        idFresh := by
          intro f e
          rw [← hu]
          exact hw.1.idFresh f e
        crashPlain := by
          intro k op' e
          subst e
          simp [Op.isCrash] at hop }
    · show (match op.time? with | some t => t | none => g₂.clock) ≤ (match op.time? with | some t => t | none => g₁.clock)
      cases op.time? with
      | some t => exact Int.le_refl _
      | none => exact hc
    · show g₁.used ++ op.mailboxIds = g₂.used ++ op.mailboxIds
      rw [hu]

/-- **the run without the restart is well-formed when the run with it is** (the restart only advances
    the clock) -/
theorem C11_wf_without_restart (cfg : Cfg) (rb : Time) (H₁ H₂ : List Op)
    (h1 : ∀ op ∈ H₁, op.isCrash = false) (h2 : ∀ op ∈ H₂, op.isCrash = false) (t : Time)
    (hwA : (GSys.init cfg rb).WF (H₁ ++ rdropAll (rrun (RSys.init cfg rb) H₁).1 ++ [.restart t] ++ H₂)) :
    (GSys.init cfg rb).WF (H₁ ++ rdropAll (rrun (RSys.init cfg rb) H₁).1 ++ H₂) := by
  have hwP : (GSys.init cfg rb).WF (H₁ ++ rdropAll (rrun (RSys.init cfg rb) H₁).1) :=
    GSys.c11b_wf_left (GSys.c11b_wf_left hwA)
  have hw1 : (GSys.init cfg rb).WF H₁ := GSys.c11b_wf_left hwP
  have hd := rdropAll_eq_dropAll cfg rb H₁ hw1
  have hwR : ((GSys.init cfg rb).run (H₁ ++ rdropAll (rrun (RSys.init cfg rb) H₁).1)).WF [.restart t] :=
    GSys.c11b_wf_right (GSys.c11b_wf_left hwA)
  have hw2 := GSys.c11b_wf_right hwA
  rw [GSys.c11b_run_append] at hw2
  refine GSys.c11b_wf_append hwP ?_
  -- the state before the restart: nothing uncommitted, no connection
  have hpre : ∀ op ∈ H₁ ++ rdropAll (rrun (RSys.init cfg rb) H₁).1, op.isCrash = false := by
    intro op hop
    rcases List.mem_append.1 hop with h | h
    · exact h1 op h
    · rw [hd] at h; exact dropAll_noCrash _ op h
  obtain ⟨_, hS', hN'⟩ := C09_frames_synced ({ cfg := cfg, rebooted := rb } : Sys) _ hpre (init_synced cfg rb)
    (init_npOk cfg rb)
  have hsys : ((GSys.init cfg rb).run (H₁ ++ rdropAll (rrun (RSys.init cfg rb) H₁).1)).sys =
      (Sys.run ({ cfg := cfg, rebooted := rb } : Sys) (H₁ ++ rdropAll (rrun (RSys.init cfg rb) H₁).1)).1 :=
    GSys.run_sys _ _
  have hC' : (Sys.run ({ cfg := cfg, rebooted := rb } : Sys) (H₁ ++ rdropAll (rrun (RSys.init cfg rb) H₁).1)).1.conns
      = [] := by
    rw [hd, c11_run_append]; exact run_dropAll_conns _
  have hR := rebootEq_restart_of_quiet _ t hS' hC'
  refine C11_wf_transfer H₂ h2 (g₁ := ((GSys.init cfg rb).run (H₁ ++ rdropAll (rrun (RSys.init cfg rb) H₁).1)).step
    (.restart t)) ?_ ?_ ?_ ?_ hw2
  · show RebootEq (((GSys.init cfg rb).run _).sys.step (.restart t)) ((GSys.init cfg rb).run _).sys
    rw [hsys]; exact hR
  · show (((GSys.init cfg rb).run _).sys.step (.restart t)).db.NpOk
    rw [hsys, hR.chan.1]; exact hN'
  · exact hwR.1.mono t rfl
  · show _ ++ [] = _
    simp

/-- `C11_restart_invisible_reg` with one well-formedness hypothesis -/
theorem C11_restart_invisible_reg' (cfg : Cfg) (rb : Time) (H₁ H₂ : List Op)
    (h1 : ∀ op ∈ H₁, op.isCrash = false) (h2 : ∀ op ∈ H₂, op.isCrash = false) (t : Time)
    (hwA : (GSys.init cfg rb).WF (H₁ ++ rdropAll (rrun (RSys.init cfg rb) H₁).1 ++ [.restart t] ++ H₂)) :
    let r := (rrun (RSys.init cfg rb) H₁).1
    let A := rrun (RSys.init cfg rb) (H₁ ++ rdropAll r ++ [.restart t] ++ H₂)
    let B := rrun (RSys.init cfg rb) (H₁ ++ rdropAll r ++ H₂)
    (∀ c, connFrames c A.2 = connFrames c B.2) ∧ RegRebootEq A.1 B.1 :=
  C11_restart_invisible_reg cfg rb H₁ H₂ h1 h2 t hwA (C11_wf_without_restart cfg rb H₁ H₂ h1 h2 t hwA)

/-! ### the start-up firing -/

/-- **C11 with the start-up firing of the real service.**  `makeService` starts the expiry timer with an
    immediate first call: a restart at `t` is followed at once by `expire()` at `t`.  In the model that is
    the history `… ++ [restart t, sweep t false] ++ H₂'`.  The theorem applies with `H₂ = sweep t false :: H₂'`:
    compared with the run in which the server was NOT restarted but its timer fired at `t` all the same,
    every connection gets the same frames and the stored state is the same.

    NOT claimed: the comparison with a run that has neither the restart nor that firing
    (`C11_startup_firing_not_comparable` below shows that it fails).  The property quantifies over ONE
    continuation — "including sweeps firing before, between and after the reconnects" — shared by the two
    runs; the times at which `expire()` runs are part of it. -/
theorem C11_restart_invisible_reg_startup (cfg : Cfg) (rb : Time) (H₁ H₂' : List Op)
    (h1 : ∀ op ∈ H₁, op.isCrash = false) (h2 : ∀ op ∈ H₂', op.isCrash = false) (t : Time)
    (hwA : (GSys.init cfg rb).WF
      (H₁ ++ rdropAll (rrun (RSys.init cfg rb) H₁).1 ++ [.restart t] ++ (.sweep t false :: H₂'))) :
    let r := (rrun (RSys.init cfg rb) H₁).1
    let A := rrun (RSys.init cfg rb) (H₁ ++ rdropAll r ++ [.restart t] ++ (.sweep t false :: H₂'))
    let B := rrun (RSys.init cfg rb) (H₁ ++ rdropAll r ++ (.sweep t false :: H₂'))
    (∀ c, connFrames c A.2 = connFrames c B.2) ∧ RegRebootEq A.1 B.1 :=
  C11_restart_invisible_reg' cfg rb H₁ (.sweep t false :: H₂') h1
    (by intro op hop; rcases List.mem_cons.1 hop with rfl | h; exact rfl; exact h2 op h) t hwA

/-! ### Non-vacuity, and what is not comparable -/

namespace C11bExample
open Generated

def bind (c : Nat) (t : Time) (app side : String) : Op := .recv c t .null (.bind (some app) (some side) none none)
def open_ (c : Nat) (t : Time) (m : String) : Op := .recv c t .null (.open_ (some m))
def add (c : Nat) (t : Time) (ph bd : String) : Op := .recv c t .null (.add (some (.str ph)) (some (.str bd)))

def cfg0 : Cfg := { usage := true }

/-- a client opens a mailbox and stores a message; a second connection is made; a sweep runs -/
def H₁ : List Op :=
  [.connect 1, bind 1 10 "a" "s1", open_ 1 11 "m", add 1 12 "pake" "x", .connect 2, .sweep 20 false]

/-- the start-up firing; the peer reconnects, opens the mailbox (the stored message is replayed), adds;
    the first client comes back too; a later sweep -/
def H₂ : List Op :=
  [.sweep 50 false, .connect 3, bind 3 51 "a" "s2", open_ 3 52 "m", .connect 4, bind 4 53 "a" "s1",
   open_ 4 54 "m", add 3 55 "pake" "y", .sweep 60 false]

def r : RSys := (rrun (RSys.init cfg0 0) H₁).1
def A := rrun (RSys.init cfg0 0) (H₁ ++ rdropAll r ++ [.restart 50] ++ H₂)
def B := rrun (RSys.init cfg0 0) (H₁ ++ rdropAll r ++ H₂)

/-- two connections are alive after `H₁`, one of them holds a Mailbox object -/
theorem r_ids : r.conns.map (·.id) = [1, 2] ∧ r.mbs.length = 1 := by decide +kernel

theorem rdropAll_r : rdropAll r = [.drop 1, .drop 2] := by
  have : rdropAll r = (r.conns.map (·.id)).map Op.drop := by simp [rdropAll, List.map_map, Function.comp_def]
  rw [this, r_ids.1]; rfl

theorem hwA : (GSys.init cfg0 0).WF (H₁ ++ rdropAll (rrun (RSys.init cfg0 0) H₁).1 ++ [.restart 50] ++ H₂) := by
  have : rdropAll (rrun (RSys.init cfg0 0) H₁).1 = [.drop 1, .drop 2] := rdropAll_r
  rw [this]
  exact GSys.wfB_sound (by decide +kernel)

/-- the hypotheses of `C11_restart_invisible_reg'` / `_startup` hold (`H₂` begins with the firing at the
    restart time) -/
example := C11_restart_invisible_reg' cfg0 0 H₁ H₂ (by decide) (by decide) 50 hwA
example := C11_restart_invisible_reg_startup cfg0 0 H₁ H₂.tail (by decide) (by decide) 50 hwA

/-- evaluated, not derived: connection 3 gets the replayed message and, later, the broadcast in both runs;
    the final databases are equal and not empty -/
example : connFrames 3 A.2 = connFrames 3 B.2 ∧ (connFrames 3 A.2).length = 6 ∧
    Event.frame 3 (.message "s1" (.str "pake") (.str "x") 12 .null) true ∈ A.2 ∧
    A.1.core.db = B.1.core.db ∧ A.1.core.db.messages.length = 2 := by decide +kernel

/-- the REGISTRIES of the two final states differ (object ids; the kept server still knows the namespace
    object created before the restart point) although nothing observable does -/
theorem registries_differ : A.1.nss ≠ B.1.nss ∧ A.1.mbs.map (·.oid) ≠ B.1.mbs.map (·.oid) := by decide +kernel

/-! #### restart + start-up firing versus no restart and no firing: NOT comparable -/

/-- a client stores a message at 10 and goes away -/
def K₁ : List Op := [.connect 1, bind 1 10 "a" "s1", open_ 1 10 "m", add 1 10 "pake" "x", .drop 1]

/-- the peer connects after `10 + E` and opens the mailbox -/
def K₂ : List Op :=
  [.connect 2, bind 2 (10 + expirationTicks + 2) "a" "s2", open_ 2 (10 + expirationTicks + 2) "m"]

/-- **the start-up firing is observable.**  The mailbox was stamped at 10; the kept server's next firing
    would be later than `10 + E + 2`.  Run A: restart at `10 + E + 1` WITH its start-up firing; run B: no
    restart, no firing.  Both histories are well-formed.  In A the firing deletes the channel: the peer's
    `open` creates a new, empty mailbox and nothing is replayed; in B the peer gets the stored message.
    (With the firing in both runs — `C11_restart_invisible_reg_startup` — they agree.) -/
theorem C11_startup_firing_not_comparable :
    let t := 10 + expirationTicks + 1
    let A := rrun (RSys.init {} 0) (K₁ ++ [.restart t, .sweep t false] ++ K₂)
    let B := rrun (RSys.init {} 0) (K₁ ++ K₂)
    (GSys.init {} 0).WF (K₁ ++ [.restart t, .sweep t false] ++ K₂) ∧ (GSys.init {} 0).WF (K₁ ++ K₂) ∧
    connFrames 2 A.2 ≠ connFrames 2 B.2 ∧
    Event.frame 2 (.message "s1" (.str "pake") (.str "x") 10 .null) true ∈ B.2 ∧
    Event.frame 2 (.message "s1" (.str "pake") (.str "x") 10 .null) true ∉ A.2 ∧
    A.1.core.db.messages = [] ∧ B.1.core.db.messages.length = 1 := by
  refine ⟨GSys.wfB_sound (by decide +kernel), GSys.wfB_sound (by decide +kernel), by decide +kernel,
    by decide +kernel, by decide +kernel, by decide +kernel, by decide +kernel⟩

end C11bExample

end Wormhole

#print axioms Wormhole.C11_restart_invisible_reg
#print axioms Wormhole.C11_wf_without_restart
#print axioms Wormhole.C11_restart_invisible_reg'
#print axioms Wormhole.C11_restart_invisible_reg_startup
#print axioms Wormhole.C11bExample.C11_startup_firing_not_comparable
#print axioms Wormhole.C11bExample.registries_differ
