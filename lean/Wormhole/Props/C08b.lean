/-
  C08, supplements asked for by the audit of the statements (AUDIT_A, problems 4 and 10).

  * `C08_reclose_gone_usage` — `C08_reclose_gone` (Props/C08.lean) says that a re-sent `close` of a mailbox
    that is gone is answered `closed` and leaves the CHANNEL database as it was.  It is silent on the usage
    database.  Here is the exact effect: the step creates the mailbox row and the closing side's row,
    closes and deletes them, so
      - with `cfg.usage = false` the usage database is untouched;
      - with `cfg.usage = true` EXACTLY ONE usage `mailboxes` row is appended, `goneRecord`
        = `(app, for_nameplate = 0, started = blur t, total = 0, waiting = NULL, result)` with
        `result = goneResult mood`: one side, the mood as submitted — "scary" / "errory" as they are, every
        other mood (happy, lonely, none, anything else) gives "lonely" (one side only).  Nothing is added to
        the usage `nameplates` table (no nameplate can point at a mailbox id that has no row).
    So a re-sent close is harmless for the channel database but NOT invisible in the usage database: every
    repetition adds a row for a mailbox that never carried a message.  This is the third case of finding
    K-usage-crash-dup (Props/C10d.lean, `C10_resend_close_all_partial`) and it needs no crash at all.
  * `C08_reclose_touch_counterexample_reach`, `C08_reclose_crowded_counterexample_reach` — the two
    counterexamples of Props/C08.lean (K-close-touch, K-crowded-rejoin) are about hand-written states
    `Ex.g1`, `Ex.g2` shown to satisfy `GInv`; here the same phenomena on states shown REACHABLE
    (`GSys.reach_of_wfB` on explicit crash-free histories).
-/
import Wormhole.Props.C08
import Wormhole.Props.C10d

namespace Wormhole
open Sys

/-- the classification of a mailbox that had one side, by that side's mood -/
def goneResult (mood : Option String) : String :=
  if mood = some "scary" then "scary" else if mood = some "errory" then "errory" else "lonely"

/-- **the surplus row, spelled out**: one side, retired at the instant it was added -/
theorem goneRecord_eq (blur : Time → Time) (a m σ : String) (mood : Option String) (t : Time) :
    goneRecord blur a m σ mood t = ⟨a, false, blur t, 0, none, goneResult mood⟩ := by
  unfold goneRecord mbRecord C15.mailboxSpec goneResult
  have hw : C15.waitingSpec [t] = none := (C15.waitingSpec_eq_none_iff [t]).2 (by simp)
  have hmin : ([t] : List Time).min?.getD t = t := by simp
  have hm : ∀ s : String, C15.HasMood [(⟨m, false, σ, t, mood⟩ : MbSide)] s ↔ mood = some s := by
    intro s; simp [C15.HasMood]
  simp only [List.map_cons, List.map_nil, hw, hmin, List.length_cons, List.length_nil, hm]
  by_cases h1 : mood = some "scary"
  · simp [h1]
  · by_cases h2 : mood = some "errory"
    · simp [h2]
    · by_cases h3 : mood = some "lonely" <;> simp [h1, h2, h3]

namespace Chan

/-- opening a mailbox id that has no row and no side row, then closing it: no nameplate record ... -/
theorem closeRecsNp_fresh {d : Chan} {a m : String} (hnp : ∀ n ∈ d.nameplates, ¬ (n.app = a ∧ n.mailbox = m))
    (blur : Time → Time) (σ : String) (t' t : Time) :
    (d.openDb a m σ t').closeRecsNp blur a m t = [] := by
  rw [closeRecsNp_openDb]
  unfold closeRecsNp nameplatesOfMailbox
  have : d.nameplates.filter (fun r => r.app = a ∧ r.mailbox = m) = [] := by
    rw [List.filter_eq_nil_iff]
    intro n hn
    simpa using hnp n hn
  rw [this]; rfl

/-- ... and exactly the `goneRecord` -/
theorem closeRecsMb_fresh {d : Chan} {a m : String} (hid : ∀ r ∈ d.mailboxes, r.id ≠ m)
    (hsd : ∀ r ∈ d.mbSides, r.mailbox ≠ m) (blur : Time → Time) (σ : String) (mood : Option String) (t : Time) :
    (d.openDb a m σ t).closeRecsMb blur a m σ mood t = [goneRecord blur a m σ mood t] := by
  have hnone : d.findMailbox a m = none := by
    rw [findMailbox_eq_none]
    rintro ⟨r, hr, _, e⟩
    exact hid r hr e
  have hsnone : d.findMbSide m σ = none := by
    rw [findMbSide_eq_none]
    intro r hr hk
    exact hsd r hr hk.1
  have hfind : (d.openDb a m σ t).findMailbox a m = some ⟨a, m, t, false⟩ := by
    unfold openDb
    simp only [hnone]
    unfold findMailbox at hnone ⊢
    exact Sys.find?_append_of_none hnone _ (by simp)
  unfold closeRecsMb
  rw [hfind]
  dsimp only
  have hsides : ((d.openDb a m σ t).closeSide m σ mood).mbSidesOf m = [⟨m, false, σ, t, mood⟩] := by
    have h1 : (d.openDb a m σ t).mbSides = d.mbSides ++ [⟨m, true, σ, t, none⟩] := by
      unfold openDb; simp only [hsnone]
    unfold mbSidesOf closeSide
    simp only [h1, List.map_append, List.filter_append, List.map_cons, List.map_nil]
    have h3 : (d.mbSides.map
        (fun r => if r.mailbox = m ∧ r.side = σ then { r with opened := false, mood := mood } else r)).filter
        (fun r => r.mailbox = m) = [] := by
      rw [List.filter_eq_nil_iff]
      intro r hr
      obtain ⟨r0, hr0, rfl⟩ := List.mem_map.1 hr
      have hne : ¬ r0.mailbox = m := hsd r0 hr0
      split <;> simpa using hne
    rw [h3]
    simp
  rw [hsides]
  rfl

end Chan

namespace C08

/-- **C08 (re-close, mailbox gone): the usage database.**  Same hypotheses as `C08_reclose_gone`.
    Without a usage database nothing is written; with one, exactly one `mailboxes` row is appended -- the
    `goneRecord` -- and nothing else changes (`nameplates`, `current`, `client_versions` as they were). -/
theorem C08_reclose_gone_usage {g : GSys} (hI : g.GInv) {c : Nat} {x : Conn} {app : String}
    (hx : g.sys.findConn c = some x) (hf : FreshBound x app) {mb : String}
    (hgone : ¬ g.sys.db.HasId mb) (mood : Option String) (t : Time) (id : Val) :
    (g.sys.cfg.usage = false → (g.sys.step (.recv c t id (.close (some mb) mood))).udb = g.sys.udb) ∧
    (g.sys.cfg.usage = true →
      (g.sys.step (.recv c t id (.close (some mb) mood))).udb =
        { g.sys.udb with mailboxes := g.sys.udb.mailboxes ++
            [goneRecord g.sys.blurTime app mb (x.side.getD "") mood t] } ∧
      goneRecord g.sys.blurTime app mb (x.side.getD "") mood t =
        ⟨app, false, g.sys.blurTime t, 0, none, goneResult mood⟩) := by
  have hP := hI.cinv.toPInv
  have hc := hf.closeCase hx mb mood
  have hnoid : ∀ r ∈ g.sys.db.mailboxes, r.id ≠ mb := fun r hr e => hgone ⟨r, hr, e⟩
  have hnoside : ∀ r ∈ g.sys.db.mbSides, r.mailbox ≠ mb := by
    intro r hr hk
    obtain ⟨m0, hm0, hi⟩ := hP.msFk r hr
    exact hgone ⟨m0, hm0, hi.trans hk⟩
  have hnonp : ∀ n ∈ g.sys.db.nameplates, ¬ (n.app = app ∧ n.mailbox = mb) := by
    intro n hn hk
    obtain ⟨m0, hm0, hi, _⟩ := hP.npMb n hn
    exact hgone ⟨m0, hm0, hi.trans hk.2⟩
  have hpre : closePre g.sys x app mb t = g.sys.db.openDb app mb (x.side.getD "") t := by
    simp [closePre, hf.noHandle]
  have hgo : ¬ (x.mailbox = none ∧ (g.sys.db.Clash app mb ∨ ((closePre g.sys x app mb t).mbSidesOf mb).length > 2)) := by
    rintro ⟨_, hk | hk⟩
    · obtain ⟨⟨m0, hm0, hi, _⟩, _⟩ := hk
      exact hgone ⟨m0, hm0, hi⟩
    · rw [hpre, Chan.openDb_mbSidesOf] at hk
      have h0 : g.sys.db.mbSidesOf mb = [] := by
        simp only [Chan.mbSidesOf, List.filter_eq_nil_iff, decide_eq_true_eq]
        exact fun r hr => hnoside r hr
      rw [h0] at hk
      split at hk <;> simp at hk
  have hudb := close_step_udb_all hP hI.cinv.npHasSide hI.synced hc.conn hc.valid hc.bound hc.target t id hgo
    (by rw [hpre]; exact Chan.openDb_hasBox _ _ _ _ _)
    (by rw [hpre]; exact Chan.openDb_findMbSide_ne_none _ _ _ _ _)
  rw [hpre] at hudb
  have hno : ¬ (g.sys.db.openDb app mb (x.side.getD "") t).OtherOpen mb (x.side.getD "") := by
    rw [Chan.otherOpen_openDb]
    rintro ⟨r, hr, hk, _⟩
    exact hnoside r hr hk
  constructor
  · intro hu
    rw [hudb]; unfold closeUdb; simp [hu]
  · intro hu
    refine ⟨?_, goneRecord_eq _ _ _ _ _ _⟩
    rw [hudb]
    unfold closeUdb
    rw [if_pos ⟨hu, hno⟩, Chan.closeRecsNp_fresh hnonp, Chan.closeRecsMb_fresh hnoid hnoside]
    simp

/-! ## Non-vacuity, and the two counterexamples of Props/C08.lean on REACHABLE states -/

namespace ExB

def bind (c : Nat) (t : Time) (σ : String) : Op := .recv c t (.int 1) (.bind (some "app") (some σ) none none)

/-- sides s1 and s2 have mailbox "m" open since t = 100; s1 closes at t = 200; side s1 comes back on a
    fresh connection 3 -/
def H1 : List Op :=
  [ .connect 1, bind 1 10 "s1", .recv 1 100 (.int 2) (.open_ (some "m")),
    .connect 2, bind 2 100 "s2", .recv 2 100 (.int 2) (.open_ (some "m")),
    .recv 1 200 (.int 3) (.close (some "m") (some "happy")),
    .connect 3, bind 3 200 "s1" ]
def g1 : GSys := (GSys.init { usage := true } 0).run H1
theorem g1_reach : g1.Reach := GSys.reach_of_wfB _ _ _ (by decide +kernel)
def conn3 : Conn := { id := 3, app := some "app", side := some "s1" }
def reclose : Op := .recv 3 300 (.int 6) (.close (some "m") (some "happy"))

/-- **K-close-touch on a reachable state**: every hypothesis of `C08_reclose_survives_partial` holds in the
    reachable state `g1` (the guard included); the repeated close is answered `closed`, but the channel
    database is NOT what it was: `updated` of "m" went from 100 to 300 -/
theorem C08_reclose_touch_counterexample_reach :
    g1.Reach ∧ g1.sys.findConn 3 = some conn3 ∧ FreshBound conn3 "app" ∧ g1.sys.db.HasBox "app" "m" ∧
    (∃ r ∈ g1.sys.db.mbSides, r.mailbox = "m" ∧ r.side = conn3.side.getD "") ∧
    g1.sys.db.OtherOpen "m" (conn3.side.getD "") ∧ (g1.sys.db.mbSidesOf "m").length ≤ 2 ∧
    (g1.sys.step reclose).out = [.frame 3 (.ack (.int 6)) true, .commit .chan, .frame 3 .closed true] ∧
    (g1.sys.step reclose).db ≠ g1.sys.db ∧
    g1.sys.db.mailboxes = [⟨"app", "m", 100, false⟩] ∧
    (g1.sys.step reclose).db = { g1.sys.db with mailboxes := [⟨"app", "m", 300, false⟩] } :=
  ⟨g1_reach, by decide +kernel, ⟨rfl, rfl, rfl, rfl⟩, by decide +kernel, by decide +kernel, by decide +kernel,
    by decide +kernel, by decide +kernel, by decide +kernel, by decide +kernel, by decide +kernel⟩

/-- a third side s3 has tried to open "m" meanwhile (answered `crowded`; its side row stays) -/
def H2 : List Op :=
  [ .connect 1, bind 1 10 "s1", .recv 1 100 (.int 2) (.open_ (some "m")),
    .connect 2, bind 2 100 "s2", .recv 2 100 (.int 2) (.open_ (some "m")),
    .recv 1 200 (.int 3) (.close (some "m") (some "happy")),
    .connect 4, bind 4 250 "s3", .recv 4 250 (.int 2) (.open_ (some "m")),
    .connect 3, bind 3 250 "s1" ]
def g2 : GSys := (GSys.init { usage := true } 0).run H2
theorem g2_reach : g2.Reach := GSys.reach_of_wfB _ _ _ (by decide +kernel)

/-- **K-crowded-rejoin on a reachable state**: all hypotheses of `C08_reclose_survives_partial` except the
    guard hold in the reachable state `g2`, and the repeated close of side s1 -- one of the first two
    sides -- is answered `crowded`, not `closed` -/
theorem C08_reclose_crowded_counterexample_reach :
    g2.Reach ∧ g2.sys.findConn 3 = some conn3 ∧ FreshBound conn3 "app" ∧ g2.sys.db.HasBox "app" "m" ∧
    (∃ r ∈ g2.sys.db.mbSides, r.mailbox = "m" ∧ r.side = conn3.side.getD "") ∧
    g2.sys.db.OtherOpen "m" (conn3.side.getD "") ∧ ¬ (g2.sys.db.mbSidesOf "m").length ≤ 2 ∧
    (g2.sys.step reclose).out =
      [.frame 3 (.ack (.int 6)) true, .commit .chan, .frame 3 (.error "crowded") true] :=
  ⟨g2_reach, by decide +kernel, ⟨rfl, rfl, rfl, rfl⟩, by decide +kernel, by decide +kernel, by decide +kernel,
    by decide +kernel, by decide +kernel⟩

/-- `C08_reclose_gone_usage`: the hypotheses hold in `g1` for a mailbox id that has no row, with a usage
    database; the theorem gives the row, and evaluation agrees (mood "happy" is recorded as "lonely",
    mood "scary" as "scary") -/
example : g1.sys.findConn 3 = some conn3 ∧ FreshBound conn3 "app" ∧ ¬ g1.sys.db.HasId "gone" ∧
    g1.sys.cfg.usage = true :=
  ⟨by decide +kernel, ⟨rfl, rfl, rfl, rfl⟩, by decide +kernel, by decide +kernel⟩
example : (g1.sys.step (.recv 3 300 (.int 6) (.close (some "gone") (some "happy")))).udb =
    { g1.sys.udb with mailboxes := g1.sys.udb.mailboxes ++
        [goneRecord g1.sys.blurTime "app" "gone" "s1" (some "happy") 300] } :=
  ((C08_reclose_gone_usage g1_reach.ginv (c := 3) (x := conn3) (app := "app") (by decide +kernel)
    ⟨rfl, rfl, rfl, rfl⟩ (mb := "gone") (by decide +kernel) (some "happy") 300 (.int 6)).2 (by decide +kernel)).1
example : (g1.sys.step (.recv 3 300 (.int 6) (.close (some "gone") (some "happy")))).udb.mailboxes =
      [⟨"app", false, 300, 0, none, "lonely"⟩] ∧
    (g1.sys.step (.recv 3 300 (.int 6) (.close (some "gone") (some "scary")))).udb.mailboxes =
      [⟨"app", false, 300, 0, none, "scary"⟩] ∧
    (g1.sys.step (.recv 3 300 (.int 6) (.close (some "gone") (some "happy")))).db = g1.sys.db := by
  decide +kernel
example : goneResult (some "happy") = "lonely" ∧ goneResult none = "lonely" ∧ goneResult (some "scary") = "scary" ∧
    goneResult (some "errory") = "errory" ∧ goneResult (some "lonely") = "lonely" := by decide

/-- without a usage database (same history): nothing is written -/
def g1N : GSys := (GSys.init {} 0).run H1
theorem g1N_reach : g1N.Reach := GSys.reach_of_wfB _ _ _ (by decide +kernel)
example : (g1N.sys.step (.recv 3 300 (.int 6) (.close (some "gone") (some "happy")))).udb = g1N.sys.udb :=
  (C08_reclose_gone_usage g1N_reach.ginv (c := 3) (x := conn3) (app := "app") (by decide +kernel)
    ⟨rfl, rfl, rfl, rfl⟩ (mb := "gone") (by decide +kernel) (some "happy") 300 (.int 6)).1 (by decide +kernel)

end ExB

end C08
end Wormhole

#print axioms Wormhole.goneRecord_eq
#print axioms Wormhole.C08.C08_reclose_gone_usage
#print axioms Wormhole.C08.ExB.C08_reclose_touch_counterexample_reach
#print axioms Wormhole.C08.ExB.C08_reclose_crowded_counterexample_reach
