/-
  C20 — schema upgrade keeps every usage record and can be retried.

  Theorems about the step model of `database.py` (`Wormhole/DbFile.lean`) and about the
  generated upgrade script.  `C20_schema_equal` and `C20_rows_kept` are statements about
  `Generated.sql_upgrade_usage_to_v2` / `sql_usage_v1` / `sql_usage_v2` and are proved by kernel
  evaluation, i.e. re-proved against the SQL files of the current tree whenever they change.
  `C20_backup`, `C20_retry` hold for EVERY payload of the version-1 database, every directory
  around it and every crash point.
-/
import Wormhole.Props.C19

namespace Wormhole.DbFile

/-! ## Scripts whose data statements touch only `version` -/

def withPayload (v : Db) (pay : List (String × List Row)) : Db := { v with payload := pay }

def okEq (r : Except Err Db) (v : Db) : Bool :=
  match r with
  | .ok x => x = v
  | .error _ => false

theorem okEq_iff {r : Except Err Db} {v : Db} (h : okEq r v = true) : r = .ok v := by
  cases r with
  | error e => simp [okEq] at h
  | ok x => simp [okEq] at h; rw [h]

def dmlOk (s : Stmt) : Bool :=
  isCreate s ∨ ((kind s = "deleteall" ∨ kind s = "insert") ∧ obj s = "version")

theorem dmlOnlyVersion_cons {s : Stmt} {r : List Stmt} (h : dmlOnlyVersion (s :: r) = true) :
    dmlOk s = true ∧ dmlOnlyVersion r = true := by
  simpa [dmlOnlyVersion, dmlOk] using h

/-- such a statement neither reads nor writes the payload -/
theorem applyStmt_withPayload {s : Stmt} (hs : dmlOk s = true) (v : Db)
    (pay : List (String × List Row)) :
    applyStmt s (withPayload v pay) =
      match applyStmt s v with
      | .ok v1 => .ok (withPayload v1 pay)
      | .error e => .error e := by
  simp only [dmlOk, Bool.decide_or, Bool.decide_and, Bool.or_eq_true, Bool.and_eq_true,
    decide_eq_true_eq] at hs
  unfold applyStmt
  have ho : ∀ n, hasObj (withPayload v pay) n = hasObj v n := fun _ => rfl
  have ht : ∀ n, hasTable (withPayload v pay) n = hasTable v n := fun _ => rfl
  by_cases hc : isCreate s = true
  · simp only [hc, if_true, ho]
    split <;> rfl
  · rcases hs with hs | ⟨_, hv⟩
    · exact absurd hs hc
    · simp only [hc, Bool.false_eq_true, if_false, ht, hv, if_true]
      by_cases hk : kind s = "deleteall"
      · simp only [hk, if_true]
        split <;> rfl
      · simp only [hk, if_false]
        by_cases hi : kind s = "insert"
        · simp only [hi, if_true]
          split
          · cases parseNat (txt s) <;> rfl
          · rfl
        · simp only [hi, if_false]

theorem runScript_withPayload : ∀ (up : List Stmt), dmlOnlyVersion up = true →
    ∀ (v vfin : Db) (pay : List (String × List Row)), runScript up v = .ok vfin →
      runScript up (withPayload v pay) = .ok (withPayload vfin pay)
  | [], _, v, vfin, pay, h => by
    simp only [runScript] at h ⊢
    cases h; rfl
  | s :: r, hd, v, vfin, pay, h => by
    obtain ⟨hs, hr⟩ := dmlOnlyVersion_cons hd
    obtain ⟨v1, ha, hr1⟩ := runScript_cons_ok h
    simp only [runScript, applyStmt_withPayload hs, ha]
    exact runScript_withPayload r hr v1 vfin pay hr1

/-- every record intact: a script of this shape returns the payload it was given -/
theorem runScript_payload (up : List Stmt) (hd : dmlOnlyVersion up = true) (v vfin : Db)
    (h : runScript up v = .ok vfin) : vfin.payload = v.payload := by
  have h1 := runScript_withPayload up hd v vfin v.payload h
  have h2 : withPayload v v.payload = v := rfl
  rw [h2, h] at h1
  have h3 : vfin = withPayload vfin v.payload := Except.ok.inj h1
  have h4 : vfin.payload = (withPayload vfin v.payload).payload := congrArg Db.payload h3
  exact h4

theorem sameObjs_iff {a b : List Stmt} (h : sameObjs a b = true) : ∀ o, o ∈ a ↔ o ∈ b := by
  simp only [sameObjs, Bool.decide_and, Bool.and_eq_true, List.all_eq_true, decide_eq_true_eq] at h
  exact fun o => ⟨h.1 o, h.2 o⟩

/-! ## The generated usage scripts -/

/-- a version-1 usage database with arbitrary records -/
def usageV1 (pay : List (String × List Row)) : Db :=
  { objects := Generated.sql_usage_v1, version := [.int 1], payload := pay, fkBad := false }

/-- what the upgrade makes of it -/
def usageUpgraded (pay : List (String × List Row)) : Db :=
  { objects := Generated.sql_usage_v1 ++ Generated.sql_upgrade_usage_to_v2.filter isCreate,
    version := [.int usageCfg.target], payload := pay, fkBad := false }

/-- kernel evaluation of the upgrade script on the (payload-free) v1 schema -/
theorem upgrade_eval : okEq (runScript Generated.sql_upgrade_usage_to_v2 (usageV1 []))
    (usageUpgraded []) = true := by decide +kernel

theorem upgrade_objs : sameObjs (usageUpgraded []).objects Generated.sql_usage_v2 = true := by
  decide +kernel

theorem upgrade_dml : dmlOnlyVersion Generated.sql_upgrade_usage_to_v2 = true := by
  decide +kernel

/-- how `usageCfg` (built from `Generated.scripts` and `Generated.usageTarget`) resolves -/
theorem usageCfg_facts :
    usageCfg.upgrader (1 + 1) = some Generated.sql_upgrade_usage_to_v2 ∧
    (1 : Int) + 1 = (usageCfg.target : Int) ∧
    usageCfg.schema = some Generated.sql_usage_v2 ∧
    (usageCfg.target : Int) = 2 := by decide +kernel

theorem upgrade_run_script (pay : List (String × List Row)) :
    runScript Generated.sql_upgrade_usage_to_v2 (usageV1 pay) = .ok (usageUpgraded pay) :=
  runScript_withPayload _ upgrade_dml (usageV1 []) (usageUpgraded []) pay (okEq_iff upgrade_eval)

/-- **C20_schema_equal.**  Applying the generated upgrade script to a database holding exactly
    the objects of the generated `usage-v1.sql` (and `version` = [1]) succeeds and gives exactly
    the object set of the generated `usage-v2.sql` — the schema `create_usage_db` gives a fresh
    database (`usageCfg.schema`) — with `version` rows = [2], for every payload. -/
theorem C20_schema_equal (pay : List (String × List Row)) :
    ∃ v2, runScript Generated.sql_upgrade_usage_to_v2 (usageV1 pay) = .ok v2 ∧
      (∀ o, o ∈ v2.objects ↔ o ∈ Generated.sql_usage_v2) ∧
      usageCfg.schema = some Generated.sql_usage_v2 ∧
      v2.version = [.int 2] := by
  refine ⟨usageUpgraded pay, upgrade_run_script pay, sameObjs_iff upgrade_objs,
    usageCfg_facts.2.2.1, ?_⟩
  have := usageCfg_facts.2.2.2
  simp [usageUpgraded, this]

/-- **C20_rows_kept.**  No statement of the generated upgrade script touches a payload table:
    every statement is a CREATE (of an object that is new — else `C20_schema_equal`'s run would
    fail —) or a DELETE/INSERT on `version`; consequently, for ANY database content the script
    runs on, the payload rows (every usage record) come out exactly as they went in. -/
theorem C20_rows_kept :
    (∀ s, s ∈ Generated.sql_upgrade_usage_to_v2 →
      isCreate s = true ∨ ((kind s = "deleteall" ∨ kind s = "insert") ∧ obj s = "version")) ∧
    (∀ s, s ∈ Generated.sql_upgrade_usage_to_v2 → isCreate s = true →
      ∀ o, o ∈ Generated.sql_usage_v1 → ¬ obj o = obj s) ∧
    (∀ v v' : Db, runScript Generated.sql_upgrade_usage_to_v2 v = .ok v' →
      v'.payload = v.payload) := by
  refine ⟨?_, ?_, fun v v' h => runScript_payload _ upgrade_dml v v' h⟩
  · have h := upgrade_dml
    simp only [dmlOnlyVersion, List.all_eq_true] at h
    intro s hs
    simpa using h s hs
  · have h : (Generated.sql_upgrade_usage_to_v2.all fun s =>
        !isCreate s || Generated.sql_usage_v1.all fun o => !decide (obj o = obj s)) = true := by
      decide +kernel
    simp only [List.all_eq_true, Bool.or_eq_true, Bool.not_eq_true', decide_eq_false_iff_not] at h
    intro s hs hc o ho
    rcases h s hs with h1 | h1
    · rw [hc] at h1; cases h1
    · exact h1 o ho

/-! ## The upgrade procedure (generic configuration) -/

section upgrade
variable (cx : Ctx) (v v' : Db) (i : Int) (up : List Stmt)

/-- what holds at every point of an upgrade started on directory `d`: the database file is
    still the old one, or it is the new one and the backup holds the old one; nothing else
    but the backup file is touched -/
def UpOk (d : Dir) (m : M) : Prop :=
  (m.dir.get cx.dbfile = some (.db v) ∨
    (m.dir.get cx.dbfile = some (.db v') ∧
      m.dir.get (backupPath cx.dbfile i) = some (.db v))) ∧
  ∀ p, ¬ p = cx.dbfile → ¬ p = backupPath cx.dbfile i → m.dir.get p = d.get p

def upFinal (d : Dir) : Dir := ((d.set (backupPath cx.dbfile i) (.db v)).set cx.dbfile (.db v'))

theorem upOk_old {d : Dir} {m : M} (hd : d.get cx.dbfile = some (.db v)) (hm : m.dir = d) :
    UpOk cx v v' i d m :=
  ⟨Or.inl (by rw [hm, hd]), fun p _ _ => by rw [hm]⟩

theorem upOk_bk {d : Dir} {m : M} (c : Content) (hd : d.get cx.dbfile = some (.db v))
    (hm : m.dir = d.set (backupPath cx.dbfile i) c) : UpOk cx v v' i d m := by
  refine ⟨Or.inl ?_, fun p _ h2 => ?_⟩
  · rw [hm, Dir.get_set_ne _ _ (backupPath_ne _ _), hd]
  · rw [hm, Dir.get_set_ne _ _ (fun h => h2 h.symm)]

theorem upOk_final {d : Dir} {m : M} (hm : m.dir = upFinal cx v v' i d) :
    UpOk cx v v' i d m := by
  refine ⟨Or.inr ⟨?_, ?_⟩, fun p h1 h2 => ?_⟩
  · rw [hm]; simp [upFinal]
  · rw [hm]; simp only [upFinal]
    rw [Dir.get_set_ne _ _ (fun h => backupPath_ne _ _ h.symm), Dir.get_set_self]
  · rw [hm]; simp only [upFinal]
    rw [Dir.get_set_ne _ _ (fun h => h1 h.symm), Dir.get_set_ne _ _ (fun h => h2 h.symm)]

/-- a complete upgrade run of `_get_db` on a database one version behind the target:
    `UpOk` at every point, success, final directory `upFinal` -/
theorem upgrade_run (d : Dir) (rest : List VerVal)
    (hd : d.get cx.dbfile = some (.db v)) (ht : hasTable v "version" = true)
    (hv : v.version = .int i :: rest) (hfk : v.fkBad = false)
    (hi : i + 1 = (cx.cfg.target : Int)) (hu : cx.cfg.upgrader (i + 1) = some up)
    (hs : runScript up v = .ok v') :
    ∃ n, (∀ j, j ≤ n → UpOk cx v v' i d (runN cx j (start .getDb d))) ∧
      (runN cx n (start .getDb d)).status = .ok ∧
      (runN cx n (start .getDb d)).dir = upFinal cx v v' i d := by
  have hlt : i < (cx.cfg.target : Int) := by omega
  have hb := backupPath_ne cx.dbfile i
  have hgd : ∀ c, (d.set (backupPath cx.dbfile i) c).get cx.dbfile = some (.db v) := by
    intro c; rw [Dir.get_set_ne _ _ hb, hd]
  let tl : List Step := [.commit, .pyCommit, .bump, .loopHead]
  let D := d.set (backupPath cx.dbfile i) (.db v)
  -- segment 1: open, read version, copy, BEGIN
  have e1 : runN cx 12 (start .getDb d) = mTx D cx.dbfile v (some (.int i)) up tl := by
    simp [runN_succ, start, Entry.steps, step1, exec, Dir.has, hd, openConn, getDbTail, copySteps,
      M.curDb, hfk, ht, hv, hlt, hu, hgd, upgradeTurn, mTx, tl, D, Content.halfOf]
  have p1 : ∀ j, j ≤ 12 → UpOk cx v v' i d (runN cx j (start .getDb d)) := by
    have a0 : ∀ m : M, m.dir = d → UpOk cx v v' i d m := fun m hm => upOk_old cx v v' i hd hm
    have a1 : ∀ (c : Content) (m : M), m.dir = d.set (backupPath cx.dbfile i) c →
        UpOk cx v v' i d m := fun c m hm => upOk_bk cx v v' i c hd hm
    simp only [forall_le_succ, Nat.le_zero, forall_eq, runN_succ, runN_zero]
    refine ⟨a0 _ rfl, a0 _ ?_, a0 _ ?_, a0 _ ?_, a0 _ ?_, a0 _ ?_, a0 _ ?_,
      a1 (.junk []) _ ?_, a1 (.trunc v) _ ?_, a1 (.db v) _ ?_, a1 (.db v) _ ?_, a1 (.db v) _ ?_,
      a1 (.db v) _ ?_⟩ <;>
    simp [start, Entry.steps, step1, exec, Dir.has, hd, openConn, getDbTail, copySteps,
      M.curDb, hfk, ht, hv, hlt, hu, hgd, upgradeTurn, Content.halfOf]
  -- segment 2: the upgrade statements inside the transaction
  have p2 : ∀ j, j ≤ up.length →
      UpOk cx v v' i d (runN cx j (mTx D cx.dbfile v (some (.int i)) up tl)) := by
    intro j hj
    obtain ⟨vj, _, h3⟩ := loop_tx cx D cx.dbfile (some (.int i)) tl up v v' hs j hj
    rw [h3]; exact upOk_bk cx v v' i (.db v) hd rfl
  obtain ⟨v2, hv2, e2⟩ := loop_tx cx D cx.dbfile (some (.int i)) tl up v v' hs up.length
    (Nat.le_refl _)
  rw [List.take_length, hs] at hv2
  cases hv2
  rw [List.drop_length] at e2
  -- segment 3: COMMIT, db.commit(), version+1, loop test, final test
  have e3 : (runN cx 5 (mTx D cx.dbfile v' (some (.int i)) [] tl)).status = .ok ∧
      (runN cx 5 (mTx D cx.dbfile v' (some (.int i)) [] tl)).dir = upFinal cx v v' i d := by
    simp [runN_succ, step1, exec, mTx, tl, D, M.doCommit, hi, upFinal]
  have p3 : ∀ j, j ≤ 5 →
      UpOk cx v v' i d (runN cx j (mTx D cx.dbfile v' (some (.int i)) [] tl)) := by
    have a1 : ∀ m : M, m.dir = D → UpOk cx v v' i d m :=
      fun m hm => upOk_bk cx v v' i (.db v) hd hm
    have a2 : ∀ m : M, m.dir = upFinal cx v v' i d → UpOk cx v v' i d m :=
      fun m hm => upOk_final cx v v' i hm
    simp only [forall_le_succ, Nat.le_zero, forall_eq, runN_succ, runN_zero]
    refine ⟨a1 _ rfl, a2 _ ?_, a2 _ ?_, a2 _ ?_, a2 _ ?_, a2 _ ?_⟩ <;>
    simp [step1, exec, mTx, tl, D, M.doCommit, hi, upFinal]
  refine ⟨12 + up.length + 5, seg_trans (seg_trans p1 e1 p2) ?_ p3, ?_, ?_⟩
  · rw [runN_add, e1, e2]
  · rw [runN_add, runN_add, e1, e2]; exact e3.1
  · rw [runN_add, runN_add, e1, e2]; exact e3.2

/-- **retry, generic.**  For every crash point `k` of the upgrade, the directory left behind
    satisfies `UpOk`, and a later normal start succeeds with the upgraded database at `dbfile`,
    the old database in the backup file and every other file as it was. -/
theorem upgrade_retry_generic (d : Dir) (rest rest' : List VerVal)
    (hd : d.get cx.dbfile = some (.db v)) (ht : hasTable v "version" = true)
    (hv : v.version = .int i :: rest) (hfk : v.fkBad = false)
    (hi : i + 1 = (cx.cfg.target : Int)) (hu : cx.cfg.upgrader (i + 1) = some up)
    (hs : runScript up v = .ok v')
    (ht' : hasTable v' "version" = true) (hv' : v'.version = .int cx.cfg.target :: rest')
    (hfk' : v'.fkBad = false) (k : Nat) :
    let dk := (runN cx k (start .getDb d)).dir
    UpOk cx v v' i d (runN cx k (start .getDb d)) ∧
    ∀ tmp2, ∃ dfin, HaltsWith { cx with tmp := tmp2 } (start .getDb dk) .ok dfin ∧
      dfin.get cx.dbfile = some (.db v') ∧
      dfin.get (backupPath cx.dbfile i) = some (.db v) ∧
      ∀ p, ¬ p = cx.dbfile → ¬ p = backupPath cx.dbfile i → dfin.get p = d.get p := by
  intro dk
  obtain ⟨n, hseg, hst, _⟩ := upgrade_run cx v v' i up d rest hd ht hv hfk hi hu hs
  have hk : UpOk cx v v' i d (runN cx k (start .getDb d)) :=
    all_prefixes (P := UpOk cx v v' i d) n hseg (by rw [hst]; simp) k
  refine ⟨hk, fun tmp2 => ?_⟩
  rcases hk.1 with hold | ⟨hnew, hbk⟩
  · -- still the old database: the restart runs the whole upgrade again (new backup included)
    obtain ⟨n', _, hst', hdir'⟩ := upgrade_run { cx with tmp := tmp2 } v v' i up dk rest hold ht hv
      hfk hi hu hs
    refine ⟨_, haltsWith_of n' hst' (by simp) hdir', ?_, ?_, fun p h1 h2 => ?_⟩
    · simp [upFinal]
    · simp only [upFinal]
      rw [Dir.get_set_ne _ _ (fun h => backupPath_ne _ _ h.symm), Dir.get_set_self]
    · simp only [upFinal]
      rw [Dir.get_set_ne _ _ (fun h => h1 h.symm), Dir.get_set_ne _ _ (fun h => h2 h.symm)]
      exact hk.2 p h1 h2
  · -- already committed: the restart opens the new database and writes nothing
    obtain ⟨_, hh⟩ := keep_getDb { cx with tmp := tmp2 } dk v' rest' hnew ht' hv' hfk'
    exact ⟨dk, hh, hnew, hbk, hk.2⟩

end upgrade

/-! ## C20 for the usage database -/

theorem usageV1_table (pay : List (String × List Row)) :
    hasTable (usageV1 pay) "version" = true := by
  have : hasTable (usageV1 []) "version" = true := by decide +kernel
  exact this

theorem usageUpgraded_table (pay : List (String × List Row)) :
    hasTable (usageUpgraded pay) "version" = true := by
  have : hasTable (usageUpgraded []) "version" = true := by decide +kernel
  exact this

/-- **C20_backup.**  `create_or_upgrade_usage_db` on a version-1 usage database with ANY
    records, in any directory (an older backup file of any content may already be there):
    the run succeeds, and afterwards `<dbfile>-backup-v1` holds exactly the content `dbfile`
    had before, `dbfile` holds the upgraded database with the same records, and no other file
    has changed. -/
theorem C20_backup (cx : Ctx) (hcfg : cx.cfg = usageCfg) (pay : List (String × List Row))
    (d : Dir) (hd : d.get cx.dbfile = some (.db (usageV1 pay))) :
    ∃ dfin, HaltsWith cx (start .getDb d) .ok dfin ∧
      dfin.get (backupPath cx.dbfile 1) = d.get cx.dbfile ∧
      dfin.get cx.dbfile = some (.db (usageUpgraded pay)) ∧
      (usageUpgraded pay).payload = (usageV1 pay).payload ∧
      ∀ p, ¬ p = cx.dbfile → ¬ p = backupPath cx.dbfile 1 → dfin.get p = d.get p := by
  obtain ⟨hu, hi, _, _⟩ := usageCfg_facts
  obtain ⟨n, _, hst, hdir⟩ := upgrade_run cx (usageV1 pay) (usageUpgraded pay) 1
    Generated.sql_upgrade_usage_to_v2 d [] hd (usageV1_table pay) rfl rfl
    (by rw [hcfg]; exact hi) (by rw [hcfg]; exact hu) (upgrade_run_script pay)
  refine ⟨_, haltsWith_of n hst (by simp) hdir, ?_, ?_, rfl, fun p h1 h2 => ?_⟩
  · simp only [upFinal]
    rw [Dir.get_set_ne _ _ (fun h => backupPath_ne _ _ h.symm), Dir.get_set_self, hd]
  · simp [upFinal]
  · simp only [upFinal]
    rw [Dir.get_set_ne _ _ (fun h => h1 h.symm), Dir.get_set_ne _ _ (fun h => h2 h.symm)]

/-- **C20_retry.**  For EVERY crash point `k` of the upgrade of a version-1 usage database
    with ANY records (from opening the old file through the copy in three stages, BEGIN, each
    upgrade statement, COMMIT, to the return):
    * the directory the crash leaves has either the old database at `dbfile`, byte for byte
      (an uncommitted transaction leaves no trace), or the upgraded one together with the
      complete backup; no record is lost in either;
    * a later normal start succeeds and leaves the upgraded database — objects = those of a
      fresh `usage-v2` database, `version` = [2], payload identical to the original — at
      `dbfile`, the original database in `<dbfile>-backup-v1`, and all other files unchanged.
    (This is where the BEGIN/COMMIT wrapping is used: `loop_tx` keeps the directory constant
    while the statements run.) -/
theorem C20_retry (cx : Ctx) (hcfg : cx.cfg = usageCfg) (pay : List (String × List Row))
    (d : Dir) (hd : d.get cx.dbfile = some (.db (usageV1 pay))) (k : Nat) :
    let dk := (runN cx k (start .getDb d)).dir
    (dk.get cx.dbfile = some (.db (usageV1 pay)) ∨
      (dk.get cx.dbfile = some (.db (usageUpgraded pay)) ∧
        dk.get (backupPath cx.dbfile 1) = some (.db (usageV1 pay)))) ∧
    ∀ tmp2, ∃ dfin, HaltsWith { cx with tmp := tmp2 } (start .getDb dk) .ok dfin ∧
      dfin.get cx.dbfile = some (.db (usageUpgraded pay)) ∧
      (usageUpgraded pay).payload = pay ∧
      (∀ o, o ∈ (usageUpgraded pay).objects ↔ o ∈ Generated.sql_usage_v2) ∧
      (usageUpgraded pay).version = [.int 2] ∧
      dfin.get (backupPath cx.dbfile 1) = some (.db (usageV1 pay)) ∧
      ∀ p, ¬ p = cx.dbfile → ¬ p = backupPath cx.dbfile 1 → dfin.get p = d.get p := by
  intro dk
  obtain ⟨hu, hi, _, h2⟩ := usageCfg_facts
  have hv' : (usageUpgraded pay).version = .int cx.cfg.target :: [] := by rw [hcfg]; rfl
  obtain ⟨hk, hre⟩ := upgrade_retry_generic cx (usageV1 pay) (usageUpgraded pay) 1
    Generated.sql_upgrade_usage_to_v2 d [] [] hd (usageV1_table pay) rfl rfl
    (by rw [hcfg]; exact hi) (by rw [hcfg]; exact hu) (upgrade_run_script pay)
    (usageUpgraded_table pay) hv' rfl k
  refine ⟨hk.1, fun tmp2 => ?_⟩
  obtain ⟨dfin, hh, hdb, hbk, hoth⟩ := hre tmp2
  refine ⟨dfin, hh, hdb, rfl, sameObjs_iff upgrade_objs, ?_, hbk, hoth⟩
  simp [usageUpgraded, h2]

/-! ## Non-vacuity -/

def exUsageRows : List (String × List Row) :=
  [("nameplates", ["n1", "n2", "n3"]), ("mailboxes", ["m1"]), ("current", ["c1", "c2"])]

def exUCx : Ctx := { cfg := usageCfg, dbfile := "usage.sqlite", tmp := "usage.sqlite.q0q0q0q0" }
def exUDir : Dir :=
  ⟨[("usage.sqlite", .db (usageV1 exUsageRows)), ("usage.sqlite-backup-v1", .junk [9, 9])]⟩

/-- the hypotheses of `C20_backup` / `C20_retry` hold for a concrete directory (with a stale
    backup file already present) -/
example : exUCx.cfg = usageCfg ∧ exUDir.get exUCx.dbfile = some (.db (usageV1 exUsageRows)) := by
  refine ⟨rfl, ?_⟩; decide +kernel

/-- a crash inside the transaction (after 15 steps: three upgrade statements executed) leaves
    the old database and a complete backup; the run is still going on at that point; a
    restart from that directory ends with the upgraded database and the same records -/
example :
    (runN exUCx 15 (start .getDb exUDir)).status = .running ∧
    (runN exUCx 15 (start .getDb exUDir)).dir.get "usage.sqlite" =
      some (.db (usageV1 exUsageRows)) ∧
    (runN exUCx 15 (start .getDb exUDir)).dir.get "usage.sqlite-backup-v1" =
      some (.db (usageV1 exUsageRows)) ∧
    (runN exUCx 8 (start .getDb exUDir)).dir.get "usage.sqlite-backup-v1" =
      some (.trunc (usageV1 exUsageRows)) ∧
    (runN exUCx 100 (start .getDb (runN exUCx 15 (start .getDb exUDir)).dir)).status = .ok ∧
    (runN exUCx 100 (start .getDb (runN exUCx 15 (start .getDb exUDir)).dir)).dir.get
      "usage.sqlite" = some (.db (usageUpgraded exUsageRows)) := by
  decide +kernel

end Wormhole.DbFile

#print axioms Wormhole.DbFile.C20_schema_equal
#print axioms Wormhole.DbFile.C20_rows_kept
#print axioms Wormhole.DbFile.C20_backup
#print axioms Wormhole.DbFile.C20_retry
