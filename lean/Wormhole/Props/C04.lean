/-
  C04 — `findAvailable claimed pick draws` (model of `_find_available_nameplate_id`), pure part.
  For EVERY `claimed : List String` (numeric or not, with duplicates, in any order), every `pick`
  (the outcome of `random.choice`) and every `draws` (the outcomes of `random.randrange`).

  Main theorems
  * `C04_findAvailable_some` : if the result is `some n` then `n = toString k`, `n ∉ claimed`,
      `n` is the canonical decimal rendering of `k`, and `k` lies in the first of
      1..9 / 10..99 / 100..999 that has a free value; only if none has, `k` is the first free one
      of the `allocTries` padded draws.
  * `C04_findAvailable_valid` : the same with the hypothesis that the draws are in
      `[allocLo, allocHi)` (what `randrange` guarantees): then `k ≥ 1`, no leading zero, and the
      length is 1, 2, 3 or 4..6.
  * `C04_exhausted` : `none` iff every k in 1..999 is taken and every padded draw is taken.
  * `C04_congr` (+ `_perm`, `_eraseDups`) : the result depends on `claimed` only through membership.
  * converses (`findAvailable_of_short_full`, `C04_every_choice_reachable`) : the first free
      draw IS returned; every free value of the shortest free length is returned for some `pick`.

  NOTE on `k ≥ 1`: for arbitrary `draws` this is false in the random-tries branch — if all of
  1..999 are taken and the first free draw is `0`, the model returns "0" (see the `example` at the end).
  `randrange(allocLo, allocHi)` never returns 0, so `k ≥ 1` is stated under the hypothesis
  that the draws are in range (`C04_findAvailable_valid`), or whenever a short value is free.

  Side conditions on the generated constants (all checked by `decide` on the NAMES, so they are
  re-checked when harness/translate.py regenerates Generated.lean):
    `sizes_eq`     : List.range' allocSizeLo (allocSizeHi - allocSizeLo) = [1, 2, 3]
                     (i.e. allocSizeLo = 1, allocSizeHi = 4)
    `allocLo_eq`   : allocLo = 10 ^ 3       `allocHi_eq` : allocHi = 10 ^ 6
    `pad_in_range` : allocLo + allocTries ≤ allocHi  (the padding of `drawAt` stays in range)
-/
import Wormhole.Core
import Std.Data.String.ToNat

namespace Wormhole
namespace C04
open Generated Sys

/-! ### 0. Constants -/

theorem sizes_eq : List.range' allocSizeLo (allocSizeHi - allocSizeLo) = [1, 2, 3] := by decide
theorem allocLo_eq : allocLo = 10 ^ 3 := by decide
theorem allocHi_eq : allocHi = 10 ^ 6 := by decide
theorem pad_in_range : allocLo + allocTries ≤ allocHi := by decide

/-! ### 1. Decimal rendering (`toString : Nat → String`, Python's `"%d" % k`) -/

theorem toString_inj {a b : Nat} : toString a = toString b ↔ a = b := by
  simp only [Nat.toString_eq_repr, Nat.repr_inj]

/-- the leading digit of a positive number is not '0' -/
theorem head_toDigits_ne_zero : ∀ (k : Nat), 1 ≤ k → (Nat.toDigits 10 k).head? ≠ some '0' := by
  intro k
  induction k using Nat.strongRecOn with
  | ind k ih =>
    intro hk
    rw [Nat.toDigits_eq_if (by decide)]
    split
    · simp only [List.head?_cons, ne_eq, Option.some.injEq, Nat.digitChar_eq_zero]
      omega
    · have h1 : 1 ≤ k / 10 := by omega
      have := ih (k / 10) (by omega) h1
      rw [List.head?_append]
      cases h : (Nat.toDigits 10 (k / 10)).head? with
      | none => simp [List.head?_eq_none_iff] at h
      | some c => rw [h] at this; simpa using this

/-- number of decimal digits -/
theorem length_toString {k d : Nat} (hd : 0 < d) (hlo : 10 ^ (d - 1) ≤ k) (hhi : k < 10 ^ d) :
    (toString k).length = d := by
  rw [Nat.toString_eq_repr]
  have h1 : k.repr.length ≤ d := (Nat.length_repr_le_iff hd).2 hhi
  have h2 : ¬ k.repr.length ≤ d - 1 := by
    by_cases hd1 : d - 1 = 0
    · have := @Nat.length_repr_pos k; omega
    · rw [Nat.length_repr_le_iff (by omega)]; omega
  omega

/-- `s` is the canonical decimal rendering of `k`: only digits, reads back as `k`, and no leading
    zero unless `k = 0` (whose rendering is "0"). -/
structure Canonical (s : String) (k : Nat) : Prop where
  eq : s = toString k
  digits : ∀ c ∈ s.toList, c.isDigit = true
  readback : s.toNat? = some k
  nonempty : s ≠ ""
  noLeadingZero : 1 ≤ k → s.toList.head? ≠ some '0'
  /-- no other number is rendered as `s` -/
  unique : ∀ m : Nat, toString m = s → m = k

theorem canonical_toString (k : Nat) : Canonical (toString k) k where
  eq := rfl
  digits := by
    intro c hc
    rw [Nat.toString_eq_repr, Nat.toList_repr] at hc
    exact Nat.isDigit_of_mem_toDigits (by decide) (by decide) hc
  readback := by rw [Nat.toString_eq_repr]; exact Nat.toNat?_repr k
  nonempty := by rw [Nat.toString_eq_repr]; exact Nat.repr_ne_empty
  noLeadingZero := by
    intro hk
    rw [Nat.toString_eq_repr, Nat.toList_repr]
    exact head_toDigits_ne_zero k hk
  unique := fun m h => toString_inj.1 h

example : Canonical "907" 907 := canonical_toString 907
example : ("007".toList.head? = some '0') := by decide

/-! ### 2. `availableOfSize`, `findShort` -/

/-- some value with exactly `d` digits is not in `claimed` -/
def Free (claimed : List String) (d : Nat) : Prop :=
  ∃ k, 10 ^ (d - 1) ≤ k ∧ k < 10 ^ d ∧ toString k ∉ claimed

theorem mem_availableOfSize {claimed : List String} {size k : Nat} :
    k ∈ availableOfSize claimed size ↔ 10 ^ (size - 1) ≤ k ∧ k < 10 ^ size ∧ toString k ∉ claimed := by
  unfold availableOfSize
  have hle : 10 ^ (size - 1) ≤ 10 ^ size := Nat.pow_le_pow_right (by decide) (by omega)
  simp only [List.mem_filter, List.mem_range'_1, decide_eq_true_eq]
  constructor
  · rintro ⟨⟨h1, h2⟩, h3⟩; exact ⟨h1, by omega, h3⟩
  · rintro ⟨h1, h2, h3⟩; exact ⟨⟨h1, by omega⟩, h3⟩

theorem availableOfSize_eq_nil_iff {claimed : List String} {size : Nat} :
    availableOfSize claimed size = [] ↔ ¬ Free claimed size := by
  rw [List.eq_nil_iff_forall_not_mem]
  unfold Free
  simp only [mem_availableOfSize, not_exists]

/-- `random.choice` on a list, resolved by `pick`: fails exactly on the empty list -/
theorem pick_eq_none_iff {α} (av : List α) (pick : Nat) : av[pick % av.length]? = none ↔ av = [] := by
  constructor
  · intro h
    rw [List.getElem?_eq_none_iff] at h
    cases av with
    | nil => rfl
    | cons a t =>
      have : pick % (a :: t).length < (a :: t).length := Nat.mod_lt _ (by simp)
      omega
  · intro h; subst h; rfl

theorem findShort_eq_none_iff {claimed : List String} {pick : Nat} {sizes : List Nat} :
    findShort claimed pick sizes = none ↔ ∀ d ∈ sizes, ¬ Free claimed d := by
  induction sizes with
  | nil => simp [findShort]
  | cons d rest ih =>
    unfold findShort
    simp only
    cases h : (availableOfSize claimed d)[pick % (availableOfSize claimed d).length]? with
    | some k =>
      have hne : ¬ availableOfSize claimed d = [] := fun e => by
        rw [(pick_eq_none_iff _ pick).2 e] at h; cases h
      rw [availableOfSize_eq_nil_iff] at hne
      simp only [List.mem_cons, forall_eq_or_imp, false_iff, reduceCtorEq]
      exact fun hh => hne hh.1
    | none =>
      have he := (pick_eq_none_iff _ pick).1 h
      rw [availableOfSize_eq_nil_iff] at he
      simp only [ih, List.mem_cons, forall_eq_or_imp, he, not_false_eq_true, true_and]

/-- the value found by the scan has `d` digits for the FIRST `d` in `sizes` with a free value,
    and it is the element of index `pick % length` of the increasing list of free values -/
theorem findShort_eq_some {claimed : List String} {pick : Nat} {sizes : List Nat} {k : Nat}
    (h : findShort claimed pick sizes = some k) :
    ∃ pre d post, sizes = pre ++ d :: post ∧ (∀ e ∈ pre, ¬ Free claimed e) ∧ Free claimed d ∧
      (availableOfSize claimed d)[pick % (availableOfSize claimed d).length]? = some k ∧
      10 ^ (d - 1) ≤ k ∧ k < 10 ^ d ∧ toString k ∉ claimed := by
  induction sizes with
  | nil => simp [findShort] at h
  | cons d rest ih =>
    unfold findShort at h
    simp only at h
    cases hp : (availableOfSize claimed d)[pick % (availableOfSize claimed d).length]? with
    | some k' =>
      rw [hp] at h
      simp only [Option.some.injEq] at h
      subst h
      have hmem : k' ∈ availableOfSize claimed d := List.mem_of_getElem? hp
      have hm := mem_availableOfSize.1 hmem
      exact ⟨[], d, rest, rfl, by simp, ⟨k', hm⟩, hp, hm⟩
    | none =>
      rw [hp] at h
      simp only at h
      obtain ⟨pre, d', post, e, hpre, hrest⟩ := ih h
      have he := (pick_eq_none_iff _ pick).1 hp
      rw [availableOfSize_eq_nil_iff] at he
      refine ⟨d :: pre, d', post, by rw [e]; rfl, ?_, hrest⟩
      intro x hx
      rcases List.mem_cons.1 hx with rfl | hx
      · exact he
      · exact hpre x hx

/-- converse: with `d` the first size with a free value, the scan returns the picked element -/
theorem findShort_of_first_free {claimed : List String} {pick : Nat} {pre post : List Nat} {d : Nat}
    (hpre : ∀ e ∈ pre, ¬ Free claimed e) (hd : Free claimed d) :
    ∃ k, (availableOfSize claimed d)[pick % (availableOfSize claimed d).length]? = some k ∧
      findShort claimed pick (pre ++ d :: post) = some k := by
  induction pre with
  | nil =>
    have hne : ¬ availableOfSize claimed d = [] := by rw [availableOfSize_eq_nil_iff]; exact fun h => h hd
    cases hp : (availableOfSize claimed d)[pick % (availableOfSize claimed d).length]? with
    | none => exact absurd ((pick_eq_none_iff _ pick).1 hp) hne
    | some k =>
      refine ⟨k, rfl, ?_⟩
      simp only [List.nil_append, findShort, hp]
  | cons e pre ih =>
    obtain ⟨k, hk, hf⟩ := ih (fun x hx => hpre x (List.mem_cons_of_mem _ hx))
    refine ⟨k, hk, ?_⟩
    have he : availableOfSize claimed e = [] :=
      availableOfSize_eq_nil_iff.2 (hpre e (List.mem_cons_self))
    simp only [List.cons_append, findShort, he, List.length_nil, Nat.mod_zero,
      List.getElem?_nil]
    exact hf

/-! ### 3. The random tries -/

theorem drawAt_of_lt {draws : List Nat} {i : Nat} (h : i < draws.length) : drawAt draws i = draws[i] := by
  unfold drawAt; simp [List.getD_eq_getElem?_getD, h]

theorem drawAt_of_ge {draws : List Nat} {i : Nat} (h : draws.length ≤ i) : drawAt draws i = allocLo + i := by
  unfold drawAt; simp [List.getD_eq_getElem?_getD, h]

/-- what `randrange(allocLo, allocHi)` guarantees: every padded draw that is looked at is in range -/
def DrawsInRange (draws : List Nat) : Prop :=
  ∀ i, i < allocTries → allocLo ≤ drawAt draws i ∧ drawAt draws i < allocHi

/-- if the supplied draws are in range so are the padded ones -/
theorem drawsInRange_of_forall {draws : List Nat} (h : ∀ x ∈ draws, allocLo ≤ x ∧ x < allocHi) :
    DrawsInRange draws := by
  intro i hi
  by_cases hl : i < draws.length
  · rw [drawAt_of_lt hl]; exact h _ (List.getElem_mem hl)
  · rw [drawAt_of_ge (by omega)]
    have := pad_in_range
    omega

/-- the `find?` over the tries: first index whose draw is free -/
theorem tries_eq_some_iff {claimed : List String} {draws : List Nat} {k : Nat} :
    ((List.range allocTries).map (drawAt draws)).find? (fun k => ¬ toString k ∈ claimed) = some k ↔
      toString k ∉ claimed ∧ ∃ i, i < allocTries ∧ drawAt draws i = k ∧
        ∀ j, j < i → toString (drawAt draws j) ∈ claimed := by
  rw [List.find?_eq_some_iff_getElem]
  simp only [decide_eq_true_eq, List.length_map, List.length_range, List.getElem_map,
    List.getElem_range, Bool.not_eq_true', decide_eq_false_iff_not, Decidable.not_not]
  constructor
  · rintro ⟨h1, i, hi, rfl, hj⟩
    exact ⟨h1, i, hi, rfl, fun j hji => hj j hji⟩
  · rintro ⟨h1, i, hi, rfl, hj⟩
    exact ⟨h1, i, hi, rfl, fun j hji => hj j hji⟩

theorem tries_eq_none_iff {claimed : List String} {draws : List Nat} :
    ((List.range allocTries).map (drawAt draws)).find? (fun k => ¬ toString k ∈ claimed) = none ↔
      ∀ i, i < allocTries → toString (drawAt draws i) ∈ claimed := by
  simp only [List.find?_eq_none, List.mem_map, List.mem_range, decide_eq_true_eq, Decidable.not_not,
    forall_exists_index, and_imp]
  constructor
  · intro h i hi; exact h _ i hi rfl
  · rintro h _ i hi rfl; exact h i hi

/-! ### 4. `findAvailable` -/

/-- `k` is the value returned by the random tries: the first free padded draw -/
def FirstFreeDraw (claimed : List String) (draws : List Nat) (k : Nat) : Prop :=
  ∃ i, i < allocTries ∧ k = drawAt draws i ∧ ∀ j, j < i → toString (drawAt draws j) ∈ claimed

theorem short_free_iff {claimed : List String} :
    (∀ d ∈ List.range' allocSizeLo (allocSizeHi - allocSizeLo), ¬ Free claimed d) ↔
      ¬ Free claimed 1 ∧ ¬ Free claimed 2 ∧ ¬ Free claimed 3 := by
  rw [sizes_eq]; simp

/-- all of 1..999 are taken ⇔ no length 1, 2, 3 has a free value -/
theorem short_full_iff {claimed : List String} :
    (¬ Free claimed 1 ∧ ¬ Free claimed 2 ∧ ¬ Free claimed 3) ↔
      ∀ k, 1 ≤ k → k ≤ 999 → toString k ∈ claimed := by
  unfold Free
  constructor
  · rintro ⟨h1, h2, h3⟩ k hk1 hk2
    apply Decidable.byContradiction
    intro hn
    by_cases a : k < 10
    · exact h1 ⟨k, by simpa using hk1, by simpa using a, hn⟩
    · by_cases b : k < 100
      · exact h2 ⟨k, by simp; omega, by simpa using b, hn⟩
      · exact h3 ⟨k, by simp; omega, by simp; omega, hn⟩
  · intro h
    refine ⟨?_, ?_, ?_⟩ <;> rintro ⟨k, hlo, hhi, hn⟩ <;> simp at hlo hhi <;> exact hn (h k (by omega) (by omega))

/-- **C04, main statement.**  For every `claimed`, `pick`, `draws`: an answer `n` is the decimal
    rendering of some `k`, is not in `claimed`, and `k` has the smallest number of digits among
    1, 2, 3 for which a free value exists; only when all of 1..999 are taken is it a draw, namely
    the first free one of the `allocTries` padded draws (and then in `[allocLo, allocHi)` if the
    draws are). -/
theorem C04_findAvailable_some {claimed : List String} {pick : Nat} {draws : List Nat} {n : String}
    (h : findAvailable claimed pick draws = some n) :
    ∃ k : Nat, n = toString k ∧ n ∉ claimed ∧ Canonical n k ∧
      (Free claimed 1 → 1 ≤ k ∧ k ≤ 9) ∧
      (¬ Free claimed 1 → Free claimed 2 → 10 ≤ k ∧ k ≤ 99) ∧
      (¬ Free claimed 1 → ¬ Free claimed 2 → Free claimed 3 → 100 ≤ k ∧ k ≤ 999) ∧
      (¬ Free claimed 1 → ¬ Free claimed 2 → ¬ Free claimed 3 →
          FirstFreeDraw claimed draws k ∧ (DrawsInRange draws → allocLo ≤ k ∧ k < allocHi)) ∧
      ((Free claimed 1 ∨ Free claimed 2 ∨ Free claimed 3 ∨ DrawsInRange draws) → 1 ≤ k) := by
  unfold findAvailable at h
  cases hs : findShort claimed pick (List.range' allocSizeLo (allocSizeHi - allocSizeLo)) with
  | some k =>
    rw [hs] at h
    simp only [Option.some.injEq] at h
    subst h
    obtain ⟨pre, d, post, e, hpre, hd, _, hlo, hhi, hfree⟩ := findShort_eq_some hs
    rw [sizes_eq] at e
    refine ⟨k, rfl, hfree, canonical_toString k, ?_⟩
    -- the three possible positions of `d` in [1, 2, 3]
    have hcases : (pre = [] ∧ d = 1) ∨ (pre = [1] ∧ d = 2) ∨ (pre = [1, 2] ∧ d = 3) := by
      match pre, e with
      | [], e => simp at e; exact Or.inl ⟨rfl, e.1.symm⟩
      | [a], e => simp at e; exact Or.inr (Or.inl ⟨by rw [e.1], e.2.1.symm⟩)
      | [a, b], e => simp at e; exact Or.inr (Or.inr ⟨by rw [e.1, e.2.1], e.2.2.1.symm⟩)
      | a :: b :: c :: t, e => simp at e
    rcases hcases with ⟨rfl, rfl⟩ | ⟨rfl, rfl⟩ | ⟨rfl, rfl⟩
    · simp at hlo hhi
      exact ⟨fun _ => ⟨hlo, by omega⟩, fun h => absurd hd h, fun h => absurd hd h,
        fun h => absurd hd h, fun _ => hlo⟩
    · have h1 : ¬ Free claimed 1 := hpre 1 (by simp)
      simp at hlo hhi
      exact ⟨fun h => absurd h h1, fun _ _ => ⟨hlo, by omega⟩, fun _ h => absurd hd h,
        fun _ h => absurd hd h, fun _ => by omega⟩
    · have h1 : ¬ Free claimed 1 := hpre 1 (by simp)
      have h2 : ¬ Free claimed 2 := hpre 2 (by simp)
      simp at hlo hhi
      exact ⟨fun h => absurd h h1, fun _ h => absurd h h2, fun _ _ _ => ⟨hlo, by omega⟩,
        fun _ _ h => absurd hd h, fun _ => by omega⟩
  | none =>
    rw [hs] at h
    simp only at h
    obtain ⟨h1, h2, h3⟩ := short_free_iff.1 (findShort_eq_none_iff.1 hs)
    cases ht : ((List.range allocTries).map (drawAt draws)).find? (fun k => ¬ toString k ∈ claimed) with
    | none => rw [ht] at h; cases h
    | some k =>
      rw [ht] at h
      simp only [Option.some.injEq] at h
      subst h
      obtain ⟨hfree, i, hi, hki, hprev⟩ := tries_eq_some_iff.1 ht
      have hr : DrawsInRange draws → allocLo ≤ k ∧ k < allocHi := fun hd => hki ▸ hd i hi
      refine ⟨k, rfl, hfree, canonical_toString k, fun h => absurd h h1, fun _ h => absurd h h2,
        fun _ _ h => absurd h h3, fun _ _ _ => ⟨⟨i, hi, hki.symm, hprev⟩, hr⟩, ?_⟩
      rintro (h | h | h | h)
      · exact absurd h h1
      · exact absurd h h2
      · exact absurd h h3
      · have := (hr h).1
        rw [allocLo_eq] at this
        omega

/-- **C04 with in-range draws** (what the implementation's `randrange` guarantees): the answer is
    a positive decimal without leading zero, not in `claimed`, of the smallest length in 1, 2, 3
    that has a free value, and of length 4..6 only when all of 1..999 are taken. -/
theorem C04_findAvailable_valid {claimed : List String} {pick : Nat} {draws : List Nat} {n : String}
    (hdraws : DrawsInRange draws) (h : findAvailable claimed pick draws = some n) :
    ∃ k : Nat, n = toString k ∧ 1 ≤ k ∧ n ∉ claimed ∧ n.toNat? = some k ∧
      n.toList.head? ≠ some '0' ∧ (∀ c ∈ n.toList, c.isDigit = true) ∧
      (Free claimed 1 → 1 ≤ k ∧ k ≤ 9 ∧ n.length = 1) ∧
      (¬ Free claimed 1 → Free claimed 2 → 10 ≤ k ∧ k ≤ 99 ∧ n.length = 2) ∧
      (¬ Free claimed 1 → ¬ Free claimed 2 → Free claimed 3 → 100 ≤ k ∧ k ≤ 999 ∧ n.length = 3) ∧
      (¬ Free claimed 1 → ¬ Free claimed 2 → ¬ Free claimed 3 →
          FirstFreeDraw claimed draws k ∧ allocLo ≤ k ∧ k < allocHi ∧ 4 ≤ n.length ∧ n.length ≤ 6) := by
  obtain ⟨k, rfl, hfree, hcan, c1, c2, c3, c4, hpos⟩ := C04_findAvailable_some h
  have hk : 1 ≤ k := hpos (Or.inr (Or.inr (Or.inr hdraws)))
  refine ⟨k, rfl, hk, hfree, hcan.readback, hcan.noLeadingZero hk, hcan.digits, ?_, ?_, ?_, ?_⟩
  · intro f1
    have := c1 f1
    exact ⟨this.1, this.2, length_toString (d := 1) (by decide) (by simpa using this.1) (by simp; omega)⟩
  · intro f1 f2
    have := c2 f1 f2
    exact ⟨this.1, this.2, length_toString (d := 2) (by decide) (by simpa using this.1) (by simp; omega)⟩
  · intro f1 f2 f3
    have := c3 f1 f2 f3
    exact ⟨this.1, this.2, length_toString (d := 3) (by decide) (by simpa using this.1) (by simp; omega)⟩
  · intro f1 f2 f3
    obtain ⟨hd, hr⟩ := c4 f1 f2 f3
    obtain ⟨hlo, hhi⟩ := hr hdraws
    refine ⟨hd, hlo, hhi, ?_, ?_⟩
    · rw [allocLo_eq] at hlo
      have : ¬ (toString k).length ≤ 3 := by
        rw [Nat.toString_eq_repr, Nat.length_repr_le_iff (by decide)]; omega
      omega
    · rw [allocHi_eq] at hhi
      rw [Nat.toString_eq_repr]
      exact (Nat.length_repr_le_iff (by decide)).2 hhi

/-- **C04_exhausted.**  `none` (`ValueError`) exactly when every value 1..999 is taken and every
    one of the `allocTries` padded draws is taken. -/
theorem C04_exhausted (claimed : List String) (pick : Nat) (draws : List Nat) :
    findAvailable claimed pick draws = none ↔
      (∀ k, 1 ≤ k → k ≤ 999 → toString k ∈ claimed) ∧
      (∀ i, i < allocTries → toString (drawAt draws i) ∈ claimed) := by
  unfold findAvailable
  rw [← short_full_iff, ← short_free_iff, ← findShort_eq_none_iff (pick := pick), ← tries_eq_none_iff]
  cases findShort claimed pick (List.range' allocSizeLo (allocSizeHi - allocSizeLo)) with
  | some k => simp
  | none =>
    cases ((List.range allocTries).map (drawAt draws)).find? (fun k => ¬ toString k ∈ claimed) <;> simp

/-- converse of the last clause: with 1..999 taken, the FIRST free padded draw is the answer
    (whatever `pick`). -/
theorem findAvailable_of_short_full {claimed : List String} {pick : Nat} {draws : List Nat} {i : Nat}
    (hfull : ∀ k, 1 ≤ k → k ≤ 999 → toString k ∈ claimed) (hi : i < allocTries)
    (hfree : toString (drawAt draws i) ∉ claimed)
    (hprev : ∀ j, j < i → toString (drawAt draws j) ∈ claimed) :
    findAvailable claimed pick draws = some (toString (drawAt draws i)) := by
  unfold findAvailable
  have hs : findShort claimed pick (List.range' allocSizeLo (allocSizeHi - allocSizeLo)) = none :=
    findShort_eq_none_iff.2 (short_free_iff.2 (short_full_iff.2 hfull))
  rw [hs]
  have ht := (tries_eq_some_iff (claimed := claimed) (draws := draws) (k := drawAt draws i)).2
    ⟨hfree, i, hi, rfl, hprev⟩
  simp only [ht]

/-- every outcome of `random.choice`: each free value of the shortest free length is the answer
    for some `pick` (so the theorem above quantifies over all the choices the code can make). -/
theorem C04_every_choice_reachable {claimed : List String} {draws : List Nat} {d k : Nat}
    (hd : d = 1 ∨ d = 2 ∨ d = 3) (hshorter : ∀ e, 1 ≤ e → e < d → ¬ Free claimed e)
    (hlo : 10 ^ (d - 1) ≤ k) (hhi : k < 10 ^ d) (hfree : toString k ∉ claimed) :
    ∃ pick, findAvailable claimed pick draws = some (toString k) := by
  have hmem : k ∈ availableOfSize claimed d := mem_availableOfSize.2 ⟨hlo, hhi, hfree⟩
  obtain ⟨i, hi, hik⟩ := List.mem_iff_getElem.1 hmem
  have hF : Free claimed d := ⟨k, hlo, hhi, hfree⟩
  have key : ∀ pre post, [1, 2, 3] = pre ++ d :: post → (∀ e ∈ pre, 1 ≤ e ∧ e < d) →
      findAvailable claimed i draws = some (toString k) := by
    intro pre post e hpre
    obtain ⟨k', hk', hf⟩ := findShort_of_first_free (pick := i) (post := post)
      (fun e he => hshorter e (hpre e he).1 (hpre e he).2) hF
    rw [Nat.mod_eq_of_lt hi, List.getElem?_eq_getElem hi, hik] at hk'
    simp only [Option.some.injEq] at hk'
    subst hk'
    unfold findAvailable
    rw [sizes_eq, e, hf]
  refine ⟨i, ?_⟩
  rcases hd with rfl | rfl | rfl
  · exact key [] [2, 3] rfl (by simp)
  · exact key [1] [3] rfl (by simp)
  · exact key [1, 2] [] rfl (by simp)

/-! ### 5. Only membership in `claimed` matters -/

theorem availableOfSize_congr {c1 c2 : List String} (h : ∀ x, x ∈ c1 ↔ x ∈ c2) (size : Nat) :
    availableOfSize c1 size = availableOfSize c2 size := by
  unfold availableOfSize
  apply List.filter_congr
  intro k _
  simp only [h]

theorem findShort_congr {c1 c2 : List String} (h : ∀ x, x ∈ c1 ↔ x ∈ c2) (pick : Nat) (sizes : List Nat) :
    findShort c1 pick sizes = findShort c2 pick sizes := by
  induction sizes with
  | nil => rfl
  | cons d rest ih => simp only [findShort, availableOfSize_congr h, ih]

/-- **Order / duplicates do not matter**: two `claimed` lists with the same members give the same
    answer (for the same random outcomes). -/
theorem C04_congr {c1 c2 : List String} (h : ∀ x, x ∈ c1 ↔ x ∈ c2) (pick : Nat) (draws : List Nat) :
    findAvailable c1 pick draws = findAvailable c2 pick draws := by
  unfold findAvailable
  rw [findShort_congr h]
  have : (fun k : Nat => decide (¬ toString k ∈ c1)) = (fun k : Nat => decide (¬ toString k ∈ c2)) := by
    funext k; simp only [h]
  rw [this]

theorem C04_perm {c1 c2 : List String} (h : c1.Perm c2) (pick : Nat) (draws : List Nat) :
    findAvailable c1 pick draws = findAvailable c2 pick draws :=
  C04_congr (fun _ => h.mem_iff) pick draws

theorem C04_eraseDups (claimed : List String) (pick : Nat) (draws : List Nat) :
    findAvailable claimed.eraseDups pick draws = findAvailable claimed pick draws :=
  C04_congr (fun _ => List.mem_eraseDups) pick draws

theorem C04_append_self (claimed : List String) (pick : Nat) (draws : List Nat) :
    findAvailable (claimed ++ claimed.reverse) pick draws = findAvailable claimed pick draws :=
  C04_congr (fun x => by simp) pick draws

/-! ### 6. Non-vacuity -/

-- empty table, first choice
example : findAvailable [] 0 [] = some "1" := by decide
-- a hole is reused; non-numeric and non-canonical names ("03", "٣") do not block "3"
example : findAvailable ["1", "2", "03", "٣", "4", "abc"] 0 [] = some "3" := by decide
-- `pick` selects among the free one-digit values (free = 2,3,5,6,7,8,9; index 9 % 7 = 2)
example : findAvailable ["4", "1", "1"] 9 [] = some "5" := by decide
-- one-digit values exhausted: two digits
example : findAvailable ["1", "2", "3", "4", "5", "6", "7", "8", "9"] 3 [] = some "13" := by
  decide

/-- 1..999 all taken -/
private def full999 : List String := (List.range' 1 999).map toString

private theorem full999_full : ∀ k, 1 ≤ k → k ≤ 999 → toString k ∈ full999 := by
  intro k h1 h2
  exact List.mem_map_of_mem (List.mem_range'_1.2 ⟨h1, by omega⟩)

private theorem not_mem_full999 {k : Nat} (h : k = 0 ∨ 1000 ≤ k) : toString k ∉ full999 := by
  intro hm
  obtain ⟨j, hj, e⟩ := List.mem_map.1 hm
  have := toString_inj.1 e
  have := List.mem_range'_1.1 hj
  omega

-- the random-tries branch is reachable, and returns the first free draw (here the second one)
example : findAvailable ("4711" :: full999) 5 [4711, 123456] = some "123456" := by
  have h := findAvailable_of_short_full (claimed := "4711" :: full999) (pick := 5)
    (draws := [4711, 123456]) (i := 1)
    (fun k h1 h2 => List.mem_cons_of_mem _ (full999_full k h1 h2)) (by decide)
    (by
      show toString 123456 ∉ "4711" :: full999
      rw [List.mem_cons]
      rintro (h | h)
      · exact absurd h (by decide)
      · exact not_mem_full999 (k := 123456) (Or.inr (by decide)) h)
    (by
      intro j hj
      have : j = 0 := by omega
      subst this
      exact List.mem_cons_self)
  exact h

-- the caveat on `k ≥ 1`: an out-of-range draw `0` is returned as "0" when 1..999 are taken
example : findAvailable full999 0 [0] = some "0" :=
  findAvailable_of_short_full (claimed := full999) (pick := 0) (draws := [0]) (i := 0)
    full999_full (by decide) (not_mem_full999 (k := 0) (Or.inl rfl)) (by intro j hj; omega)

-- exhaustion is reachable: 1..1999 taken, padded draws are 1000..1999
example : findAvailable ((List.range' 1 1999).map toString) 0 [] = none := by
  rw [C04_exhausted]
  constructor
  · intro k h1 h2
    exact List.mem_map_of_mem (List.mem_range'_1.2 ⟨h1, by omega⟩)
  · intro i hi
    have hi' : i < 1000 := hi
    rw [drawAt_of_ge (by simp)]
    have : allocLo = 1000 := rfl
    exact List.mem_map_of_mem (List.mem_range'_1.2 ⟨by omega, by omega⟩)

-- `DrawsInRange` is satisfiable
example : DrawsInRange [4711, 123456] := drawsInRange_of_forall (by decide)
example : DrawsInRange [] := drawsInRange_of_forall (by simp)

#print axioms canonical_toString
#print axioms findShort_eq_some
#print axioms findShort_eq_none_iff
#print axioms C04_findAvailable_some
#print axioms C04_findAvailable_valid
#print axioms C04_exhausted
#print axioms findAvailable_of_short_full
#print axioms C04_every_choice_reachable
#print axioms C04_congr
#print axioms C04_perm
#print axioms C04_eraseDups

end C04
end Wormhole
