/-
  C16 (history half) — "Blurred usage timestamps never reveal exact client times".

  Props/C16.lean proves the arithmetic (`C16_blurTime`) and that each of the three writing primitives
  stores a blurred time (`C16_paths_blurred`).  This file proves the statements about HISTORIES:

  * `Sys.step_cfg` / `GSys.run_cfg` (Inv/UsageTrack.lean, restated here as `C16_cfg_constant`): the
    configuration -- in particular `--blur-usage` -- never changes along a history, crashes and
    restarts included;
  * `C16_all_rows_blurred`: INVARIANT of every state reachable by a well-formed history (crashes at
    every commit boundary included: usage commits are separate from channel commits, so every
    snapshot's usage database is covered): with `cfg.blur = some b`, `1 ≤ b`, `B = b · ticksPerSecond`,
    every row of usage `nameplates` / `mailboxes` has `B ∣ started` and every row of
    `client_versions` has `B ∣ connect_time` -- for the live usage database and for the committed one;
  * `C16_records_close_to_truth` (step level, with Props/C15b.lean): the record appended for a retired
    nameplate has `started ≤ (smallest added of its side rows) < started + B`; the same for a retired
    mailbox (smallest `added` of its side rows at deletion; the deletion time itself if it has no side
    row, which happens only after a crash); the `client_versions` row of an accepted `bind` has
    `time ≤ t < time + B` for the receive time `t` of the bind.
-/
import Wormhole.Props.C15b

namespace Wormhole
open Sys C16

/-- every stored client-activity time of the usage database is a multiple of `B` -/
structure Usage.AllBlurred (B : Int) (u : Usage) : Prop where
  nameplates : ∀ r ∈ u.nameplates, B ∣ r.started
  mailboxes : ∀ r ∈ u.mailboxes, B ∣ r.started
  clients : ∀ r ∈ u.clients, B ∣ r.time

theorem Usage.AllBlurred.empty (B : Int) : Usage.AllBlurred B {} :=
  ⟨by simp, by simp, by simp⟩

/-- the configuration never changes (crashes and restarts included) -/
theorem C16_cfg_constant (g : GSys) (ops : List Op) : (g.run ops).sys.cfg = g.sys.cfg := GSys.run_cfg g ops

/-- the tracked property: live, committed and every snapshot's usage database are blurred -/
def BlurT (c0 : Cfg) (B : Int) (s : Sys) : Prop :=
  s.cfg = c0 ∧ Usage.AllBlurred B s.udb ∧ Usage.AllBlurred B s.udisk ∧ ∀ p ∈ s.snaps, Usage.AllBlurred B p.2

theorem uclosed_blurred (c0 : Cfg) (b : Nat) (hb : c0.blur = some b) (hb1 : 1 ≤ b) :
    UClosed c0 (BlurT c0 ((b : Int) * (Generated.ticksPerSecond : Int))) where
  cfg := fun _ h => h.1
  emit := fun _ _ h => h
  commit := fun s h => by
    refine ⟨by rw [commit_cfg]; exact h.1, by rw [commit_udb]; exact h.2.1, by rw [commit_udisk]; exact h.2.2.1, ?_⟩
    unfold Sys.commit; split
    · exact h.2.2.2
    · intro p hp
      rcases List.mem_append.1 hp with hp | hp
      · exact h.2.2.2 p hp
      · simp only [List.mem_singleton] at hp; subst hp; exact h.2.2.1
  ucommit := fun s h => by
    refine ⟨by rw [ucommit_cfg]; exact h.1, by rw [Sys.ucommit_udb]; exact h.2.1, by rw [Sys.ucommit_udisk]; exact h.2.1, ?_⟩
    unfold Sys.ucommit; split
    · exact h.2.2.2
    · intro p hp
      rcases List.mem_append.1 hp with hp | hp
      · exact h.2.2.2 p hp
      · simp only [List.mem_singleton] at hp; subst hp; exact h.2.1
  modDb := fun _ _ h => h
  conns := fun _ _ h => h
  storeNp := fun _ s app sides t p h => by
    have hbs : s.cfg.blur = some b := by rw [h.1]; exact hb
    rcases C16_storeNameplateUsage s app sides t p with ⟨_, e⟩ | ⟨m, u, _, _, _, _, e⟩
    · rw [e]; exact h
    · rw [e]
      refine ⟨h.1, ⟨?_, h.2.1.mailboxes, h.2.1.clients⟩, h.2.2.1, h.2.2.2⟩
      intro r hr
      simp only [List.mem_append, List.mem_singleton] at hr
      rcases hr with hr | rfl
      · exact h.2.1.nameplates r hr
      · exact (C16_blurTime_cfg s b hbs hb1 m).2.1
  storeMb := fun _ s app f sides t p h => by
    have hbs : s.cfg.blur = some b := by rw [h.1]; exact hb
    rw [(C16_storeMailboxUsage s app f sides t p).2]
    refine ⟨h.1, ⟨h.2.1.nameplates, ?_, h.2.1.clients⟩, h.2.2.1, h.2.2.2⟩
    intro r hr
    simp only [List.mem_append, List.mem_singleton] at hr
    rcases hr with hr | rfl
    · exact h.2.1.mailboxes r hr
    · exact (C16_blurTime_cfg s b hbs hb1 _).2.1
  client := fun _ s a sd t i v h => by
    have hbs : s.cfg.blur = some b := by rw [h.1]; exact hb
    refine ⟨h.1, ⟨h.2.1.nameplates, h.2.1.mailboxes, ?_⟩, h.2.2.1, h.2.2.2⟩
    intro r hr
    simp only [modUdb_udb, List.mem_append, List.mem_singleton] at hr
    rcases hr with hr | rfl
    · exact h.2.1.clients r hr
    · exact (C16_blurTime_cfg s b hbs hb1 t).2.1
  current := fun _ s rows h =>
    ⟨h.1, ⟨h.2.1.nameplates, h.2.1.mailboxes, h.2.1.clients⟩, h.2.2.1, h.2.2.2⟩

/-- one step (crashes included) keeps the live and the committed usage database blurred -/
theorem blurred_step {s : Sys} {b : Nat} (hb : s.cfg.blur = some b) (hb1 : 1 ≤ b)
    (h1 : Usage.AllBlurred ((b : Int) * (Generated.ticksPerSecond : Int)) s.udb)
    (h2 : Usage.AllBlurred ((b : Int) * (Generated.ticksPerSecond : Int)) s.udisk) (op : Op) :
    Usage.AllBlurred ((b : Int) * (Generated.ticksPerSecond : Int)) (s.step op).udb ∧
    Usage.AllBlurred ((b : Int) * (Generated.ticksPerSecond : Int)) (s.step op).udisk := by
  have hT := uclosed_blurred s.cfg b hb hb1
  have h0 : BlurT s.cfg ((b : Int) * (Generated.ticksPerSecond : Int)) ({ s with out := [], snaps := [] } : Sys) :=
    ⟨rfl, h1, h2, by simp⟩
  have hplain : ∀ op', BlurT s.cfg ((b : Int) * (Generated.ticksPerSecond : Int))
      (({ s with out := [], snaps := [] } : Sys).stepPlain op') := fun op' =>
    hT.stepPlain (fun z t h => ⟨h.1, h.2.2.1, h.2.2.1, h.2.2.2⟩) h0 op'
  cases hc : op.isCrash with
  | false =>
    rw [Sys.step_eq_of_not_crash s hc]
    exact ⟨(hplain op).2.1, (hplain op).2.2.1⟩
  | true =>
    cases op with
    | crashIn k op' =>
      obtain ⟨p, hp, _, _, e3, e4, _⟩ := GSys.step_crash_spec s k op'
      have : Usage.AllBlurred ((b : Int) * (Generated.ticksPerSecond : Int)) p.2 := by
        rcases hp with hp | rfl | rfl
        · exact (hplain op').2.2.2 p hp
        · exact (hplain op').2.2.1
        · exact h2
      rw [e3, e4]; exact ⟨this, this⟩
    | _ => simp [Op.isCrash] at hc

/-- **C16_all_rows_blurred**: in every state reachable by a well-formed history (crashes included)
    every stored client-activity time is a multiple of the blur interval, in the live usage database
    and in the committed one -/
theorem C16_all_rows_blurred {g : GSys} (hg : g.Reach) {b : Nat} (hb : g.sys.cfg.blur = some b) (hb1 : 1 ≤ b) :
    Usage.AllBlurred ((b : Int) * (Generated.ticksPerSecond : Int)) g.sys.udb ∧
    Usage.AllBlurred ((b : Int) * (Generated.ticksPerSecond : Int)) g.sys.udisk := by
  induction hg with
  | init cfg rb => exact ⟨Usage.AllBlurred.empty _, Usage.AllBlurred.empty _⟩
  | @step g0 op _ _ ih =>
    have hb0 : g0.sys.cfg.blur = some b := by
      have : (g0.step op).sys.cfg = g0.sys.cfg := step_cfg g0.sys op
      rw [← this]; exact hb
    obtain ⟨i1, i2⟩ := ih hb0
    exact blurred_step hb0 hb1 i1 i2 op

/-- the same from any state (not necessarily reachable) whose usage databases are blurred, along any
    history at all -/
theorem C16_all_rows_blurred_run {s : Sys} {b : Nat} (hb : s.cfg.blur = some b) (hb1 : 1 ≤ b)
    (h1 : Usage.AllBlurred ((b : Int) * (Generated.ticksPerSecond : Int)) s.udb)
    (h2 : Usage.AllBlurred ((b : Int) * (Generated.ticksPerSecond : Int)) s.udisk) (ops : List Op) :
    Usage.AllBlurred ((b : Int) * (Generated.ticksPerSecond : Int)) (s.run ops).1.udb := by
  induction ops generalizing s with
  | nil => exact h1
  | cons op rest ih =>
    obtain ⟨j1, j2⟩ := blurred_step hb hb1 h1 h2 op
    simp only [Sys.run]
    exact ih (by rw [step_cfg]; exact hb) j1 j2

/-! ### the step-level statement -/

theorem nameplateSpec_started {blur : Time → Time} {added : List Time} (t : Time) (pruned : Bool)
    (h : added ≠ []) : ∃ m, IsMin added m ∧ (C15.nameplateSpec blur added t pruned).started = blur m := by
  cases hm : added.min? with
  | none => exact absurd ((C15.min?_none added).1 hm) h
  | some m => exact ⟨m, (isMin_iff_min? added m).2 hm, by simp [C15.nameplateSpec, hm]⟩

/-- **C16_records_close_to_truth**: the rows a non-crash step appends carry a time that is a multiple
    of the interval, not after the true time and less than one interval before it -/
theorem C16_records_close_to_truth {g : GSys} (hI : g.GInv) (hu : g.sys.cfg.usage = true) {b : Nat}
    (hb : g.sys.cfg.blur = some b) (hb1 : 1 ≤ b) (op : Op) (hop : op.isCrash = false) :
    let B : Int := (b : Int) * (Generated.ticksPerSecond : Int)
    let ok (stored true_ : Time) : Prop := B ∣ stored ∧ stored ≤ true_ ∧ true_ < stored + B
    -- nameplate records
    (∃ recs, (g.step op).sys.udb.nameplates = g.sys.udb.nameplates ++ recs ∧
      ∀ r ∈ recs, ∃ n ∈ (g.sys.usageBase op).retiredNp (g.step op).sys.db,
        ∃ m, IsMin ((g.sys.db.npSidesOf n.id).map (·.added)) m ∧ ok r.started m) ∧
    -- mailbox records
    (∃ recs, (g.step op).sys.udb.mailboxes = g.sys.udb.mailboxes ++ recs ∧
      ∀ r ∈ recs, ∃ mb ∈ (g.sys.usageBase op).retiredMb (g.step op).sys.db,
        ok r.started ((((g.sys.usageBase op).mbSidesOf mb.id).map (·.added)).min?.getD (g.opTime op))) ∧
    -- client rows
    (∀ c t id a sd i v, op = .recv c t id (.bind a sd i v) →
      ∃ rows, (g.step op).sys.udb.clients = g.sys.udb.clients ++ rows ∧ ∀ r ∈ rows, ok r.time t) := by
  intro B ok
  have hblur : ∀ t, ok (g.sys.blurTime t) t := fun t => (C16_blurTime_cfg g.sys b hb hb1 t).2
  have h := C15_one_record_each hI hu op hop
  refine ⟨?_, ?_, ?_⟩
  · obtain ⟨recs, e1, p1⟩ := h.nameplates
    refine ⟨recs, e1, ?_⟩
    intro r hr
    obtain ⟨n, hn, rfl⟩ := List.mem_map.1 (p1.subset hr)
    refine ⟨n, hn, ?_⟩
    have hnB := (Chan.mem_retiredNp.1 hn).1
    rw [Sys.usageBase_nameplates] at hnB
    have hne : (g.sys.db.npSidesOf n.id).map (·.added) ≠ [] := by
      have := npSidesOf_ne_nil hI.cinv.npHasSide hnB
      simpa using this
    obtain ⟨m, hm, hst⟩ := nameplateSpec_started (blur := g.sys.blurTime) (g.opTime op) op.isSweep hne
    refine ⟨m, hm, ?_⟩
    have : (Chan.npRec (g.sys.usageBase op) g.sys.blurTime (g.opTime op) op.isSweep n).started = g.sys.blurTime m := by
      unfold Chan.npRec npRecord
      rw [Sys.usageBase_npSidesOf]
      exact hst
    rw [this]; exact hblur m
  · obtain ⟨recs, e1, p1⟩ := h.mailboxes
    refine ⟨recs, e1, ?_⟩
    intro r hr
    obtain ⟨mb, hmb, rfl⟩ := List.mem_map.1 (p1.subset hr)
    refine ⟨mb, hmb, ?_⟩
    have : (Chan.mbRec (g.sys.usageBase op) g.sys.blurTime (g.opTime op) op.isSweep mb).started =
        g.sys.blurTime ((((g.sys.usageBase op).mbSidesOf mb.id).map (·.added)).min?.getD (g.opTime op)) := rfl
    rw [this]; exact hblur _
  · intro c t id a sd i v e
    subst e
    refine ⟨_, h.clients, ?_⟩
    intro r hr
    simp only [newClients, cmdClients] at hr
    cases hx : g.sys.findConn c with
    | none => simp [hx] at hr
    | some x =>
      simp only [hx, bindRows] at hr
      cases a with
      | none => simp at hr
      | some a' =>
        cases sd with
        | none => simp at hr
        | some sd' =>
          simp only at hr
          split at hr
          · simp only [List.mem_singleton] at hr
            subst hr
            exact hblur t
          · simp at hr

/-! ### Non-vacuity -/

namespace C16bExample

def cfg : Cfg := { usage := true, blur := some 7 }
def bind (c : Nat) (t : Time) (σ : String) : Op := .recv c t (.int 1) (.bind (some "app") (some σ) none none)

/-- a history with a crash in the middle of a claim, a restart, a re-claim and an expiry sweep -/
def H : List Op :=
  [ .connect 1, bind 1 1001 "s1", .crashIn 1 (.recv 1 1003 (.int 2) (.claim (some "4") "mb1")),
    .restart 1010, .connect 2, bind 2 1013 "s1", .recv 2 1017 (.int 2) (.claim (some "4") "mb2"), .drop 2,
    .sweep 200001 false ]
def g : GSys := (GSys.init cfg 0).run H
theorem g_reach : g.Reach := GSys.reach_of_wfB _ _ _ (by decide +kernel)

/-- the hypotheses of `C16_all_rows_blurred` hold for `g` (blur 7 s = 56 ticks) … -/
example : g.sys.cfg.blur = some 7 ∧ (1 ≤ 7) := ⟨by decide +kernel, by decide⟩
/-- … its usage database is not empty and the true times were not multiples of the interval -/
example : g.sys.udb.clients.map (·.time) = [952, 1008] ∧ g.sys.udb.nameplates.map (·.started) = [952] ∧
    g.sys.udb.mailboxes.map (·.started) = [1008] := by decide +kernel
example : Usage.AllBlurred 56 g.sys.udb := (C16_all_rows_blurred g_reach (b := 7) (by decide +kernel) (by decide)).1

/-- the step-level statement applies to the final sweep -/
def gPre : GSys := (GSys.init cfg 0).run (H.take 8)
theorem gPre_reach : gPre.Reach := GSys.reach_of_wfB _ _ _ (by decide +kernel)
example : gPre.GInv ∧ gPre.sys.cfg.usage = true ∧ gPre.sys.cfg.blur = some 7 :=
  ⟨gPre_reach.ginv, by decide +kernel, by decide +kernel⟩
/-- … and says: the nameplate record written by the sweep (started 952) lies less than 56 ticks before
    the true time 1003 of its only side row, the mailbox record (1008) before 1017 -/
example : ∃ recs, (gPre.step (.sweep 200001 false)).sys.udb.nameplates = gPre.sys.udb.nameplates ++ recs ∧
    ∀ r ∈ recs, ∃ n ∈ (gPre.sys.usageBase (.sweep 200001 false)).retiredNp (gPre.step (.sweep 200001 false)).sys.db,
      ∃ m, IsMin ((gPre.sys.db.npSidesOf n.id).map (·.added)) m ∧
        ((7 : Nat) : Int) * (Generated.ticksPerSecond : Int) ∣ r.started ∧ r.started ≤ m ∧
          m < r.started + ((7 : Nat) : Int) * (Generated.ticksPerSecond : Int) :=
  (C16_records_close_to_truth gPre_reach.ginv (by decide +kernel) (b := 7) (by decide +kernel) (by decide)
    (.sweep 200001 false) rfl).1
example : (gPre.sys.db.npSides.map (·.added), gPre.sys.db.mbSides.map (·.added)) = ([1003], [1017]) := by
  decide +kernel

end C16bExample
end Wormhole

#print axioms Wormhole.C16_cfg_constant
#print axioms Wormhole.C16_all_rows_blurred
#print axioms Wormhole.C16_all_rows_blurred_run
#print axioms Wormhole.C16_records_close_to_truth
