/-
  C09, completed — a response is sent only after its effects are committed, for ALL well-formed
  histories, crashes included.

  Props/C09.lean proves the commit discipline for crash-free histories and leaves one gap
  (`hCrash` of `C09_frames_synced_crash_partial`): that the nameplate tables are in order in the
  state a crash leaves.  That is part of `GInv`, which holds in every reachable state
  (`GSys.Reach.ginv`, Inv/Main.lean: every snapshot committed inside any operation satisfies
  `CInv`).  Hence:

  * `C09_frames_synced_all`   for every configuration, start time and every well-formed history
        (crashes at any commit boundary of any operation, sweeps with and without fault,
        restarts): every frame of the trace carries `synced = true`, i.e. at the instant it was
        handed to the transport both databases had nothing uncommitted.
  * `C09_frames_synced_reach` the same from any reachable state.
-/
import Wormhole.Props.C09
import Wormhole.Inv.Main
import Wormhole.Inv.WFDec

namespace Wormhole
open Sys

/-- one step from a state satisfying the invariant: all frames synced (crash or not) -/
theorem C09_step_all {g : GSys} (hI : g.GInv) (op : Op) : AllFramesSynced (g.sys.step op).out := by
  cases hc : op.isCrash with
  | false => exact (Ok.step hI.synced hI.cinv.npOk hc).frames
  | true =>
    cases op with
    | crashIn k op' => exact step_crash_framesOk hI.synced hI.cinv.npOk k op'
    | _ => simp [Op.isCrash] at hc

/-- **C09 from any reachable state**, any well-formed continuation -/
theorem C09_frames_synced_reach : ∀ (ops : List Op) {g : GSys}, g.Reach → g.WF ops →
    AllFramesSynced (g.sys.run ops).2 := by
  intro ops
  induction ops with
  | nil => intro g _ _ e he; simp [Sys.run] at he
  | cons op rest ih =>
    intro g hg hwf
    simp only [Sys.run]
    exact (C09_step_all hg.ginv op).append (ih (g := g.step op) (.step op hg hwf.1) hwf.2)

/-- **C09, all histories.**  For every `cfg`, `rb` and every well-formed history `ops` (crashes
    included), every frame in the trace has `synced = true`. -/
theorem C09_frames_synced_all (cfg : Cfg) (rb : Time) (ops : List Op) (hwf : (GSys.init cfg rb).WF ops) :
    AllFramesSynced (Sys.run { cfg := cfg, rebooted := rb } ops).2 :=
  C09_frames_synced_reach ops (.init cfg rb) hwf

/-- the final state has nothing uncommitted either -/
theorem C09_final_synced (cfg : Cfg) (rb : Time) (ops : List Op) (hwf : (GSys.init cfg rb).WF ops) :
    (Sys.run { cfg := cfg, rebooted := rb } ops).1.Synced := by
  have := (GSys.reach_run (.init cfg rb) ops hwf).ginv.synced
  rw [GSys.run_sys] at this
  exact this

/-! ### Non-vacuity: a history with a crash inside `claim`, a restart, a sweep; usage DB on -/

namespace C09bExample

def hist : List Op :=
  [ .connect 1,
    .recv 1 10 (.int 1) (.bind (some "app") (some "s1") (some "impl") (some "v")),
    .crashIn 1 (.recv 1 11 (.int 2) (.claim (some "4") "mb1")),
    .connect 2,
    .recv 2 12 (.int 3) (.bind (some "app") (some "s1") none none),
    .recv 2 13 (.int 4) (.claim (some "4") "mb2"),
    .recv 2 14 (.int 5) (.open_ (some "mb1")),
    .recv 2 15 (.int 6) (.add (some (.str "pake")) (some (.str "body"))),
    .crashIn 2 (.recv 2 16 (.int 7) (.close none (some "happy"))),
    .restart 20,
    .sweep 100000 false ]

/-- the hypothesis of `C09_frames_synced_all` holds for it -/
theorem hist_wf : (GSys.init { usage := true } 0).WF hist := GSys.wfB_sound (by decide +kernel)

example : AllFramesSynced (Sys.run { cfg := { usage := true }, rebooted := 0 } hist).2 :=
  C09_frames_synced_all _ _ _ hist_wf

/-- evaluated, not derived: the frames are there (eleven of them), each with `synced = true` -/
example : C09Example.flags (Sys.run { cfg := { usage := true }, rebooted := 0 } hist).2 =
    [true, true, true, true, true, true, true, true, true, true, true] := by decide +kernel

/-- the second claim (after the crash) is answered with the mailbox the crashed claim committed -/
example : Event.frame 2 (.claimed "mb1") true ∈ (Sys.run { cfg := { usage := true }, rebooted := 0 } hist).2 := by
  decide +kernel

end C09bExample

end Wormhole

#print axioms Wormhole.C09_step_all
#print axioms Wormhole.C09_frames_synced_reach
#print axioms Wormhole.C09_frames_synced_all
#print axioms Wormhole.C09_final_synced
