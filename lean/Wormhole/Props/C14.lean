/-
  C14 — "Re-sending an acknowledged command is harmless".

  Property (properties.jsonl): if a claim, release, open or close was processed successfully and the
  client — not having seen the answer — reconnects with the same side and sends it again, it gets the
  same answer, and neither the answers to any later command from anyone nor the stored channel state
  differ from the history without the duplicate.

  THE SETTING.  `op = recv c t id cmd` is an operation of a well-formed history, received on a
  connection `c` bound to `(a, σ)`, and SUCCESSFULLY ANSWERED (`Answered`, Inv/DupOrig.lean, read off
  the events of the step: the frame `claimed m` / `released` / `closed` was sent to `c`; for `open`: `ack`
  was sent and the step produced no `error` frame and no escaped exception).  The duplicate is

      dup c' = [connect c', recv c' t id₁ (bind a σ impl ver), recv c' t id cmd', drop c']

  with `c'` an id no live connection has and `cmd'` the command with its nameplate / mailbox named
  explicitly (`Resend`: `claim n f'` with ANY generated id `f'`; `release n` for the nameplate the
  original resolved; `open m`; `close m mood` for the mailbox the original resolved, same mood).

  THE FULL STATEMENT (DESIGN.md §6 `C14_duplicate_harmless`) — FALSE for the model and the code:

      for all H₁, H₂ and every successfully answered op ∈ {claim, release, open, close}:
      with A = run (H₁ ++ [op] ++ dup ++ H₂) and B = run (H₁ ++ [op] ++ H₂),
      (i) c' receives the answer the original got, (ii) the events of H₂ are equal in A and B,
      (iii) the five tables are equal at the end.

  WHAT IS PROVED: `C14_duplicate_harmless_partial` = the full statement
    * for `claim`, `release`, `open`: with NO guard beyond "successfully answered" (for claim and open
      the guard of K-crowded-rejoin — at most two side rows — is IMPLIED by the answer of the original:
      `Sys.orig_claim`, `Sys.orig_open`; the re-sent claim may carry any generated id);
    * for `close` when the mailbox did not survive the original close: no guard;
    * for `close` when the mailbox survives (another side still has it open): under the guard `CloseGuard`
          (a) the mailbox has at most two side rows          — finding K-crowded-rejoin: otherwise the
              re-sent close is answered `crowded` (`Sys.dup_close_crowded`, `C14_close_crowded_counterexample`);
          (b) the row's `updated` column already equals `t`  — finding K-close-touch: otherwise the
              implicit `open_mailbox` of `handle_close` stamps `updated := t`.
      Without (b): `C14_close_survives_step` — the answer is `closed` again, the connection records,
      the configuration and all five tables and the counter are equal EXCEPT the column `updated` of
      that one mailbox row, which becomes `t` (`Chan.EqUpToUpdated`); `C14_close_touch_counterexample`
      shows a later sweep deleting the mailbox in the run without the duplicate and not in the run
      with it, and a later `open` replaying a message in one run and not in the other.
  The variant of K-crowded-rejoin for a claim re-sent LATER (after a third side touched the mailbox) is
  `C14_claim_crowded_counterexample`.

  Hypotheses of the history theorem: `H₁ ++ [op]` well-formed from the initial state of any
  configuration (crashes in `H₁` allowed); `H₂` any history without `crashIn` (no well-formedness
  needed; a `crashIn k` counts effective commits of BOTH databases and the duplicate leaves extra
  usage rows, so the two runs of a crash are different experiments — cf. Props/C18.lean).

  What may differ between the two runs and is not claimed equal: the usage database (`client_versions`
  row of the duplicate's `bind`; one usage `mailboxes` row when a re-sent close re-creates and
  re-deletes a mailbox) — it is not part of the stored channel state — and hence the effective
  usage commits in the trace (erased by `eraseUsage`, which keeps every frame with addressee,
  content and flag, every channel commit, every `internal` and `fired` event, in order).

  Proof: Inv/DupChan.lean (the SQL statements re-executed), Inv/DupCore.lean (the Core functions called
  twice), Inv/DupStep.lean (the four operations of the duplicate), Inv/DupOrig.lean (inversion of
  "answered"), Inv/DupHist.lean (assembly), Inv/DupSim.lean (the tail `H₂`: third instance of the two-run
  library, relation `UsgRel`).  `HandleRow` (a connection holding a handle has its side row) comes from
  Props/C05.lean.
-/
import Wormhole.Inv.DupHist
import Wormhole.Inv.WFDec
import Wormhole.Props.C05

namespace Wormhole
open Sys

/-- the initial state of configuration `cfg` started at `rb` -/
abbrev start (cfg : Cfg) (rb : Time) : Sys := (GSys.init cfg rb).sys

/-- every table and the counter equal except the column `updated` of the mailbox row(s) with id `m`:
    `d'` is `d` with `UPDATE mailboxes SET updated=u WHERE id=m` applied, for some `u` -/
def Chan.EqUpToUpdated (m : String) (d d' : Chan) : Prop := ∃ u : Time, d' = d.touch m u

theorem Chan.EqUpToUpdated.tables {m : String} {d d' : Chan} (h : Chan.EqUpToUpdated m d d') :
    d'.nameplates = d.nameplates ∧ d'.npSides = d.npSides ∧ d'.mbSides = d.mbSides ∧
    d'.messages = d.messages ∧ d'.nextNp = d.nextNp ∧
    ∃ u : Time, d'.mailboxes = d.mailboxes.map (fun r => if r.id = m then { r with updated := u } else r) := by
  obtain ⟨u, rfl⟩ := h
  exact ⟨rfl, rfl, rfl, rfl, rfl, u, rfl⟩

/-! ## A. The functions and statements, executed twice (re-exported under the property's name) -/

/-- **C14 (claim twice).**  If `claim_nameplate(a, n, σ, t)` just answered `ok m` — leaving a database
    that satisfies the invariant — then on every state with that database a second
    `claim_nameplate(a, n, σ, t)`, with any generated id `f'`, answers `ok m` again and leaves the channel
    database (five tables and the counter) and the connection records unchanged.  The guard of
    K-crowded-rejoin is implied: `ok` means at most two side rows on nameplate and mailbox. -/
theorem C14_claim_idempotent {s s1 s' : Sys} {a n σ : String} {t : Time} {f m : String} (hP1 : s1.db.PInv)
    (h : s.claimNameplate a n σ t f = (s1, .ok m)) (hdb : s'.db = s1.db) (f' : String) :
    (s1.db.mbSidesOf m).length ≤ 2 ∧
    ∃ s2, s'.claimNameplate a n σ t f' = (s2, .ok m) ∧ s2.db = s'.db ∧ s2.conns = s'.conns := by
  have hD := claimNameplate_ok_done hP1 h
  exact ⟨hD.two, claimNameplate_again (by rw [hdb]; exact hP1) (by rw [hdb]; exact hD) f'⟩

/-- **C14 (release twice).**  Whatever `release_nameplate(a, n, σ, t)` did (from a database satisfying
    the invariant), a second call — at any time — on a state with the resulting database returns
    normally (`released` is answered both times) and leaves the database and the connection records
    unchanged: the row is already unclaimed and another side still claims (the UPDATE rewrites the
    same value), or the nameplate is gone, or the side has no row. -/
theorem C14_release_idempotent {s s1 s' : Sys} {a n σ : String} {t t' : Time} {b : Bool} (hP : s.db.PInv)
    (h : s.releaseNameplate a n σ t = (s1, b)) (hdb : s'.db = s1.db) :
    ∃ s2, s'.releaseNameplate a n σ t' = (s2, true) ∧ s2.db = s'.db ∧ s2.conns = s'.conns :=
  releaseNameplate_again hP h hdb

/-- **C14 (open twice).**  If `open_mailbox(a, m, σ, t)` answered `ok`, a second call on a state with the
    resulting database answers `ok` again (at most two side rows: the first call checked) and leaves the
    database, the connection records, the usage database and the configuration unchanged. -/
theorem C14_open_idempotent {s s1 s' : Sys} {a m σ : String} {t : Time} (hP : s.db.PInv)
    (h : s.openMailbox a m σ t = (s1, .ok)) (hdb : s'.db = s1.db) :
    (s1.db.mbSidesOf m).length ≤ 2 ∧
    ∃ s2, s'.openMailbox a m σ t = (s2, .ok) ∧ s2.db = s'.db ∧ s2.disk = s2.db ∧ SameRest s' s2 :=
  (openMailbox_again hP h hdb).2

/-- **C14 (close again, mailbox gone)**, as a statement about the database: `open_mailbox` followed by
    `Mailbox.close` — what `handle_close` does on a connection without a handle — on a database (with the
    invariant) in which no mailbox row has id `m` gives back that database. -/
theorem C14_close_gone_idempotent {d : Chan} (hP : d.PInv) {a m σ : String} {mood : Option String} {t : Time}
    (hgone : ¬ d.HasId m) : (d.openDb a m σ t).closeDb a m σ mood = d :=
  Chan.closeDb_openDb_gone hP hgone

/-- **C14 (close again, mailbox survived) — K-close-touch**, as a statement about the database: the same
    on a database in the state a close by `σ` with mood `mood` left while another side is open gives
    `touch m t` of it (`EqUpToUpdated`), and the database itself when the row already carries `t`. -/
theorem C14_close_survived_touch {d : Chan} (hP : d.PInv) {a m σ : String} {mood : Option String} {t : Time}
    (h : d.CloseSurvived a m σ mood) :
    (d.openDb a m σ t).closeDb a m σ mood = d.touch m t ∧
    Chan.EqUpToUpdated m d ((d.openDb a m σ t).closeDb a m σ mood) ∧
    ((∀ r ∈ d.mailboxes, r.id = m → r.updated = t) → (d.openDb a m σ t).closeDb a m σ mood = d) := by
  have e := Chan.closeDb_openDb_survived hP.mbIds (t := t) h
  exact ⟨e, ⟨t, e⟩, fun hst => by rw [e, Chan.touch_eq_self hst]⟩

/-! ### non-vacuity of the hypotheses of part A -/

namespace C14ExA

/-- a database with two sides on nameplate "4" / mailbox "mb1", and an unrelated mailbox -/
def d0 : Chan :=
  { nameplates := [⟨1, "app", "4", "mb1"⟩], npSides := [⟨1, true, "s1", 11⟩, ⟨1, true, "s2", 13⟩],
    mailboxes := [⟨"app", "mb1", 13, true⟩, ⟨"app", "other", 5, false⟩],
    mbSides := [⟨"mb1", true, "s1", 11, none⟩, ⟨"mb1", true, "s2", 13, none⟩, ⟨"other", true, "s9", 5, none⟩],
    nextNp := 2 }
def s0 : Sys := { db := d0, disk := d0 }

instance (d : Chan) : Decidable d.IdsBounded := by unfold Chan.IdsBounded; infer_instance

theorem d0_pinv : d0.PInv := by constructor <;> decide

/-- `C14_claim_idempotent`: a first claim by a third connection of side s1 answers `ok "mb1"` from `s0`, and the
    database afterwards satisfies the invariant -/
example : (s0.claimNameplate "app" "4" "s1" 20 "f").2 = .ok "mb1" ∧ (s0.claimNameplate "app" "4" "s1" 20 "f").1.db.PInv :=
  ⟨by decide +kernel, by constructor <;> decide +kernel⟩

/-- ... and the conclusion evaluated: the second call (another generated id) answers the same, same database -/
example : ((s0.claimNameplate "app" "4" "s1" 20 "f").1.claimNameplate "app" "4" "s1" 20 "g").2 = .ok "mb1" ∧
    ((s0.claimNameplate "app" "4" "s1" 20 "f").1.claimNameplate "app" "4" "s1" 20 "g").1.db =
      (s0.claimNameplate "app" "4" "s1" 20 "f").1.db := by decide +kernel

/-- `C14_release_idempotent`: hypotheses (the invariant before the first call) and the evaluated conclusion -/
example : s0.db.PInv ∧
    ((s0.releaseNameplate "app" "4" "s1" 20).1.releaseNameplate "app" "4" "s1" 21).2 = true ∧
    ((s0.releaseNameplate "app" "4" "s1" 20).1.releaseNameplate "app" "4" "s1" 21).1.db =
      (s0.releaseNameplate "app" "4" "s1" 20).1.db ∧
    (s0.releaseNameplate "app" "4" "s1" 20).1.db ≠ s0.db :=
  ⟨d0_pinv, by decide +kernel, by decide +kernel, by decide +kernel⟩

/-- `C14_open_idempotent`: the first open answers `ok`; evaluated conclusion -/
example : s0.db.PInv ∧ (s0.openMailbox "app" "mb1" "s1" 20).2 = .ok ∧
    ((s0.openMailbox "app" "mb1" "s1" 20).1.openMailbox "app" "mb1" "s1" 20).2 = .ok ∧
    ((s0.openMailbox "app" "mb1" "s1" 20).1.openMailbox "app" "mb1" "s1" 20).1.db =
      (s0.openMailbox "app" "mb1" "s1" 20).1.db ∧
    (s0.openMailbox "app" "mb1" "s1" 20).1.db ≠ s0.db :=
  ⟨d0_pinv, by decide +kernel, by decide +kernel, by decide +kernel, by decide +kernel⟩

/-- `C14_close_gone_idempotent`: no mailbox "gone" in `d0` -/
example : d0.PInv ∧ ¬ d0.HasId "gone" ∧ (d0.openDb "app" "gone" "s1" 20).closeDb "app" "gone" "s1" (some "happy") = d0 :=
  ⟨d0_pinv, by decide, by decide +kernel⟩

/-- the database after side s1 closed "mb1" with mood happy while s2 has it open -/
def d1 : Chan := d0.closeSide "mb1" "s1" (some "happy")

/-- `C14_close_survived_touch`: hypotheses hold for `d1`; the stamp moves from 13 to 20 -/
example : d1.PInv ∧ d1.CloseSurvived "app" "mb1" "s1" (some "happy") ∧
    (d1.openDb "app" "mb1" "s1" 20).closeDb "app" "mb1" "s1" (some "happy") ≠ d1 ∧
    (d1.openDb "app" "mb1" "s1" 13).closeDb "app" "mb1" "s1" (some "happy") = d1 :=
  ⟨by constructor <;> decide, ⟨by decide, by decide, by decide, by decide⟩, by decide +kernel, by decide +kernel⟩

end C14ExA

/-! ## C. The history theorem -/

/-- **`Resend` loses no case**: every successfully answered claim / release / open / close resolves to a
    nameplate or mailbox name, i.e. has a re-sent form (`claim` / `open` without a name are refused by
    validation, `release` / `close` without a name resolve to the claimed nameplate / the handle or the
    remembered id). -/
theorem C14_resend_exists {g : GSys} (hI : g.GInv) (hH : g.sys.HandleRow) {c : Nat} {t : Time} {id : Val} {cmd : Cmd}
    (hw : g.WFOp (.recv c t id cmd)) {x : Conn} {a σ : String} (hx : g.sys.findConn c = some x)
    (ha : x.app = some a) (hσ : x.side = some σ)
    (hans : Answered (g.sys.step (.recv c t id cmd)).out c id cmd) : ∃ cmd', Resend x cmd cmd' := by
  cases cmd with
  | claim nm f =>
    obtain ⟨m, b, hA⟩ := hans
    obtain ⟨n, rfl, _⟩ := orig_claim hI hx ha hσ (hI.step _ hw) hA
    exact ⟨_, .claim n f f⟩
  | release nm =>
    obtain ⟨b, hA⟩ := hans
    obtain ⟨n, hn, _⟩ := orig_release hI hx ha hσ hA
    exact ⟨_, .release nm n hn⟩
  | open_ mo =>
    obtain ⟨m, rfl, _⟩ := orig_open hI hx ha hσ hans.2
    exact ⟨_, .open_ m⟩
  | close mo mood =>
    obtain ⟨b, hA⟩ := hans
    obtain ⟨m, hm, _⟩ := orig_close hI hH hx ha hσ hA
    exact ⟨_, .close mo m mood hm⟩
  | _ => exact hans.elim


/-- **C14_duplicate_harmless_partial.**  See the header for the full statement and the guards.
    `A` = the run with the duplicate, `B` = the run without.  Conclusions:
    * the original was answered by exactly `ack id`, commits, `answerOf … c` (for claim: `claimed m`;
      release: `released`; open: the replay of the stored messages; close: `closed`);
    * (i) the events of the duplicate are exactly `dupEvents`: `welcome`, `ack id₁` (+ commits) for the
      bind, then `ack id`, commits and `answerOf … c'` — the SAME answer frames with `c'` for `c`; every
      frame among them is addressed to `c'`;
    * (ii) the events of `H₂` are equal in `A` and `B` once usage commits are erased; in particular the
      frames — to every connection, with content, flag and order — are equal;
    * (iii) at the end the channel database (five tables and the counter), its committed copy, the
      connection records and the configuration are equal. -/
theorem C14_duplicate_harmless_partial (cfg : Cfg) (rb : Time) (H₁ H₂ : List Op) (c : Nat) (t : Time) (id : Val)
    (cmd cmd' : Cmd)
    (hwf : (GSys.init cfg rb).WF (H₁ ++ [Op.recv c t id cmd]))
    (hcf : ∀ op ∈ H₂, op.isCrash = false)
    {x : Conn} {a σ : String}
    (hx : (Sys.run (start cfg rb) H₁).1.findConn c = some x) (ha : x.app = some a) (hσ : x.side = some σ)
    (hre : Resend x cmd cmd')
    (hans : Answered ((Sys.run (start cfg rb) H₁).1.step (.recv c t id cmd)).out c id cmd)
    (hguard : CloseGuard (Sys.run (start cfg rb) (H₁ ++ [Op.recv c t id cmd])).1 t cmd')
    (c' : Nat) (hfresh : ∀ y ∈ (Sys.run (start cfg rb) (H₁ ++ [Op.recv c t id cmd])).1.conns, y.id ≠ c')
    (id₁ : Val) (impl ver : Option String) :
    ∃ (m : String) (commits₀ commits₁ commits tailA tailB : List Event),
      (∀ e ∈ commits₀, IsCommit e) ∧ (∀ e ∈ commits₁, IsCommit e) ∧ (∀ e ∈ commits, IsCommit e) ∧
      (Sys.run (start cfg rb) (H₁ ++ [Op.recv c t id cmd])).2 =
        (Sys.run (start cfg rb) H₁).2 ++
          (.frame c (.ack id) true ::
            (commits₀ ++ answerOf (Sys.run (start cfg rb) (H₁ ++ [Op.recv c t id cmd])).1.db a m cmd' c)) ∧
      (Sys.run (start cfg rb) (H₁ ++ [Op.recv c t id cmd] ++ dup c' t id₁ id a σ impl ver cmd' ++ H₂)).2 =
        (Sys.run (start cfg rb) (H₁ ++ [Op.recv c t id cmd])).2 ++
          dupEvents (Sys.run (start cfg rb) (H₁ ++ [Op.recv c t id cmd])).1.cfg.welcome c' id₁ id commits₁ commits
            (answerOf (Sys.run (start cfg rb) (H₁ ++ [Op.recv c t id cmd])).1.db a m cmd' c') ++ tailA ∧
      (Sys.run (start cfg rb) (H₁ ++ [Op.recv c t id cmd] ++ H₂)).2 =
        (Sys.run (start cfg rb) (H₁ ++ [Op.recv c t id cmd])).2 ++ tailB ∧
      (∀ k f b, Event.frame k f b ∈
          dupEvents (Sys.run (start cfg rb) (H₁ ++ [Op.recv c t id cmd])).1.cfg.welcome c' id₁ id commits₁ commits
            (answerOf (Sys.run (start cfg rb) (H₁ ++ [Op.recv c t id cmd])).1.db a m cmd' c') → k = c') ∧
      tailA.filterMap eraseUsage = tailB.filterMap eraseUsage ∧
      tailA.filter Event.isFrame = tailB.filter Event.isFrame ∧
      (Sys.run (start cfg rb) (H₁ ++ [Op.recv c t id cmd] ++ dup c' t id₁ id a σ impl ver cmd' ++ H₂)).1.db =
        (Sys.run (start cfg rb) (H₁ ++ [Op.recv c t id cmd] ++ H₂)).1.db ∧
      (Sys.run (start cfg rb) (H₁ ++ [Op.recv c t id cmd] ++ dup c' t id₁ id a σ impl ver cmd' ++ H₂)).1.disk =
        (Sys.run (start cfg rb) (H₁ ++ [Op.recv c t id cmd] ++ H₂)).1.disk ∧
      (Sys.run (start cfg rb) (H₁ ++ [Op.recv c t id cmd] ++ dup c' t id₁ id a σ impl ver cmd' ++ H₂)).1.conns =
        (Sys.run (start cfg rb) (H₁ ++ [Op.recv c t id cmd] ++ H₂)).1.conns ∧
      (Sys.run (start cfg rb) (H₁ ++ [Op.recv c t id cmd] ++ dup c' t id₁ id a σ impl ver cmd' ++ H₂)).1.cfg =
        (Sys.run (start cfg rb) (H₁ ++ [Op.recv c t id cmd] ++ H₂)).1.cfg := by
  obtain ⟨hwf1, hwf2⟩ := GSys.dup_wf_append hwf
  have hw : ((GSys.init cfg rb).run H₁).WFOp (.recv c t id cmd) := hwf2.1
  have hReach : ((GSys.init cfg rb).run H₁).Reach := GSys.reach_run (.init cfg rb) H₁ hwf1
  have hI := hReach.ginv
  have hH := C05.handleRow_reach (fun _ h => h.ginv) hReach
  have hI' := hI.step _ hw
  have hsys : ((GSys.init cfg rb).run H₁).sys = (Sys.run (start cfg rb) H₁).1 := GSys.run_sys _ _
  have e1 : Sys.run (start cfg rb) (H₁ ++ [Op.recv c t id cmd]) =
      ((Sys.run (start cfg rb) H₁).1.step (.recv c t id cmd),
        (Sys.run (start cfg rb) H₁).2 ++ ((Sys.run (start cfg rb) H₁).1.step (.recv c t id cmd)).out) := by
    rw [dup_run_append]
    simp [Sys.run]
  rw [e1] at hguard hfresh
  rw [← hsys] at hx hans hguard hfresh
  obtain ⟨m, commits₀, hc0, hout0, h3⟩ := dup_after_op hI hH hw hx ha hσ hre hans hguard hfresh
  rw [hsys] at hout0 h3 hfresh
  have hs : ((Sys.run (start cfg rb) H₁).1.step (.recv c t id cmd)).Synced := by
    have := hI'.synced
    rw [show ((GSys.init cfg rb).run H₁).step (.recv c t id cmd) =
      ⟨((GSys.init cfg rb).run H₁).sys.step (.recv c t id cmd), _, _⟩ from rfl, hsys] at this
    exact this
  have hnp : ((Sys.run (start cfg rb) H₁).1.step (.recv c t id cmd)).db.NpOk := by
    have := hI'.cinv.npOk
    rw [show ((GSys.init cfg rb).run H₁).step (.recv c t id cmd) =
      ⟨((GSys.init cfg rb).run H₁).sys.step (.recv c t id cmd), _, _⟩ from rfl, hsys] at this
    exact this
  obtain ⟨k1, k2, k3, k4, k5, commits₁, commits, hc1, hc, hev⟩ :=
    dup_run_of_step3 hs hfresh a σ t id₁ id impl ver cmd' h3
  have hsim : DupSim (Sys.run ((Sys.run (start cfg rb) H₁).1.step (.recv c t id cmd))
      (dup c' t id₁ id a σ impl ver cmd')).1 ((Sys.run (start cfg rb) H₁).1.step (.recv c t id cmd)) :=
    ⟨⟨k1, k2.trans hs.1, k3⟩, k4, k5, hs, by rw [k1]; exact hnp⟩
  obtain ⟨hfin, htr⟩ := DupSim_run H₂ hcf hsim
  have eA : Sys.run (start cfg rb) (H₁ ++ [Op.recv c t id cmd] ++ dup c' t id₁ id a σ impl ver cmd' ++ H₂) =
      ((Sys.run (Sys.run ((Sys.run (start cfg rb) H₁).1.step (.recv c t id cmd))
          (dup c' t id₁ id a σ impl ver cmd')).1 H₂).1,
       ((Sys.run (start cfg rb) H₁).2 ++ ((Sys.run (start cfg rb) H₁).1.step (.recv c t id cmd)).out) ++
        (Sys.run ((Sys.run (start cfg rb) H₁).1.step (.recv c t id cmd)) (dup c' t id₁ id a σ impl ver cmd')).2 ++
        (Sys.run (Sys.run ((Sys.run (start cfg rb) H₁).1.step (.recv c t id cmd))
          (dup c' t id₁ id a σ impl ver cmd')).1 H₂).2) := by
    rw [dup_run_append (start cfg rb) (H₁ ++ [Op.recv c t id cmd] ++ dup c' t id₁ id a σ impl ver cmd') H₂,
      dup_run_append (start cfg rb) (H₁ ++ [Op.recv c t id cmd]) (dup c' t id₁ id a σ impl ver cmd'), e1]
  have eB : Sys.run (start cfg rb) (H₁ ++ [Op.recv c t id cmd] ++ H₂) =
      ((Sys.run ((Sys.run (start cfg rb) H₁).1.step (.recv c t id cmd)) H₂).1,
       ((Sys.run (start cfg rb) H₁).2 ++ ((Sys.run (start cfg rb) H₁).1.step (.recv c t id cmd)).out) ++
        (Sys.run ((Sys.run (start cfg rb) H₁).1.step (.recv c t id cmd)) H₂).2) := by
    rw [dup_run_append (start cfg rb) (H₁ ++ [Op.recv c t id cmd]) H₂, e1]
  rw [eA, eB, e1]
  refine ⟨m, commits₀, commits₁, commits, _, _, hc0, hc1, hc, by rw [hout0], by rw [hev], rfl,
    dupEvents_private hc1 hc (answerOf_to _ a m cmd' c'), htr, dup_frames_eq_of_eraseUsage_eq htr,
    hfin.chan.1, hfin.chan.2.1, hfin.chan.2.2, hfin.cfg⟩

/-- **C14_close_survives_step (K-close-touch, exactly).**  The re-sent `close` of a mailbox that SURVIVES
    the original close, under the guard "at most two side rows" alone (K-crowded-rejoin), for `H₂ = []`:
    the original and the duplicate are both answered `ack`, commits, `closed`; right after the duplicate
    the connection records, the configuration and the committed copy agree with the database, and
    the channel database equals the one after the original EXCEPT the column `updated` of the mailbox
    row `m`, which is `t` (`touch m t`; `Chan.EqUpToUpdated`).  It is the database itself when that
    column already was `t` (e.g. when the original close was sent on a connection without a handle,
    whose implicit open had stamped it). -/
theorem C14_close_survives_step (cfg : Cfg) (rb : Time) (H₁ : List Op) (c : Nat) (t : Time) (id : Val)
    (mo mood : Option String)
    (hwf : (GSys.init cfg rb).WF (H₁ ++ [Op.recv c t id (.close mo mood)]))
    {x : Conn} {a σ m : String}
    (hx : (Sys.run (start cfg rb) H₁).1.findConn c = some x) (ha : x.app = some a) (hσ : x.side = some σ)
    (htg : x.closeTarget mo = some m)
    (hans : Answered ((Sys.run (start cfg rb) H₁).1.step (.recv c t id (.close mo mood))).out c id (.close mo mood))
    (hid : (Sys.run (start cfg rb) (H₁ ++ [Op.recv c t id (.close mo mood)])).1.db.HasId m)
    (hlen : ((Sys.run (start cfg rb) (H₁ ++ [Op.recv c t id (.close mo mood)])).1.db.mbSidesOf m).length ≤ 2)
    (c' : Nat) (hfresh : ∀ y ∈ (Sys.run (start cfg rb) (H₁ ++ [Op.recv c t id (.close mo mood)])).1.conns, y.id ≠ c')
    (id₁ : Val) (impl ver : Option String) :
    ∃ (commits₀ commits₁ commits : List Event),
      (∀ e ∈ commits₀, IsCommit e) ∧ (∀ e ∈ commits₁, IsCommit e) ∧ (∀ e ∈ commits, IsCommit e) ∧
      (Sys.run (start cfg rb) (H₁ ++ [Op.recv c t id (.close mo mood)])).2 =
        (Sys.run (start cfg rb) H₁).2 ++ (.frame c (.ack id) true :: (commits₀ ++ [.frame c .closed true])) ∧
      (Sys.run (start cfg rb) (H₁ ++ [Op.recv c t id (.close mo mood)] ++
          dup c' t id₁ id a σ impl ver (.close (some m) mood))).2 =
        (Sys.run (start cfg rb) (H₁ ++ [Op.recv c t id (.close mo mood)])).2 ++
          dupEvents (Sys.run (start cfg rb) (H₁ ++ [Op.recv c t id (.close mo mood)])).1.cfg.welcome c' id₁ id
            commits₁ commits [.frame c' .closed true] ∧
      (Sys.run (start cfg rb) (H₁ ++ [Op.recv c t id (.close mo mood)] ++
          dup c' t id₁ id a σ impl ver (.close (some m) mood))).1.db =
        (Sys.run (start cfg rb) (H₁ ++ [Op.recv c t id (.close mo mood)])).1.db.touch m t ∧
      Chan.EqUpToUpdated m (Sys.run (start cfg rb) (H₁ ++ [Op.recv c t id (.close mo mood)])).1.db
        (Sys.run (start cfg rb) (H₁ ++ [Op.recv c t id (.close mo mood)] ++
          dup c' t id₁ id a σ impl ver (.close (some m) mood))).1.db ∧
      ((∀ r ∈ (Sys.run (start cfg rb) (H₁ ++ [Op.recv c t id (.close mo mood)])).1.db.mailboxes, r.id = m → r.updated = t) →
        (Sys.run (start cfg rb) (H₁ ++ [Op.recv c t id (.close mo mood)] ++
          dup c' t id₁ id a σ impl ver (.close (some m) mood))).1.db =
        (Sys.run (start cfg rb) (H₁ ++ [Op.recv c t id (.close mo mood)])).1.db) ∧
      (Sys.run (start cfg rb) (H₁ ++ [Op.recv c t id (.close mo mood)] ++
          dup c' t id₁ id a σ impl ver (.close (some m) mood))).1.conns =
        (Sys.run (start cfg rb) (H₁ ++ [Op.recv c t id (.close mo mood)])).1.conns ∧
      (Sys.run (start cfg rb) (H₁ ++ [Op.recv c t id (.close mo mood)] ++
          dup c' t id₁ id a σ impl ver (.close (some m) mood))).1.cfg =
        (Sys.run (start cfg rb) (H₁ ++ [Op.recv c t id (.close mo mood)])).1.cfg ∧
      (Sys.run (start cfg rb) (H₁ ++ [Op.recv c t id (.close mo mood)] ++
          dup c' t id₁ id a σ impl ver (.close (some m) mood))).1.Synced := by
  obtain ⟨hwf1, hwf2⟩ := GSys.dup_wf_append hwf
  have hw : ((GSys.init cfg rb).run H₁).WFOp (.recv c t id (.close mo mood)) := hwf2.1
  have hReach : ((GSys.init cfg rb).run H₁).Reach := GSys.reach_run (.init cfg rb) H₁ hwf1
  have hI := hReach.ginv
  have hH := C05.handleRow_reach (fun _ h => h.ginv) hReach
  have hI' := hI.step _ hw
  have hsys : ((GSys.init cfg rb).run H₁).sys = (Sys.run (start cfg rb) H₁).1 := GSys.run_sys _ _
  have e1 : Sys.run (start cfg rb) (H₁ ++ [Op.recv c t id (.close mo mood)]) =
      ((Sys.run (start cfg rb) H₁).1.step (.recv c t id (.close mo mood)),
        (Sys.run (start cfg rb) H₁).2 ++ ((Sys.run (start cfg rb) H₁).1.step (.recv c t id (.close mo mood))).out) := by
    rw [dup_run_append]
    simp [Sys.run]
  rw [e1] at hid hlen hfresh
  rw [← hsys] at hx hans hid hlen hfresh
  obtain ⟨_, commits₀, hc0, hout0, h3⟩ := dup_after_close_survived hI hH hw hx ha hσ htg hans hid hlen hfresh
  rw [hsys] at hout0 h3 hfresh
  have hs : ((Sys.run (start cfg rb) H₁).1.step (.recv c t id (.close mo mood))).Synced := by
    have := hI'.synced
    rw [show ((GSys.init cfg rb).run H₁).step (.recv c t id (.close mo mood)) =
      ⟨((GSys.init cfg rb).run H₁).sys.step (.recv c t id (.close mo mood)), _, _⟩ from rfl, hsys] at this
    exact this
  obtain ⟨k1, _, k3, k4, k5, commits₁, commits, hc1, hc, hev⟩ :=
    dup_run_of_step3 hs hfresh a σ t id₁ id impl ver (.close (some m) mood) h3
  rw [dup_run_append (start cfg rb) (H₁ ++ [Op.recv c t id (.close mo mood)])
    (dup c' t id₁ id a σ impl ver (.close (some m) mood)), e1]
  refine ⟨commits₀, commits₁, commits, hc0, hc1, hc, by rw [hout0], by rw [hev], k1, ⟨t, k1⟩,
    fun hst => by rw [k1, Chan.touch_eq_self hst], k3, k4, k5⟩

/-! ## Non-vacuity, evaluated duplicates, counterexamples -/

namespace C14Ex

def cfg : Cfg := { usage := true }
def st : Sys := start cfg 0
/-- a configuration without usage database (the kernel evaluates the examples; the usage summaries sort
    with `List.mergeSort`, which it does not unfold on lists of two or more) -/
def cfgN : Cfg := {}
def stN : Sys := start cfgN 0
def bind (c : Nat) (t : Time) (σ : String) : Op := .recv c t (.int 1) (.bind (some "app") (some σ) (some "impl") none)

/-! ### claim -/

def Hc1 : List Op := [ .connect 1, bind 1 10 "s1" ]
def cmdC : Cmd := .claim (some "4") "mb1"
/-- the second side claims the same nameplate, both open the mailbox -/
def Hc2 : List Op :=
  [ .connect 2, bind 2 20 "s2", .recv 2 21 (.int 2) (.claim (some "4") "mb2"),
    .recv 2 22 (.int 3) (.open_ (some "mb1")), .recv 1 23 (.int 3) (.open_ (some "mb1")), .sweep 30 false ]
/-- the duplicate carries ANOTHER generated mailbox id -/
def dupC : List Op := dup 9 11 (.int 7) (.int 2) "app" "s1" none none (.claim (some "4") "zzz")
def xC : Conn := { id := 1, app := some "app", side := some "s1" }

/-- the hypotheses of `C14_duplicate_harmless_partial` hold for the claim scenario -/
example : (GSys.init cfg 0).WF (Hc1 ++ [Op.recv 1 11 (.int 2) cmdC]) ∧ (∀ op ∈ Hc2, op.isCrash = false) ∧
    (Sys.run (start cfg 0) Hc1).1.findConn 1 = some xC ∧ xC.app = some "app" ∧ xC.side = some "s1" ∧
    Resend xC cmdC (.claim (some "4") "zzz") ∧
    Answered ((Sys.run (start cfg 0) Hc1).1.step (.recv 1 11 (.int 2) cmdC)).out 1 (.int 2) cmdC ∧
    CloseGuard (Sys.run (start cfg 0) (Hc1 ++ [Op.recv 1 11 (.int 2) cmdC])).1 11 (.claim (some "4") "zzz") ∧
    (∀ y ∈ (Sys.run (start cfg 0) (Hc1 ++ [Op.recv 1 11 (.int 2) cmdC])).1.conns, y.id ≠ 9) :=
  ⟨GSys.wfB_sound (by decide +kernel), by decide, by decide +kernel, rfl, rfl, .claim _ _ _,
    ⟨"mb1", true, by decide +kernel⟩, (fun _ _ h => by cases h), by decide +kernel⟩

/-- evaluated, not derived: the duplicate gets `ack, claimed "mb1"`; frames of the tail and final databases are equal -/
example :
    ((Sys.run st (Hc1 ++ [Op.recv 1 11 (.int 2) cmdC] ++ dupC)).2.filter Event.isFrame).drop 4 =
      [.frame 9 (.welcome "{}") true, .frame 9 (.ack (.int 7)) true, .frame 9 (.ack (.int 2)) true,
       .frame 9 (.claimed "mb1") true] ∧
    (Sys.run st (Hc1 ++ [Op.recv 1 11 (.int 2) cmdC] ++ dupC ++ Hc2)).1.db =
      (Sys.run st (Hc1 ++ [Op.recv 1 11 (.int 2) cmdC] ++ Hc2)).1.db ∧
    (Sys.run st (Hc1 ++ [Op.recv 1 11 (.int 2) cmdC] ++ Hc2)).1.db.mbSides.length = 2 ∧
    ((Sys.run st (Hc1 ++ [Op.recv 1 11 (.int 2) cmdC] ++ dupC ++ Hc2)).2.filter Event.isFrame).drop 8 =
      ((Sys.run st (Hc1 ++ [Op.recv 1 11 (.int 2) cmdC] ++ Hc2)).2.filter Event.isFrame).drop 4 := by
  decide +kernel

/-! ### release -/

def Hr1 : List Op :=
  [ .connect 1, bind 1 10 "s1", .recv 1 11 (.int 2) (.claim (some "4") "mb1"),
    .connect 2, bind 2 12 "s2", .recv 2 13 (.int 2) (.claim (some "4") "mb2") ]
/-- `release` without a name: resolves to the claimed nameplate "4"; side s2 still claims it -/
def cmdR : Cmd := .release none
def Hr2 : List Op :=
  [ .recv 2 15 (.int 3) (.release (some "4")), .connect 3, bind 3 16 "s3", .recv 3 17 (.int 2) .list ]
def dupR : List Op := dup 9 14 (.int 7) (.int 3) "app" "s1" none none (.release (some "4"))
def xR : Conn := { id := 1, app := some "app", side := some "s1", didClaim := true, nameplateId := some "4" }

example : (GSys.init cfgN 0).WF (Hr1 ++ [Op.recv 1 14 (.int 3) cmdR]) ∧ (∀ op ∈ Hr2, op.isCrash = false) ∧
    (Sys.run (start cfgN 0) Hr1).1.findConn 1 = some xR ∧ xR.app = some "app" ∧ xR.side = some "s1" ∧
    Resend xR cmdR (.release (some "4")) ∧
    Answered ((Sys.run (start cfgN 0) Hr1).1.step (.recv 1 14 (.int 3) cmdR)).out 1 (.int 3) cmdR ∧
    CloseGuard (Sys.run (start cfgN 0) (Hr1 ++ [Op.recv 1 14 (.int 3) cmdR])).1 14 (.release (some "4")) ∧
    (∀ y ∈ (Sys.run (start cfgN 0) (Hr1 ++ [Op.recv 1 14 (.int 3) cmdR])).1.conns, y.id ≠ 9) :=
  ⟨GSys.wfB_sound (by decide +kernel), by decide, by decide +kernel, rfl, rfl, .release _ _ rfl,
    ⟨true, by decide +kernel⟩, (fun _ _ h => by cases h), by decide +kernel⟩

/-- evaluated: the nameplate survives the first release (s2 claims); the duplicate gets `ack, released`;
    final databases equal — also when the original release deleted the nameplate (second conjunct block) -/
example :
    ((Sys.run stN (Hr1 ++ [Op.recv 1 14 (.int 3) cmdR] ++ dupR)).2.filter Event.isFrame).drop 10 =
      [.frame 9 (.welcome "{}") true, .frame 9 (.ack (.int 7)) true, .frame 9 (.ack (.int 3)) true,
       .frame 9 .released true] ∧
    (Sys.run stN (Hr1 ++ [Op.recv 1 14 (.int 3) cmdR])).1.db.nameplates.length = 1 ∧
    (Sys.run stN (Hr1 ++ [Op.recv 1 14 (.int 3) cmdR] ++ dupR)).1.db = (Sys.run stN (Hr1 ++ [Op.recv 1 14 (.int 3) cmdR])).1.db ∧
    (Sys.run stN (Hr1 ++ [Op.recv 1 14 (.int 3) cmdR] ++ dupR ++ Hr2)).1.db =
      (Sys.run stN (Hr1 ++ [Op.recv 1 14 (.int 3) cmdR] ++ Hr2)).1.db ∧
    -- the single-sided variant: the release deletes the nameplate, the duplicate finds none
    (Sys.run stN (Hr1.take 3 ++ [Op.recv 1 14 (.int 3) cmdR])).1.db.nameplates = [] ∧
    (Sys.run stN (Hr1.take 3 ++ [Op.recv 1 14 (.int 3) cmdR] ++ dupR)).1.db =
      (Sys.run stN (Hr1.take 3 ++ [Op.recv 1 14 (.int 3) cmdR])).1.db := by
  decide +kernel

/-! ### open -/

def Ho1 : List Op :=
  [ .connect 1, bind 1 10 "s1", .recv 1 11 (.int 2) (.open_ (some "mb1")),
    .recv 1 12 (.str "m1") (.add (some (.str "pake")) (some (.str "body"))), .connect 2, bind 2 13 "s2" ]
def cmdO : Cmd := .open_ (some "mb1")
def Ho2 : List Op :=
  [ .recv 2 15 (.str "m2") (.add (some (.str "pake")) (some (.str "body2"))), .recv 2 16 (.int 4) (.close none (some "happy")) ]
def dupO : List Op := dup 9 14 (.int 7) (.int 2) "app" "s2" none none (.open_ (some "mb1"))
def xO : Conn := { id := 2, app := some "app", side := some "s2" }

example : (GSys.init cfg 0).WF (Ho1 ++ [Op.recv 2 14 (.int 2) cmdO]) ∧ (∀ op ∈ Ho2, op.isCrash = false) ∧
    (Sys.run (start cfg 0) Ho1).1.findConn 2 = some xO ∧ xO.app = some "app" ∧ xO.side = some "s2" ∧
    Resend xO cmdO (.open_ (some "mb1")) ∧
    Answered ((Sys.run (start cfg 0) Ho1).1.step (.recv 2 14 (.int 2) cmdO)).out 2 (.int 2) cmdO ∧
    CloseGuard (Sys.run (start cfg 0) (Ho1 ++ [Op.recv 2 14 (.int 2) cmdO])).1 14 (.open_ (some "mb1")) ∧
    (∀ y ∈ (Sys.run (start cfg 0) (Ho1 ++ [Op.recv 2 14 (.int 2) cmdO])).1.conns, y.id ≠ 9) :=
  ⟨GSys.wfB_sound (by decide +kernel), by decide, by decide +kernel, rfl, rfl, .open_ _,
    ⟨⟨true, by decide +kernel⟩, by decide +kernel⟩, (fun _ _ h => by cases h), by decide +kernel⟩

/-- evaluated: the original open and the duplicate both get the stored message replayed; equal final databases;
    the live delivery of the later `add` goes to the two real subscribers only -/
example :
    ((Sys.run st (Ho1 ++ [Op.recv 2 14 (.int 2) cmdO] ++ dupO)).2.filter Event.isFrame).drop 7 =
      [.frame 2 (.ack (.int 2)) true,
       .frame 2 (.message "s1" (.str "pake") (.str "body") 12 (.str "m1")) true,
       .frame 9 (.welcome "{}") true, .frame 9 (.ack (.int 7)) true, .frame 9 (.ack (.int 2)) true,
       .frame 9 (.message "s1" (.str "pake") (.str "body") 12 (.str "m1")) true] ∧
    (Sys.run st (Ho1 ++ [Op.recv 2 14 (.int 2) cmdO] ++ dupO ++ Ho2)).1.db =
      (Sys.run st (Ho1 ++ [Op.recv 2 14 (.int 2) cmdO] ++ Ho2)).1.db ∧
    (Sys.run st (Ho1 ++ [Op.recv 2 14 (.int 2) cmdO] ++ Ho2)).1.db.messages.length = 2 ∧
    ((Sys.run st (Ho1 ++ [Op.recv 2 14 (.int 2) cmdO] ++ dupO ++ Ho2)).2.filter Event.isFrame).drop 13 =
      ((Sys.run st (Ho1 ++ [Op.recv 2 14 (.int 2) cmdO] ++ Ho2)).2.filter Event.isFrame).drop 9 := by
  decide +kernel

/-! ### close, the mailbox is deleted by the original -/

def Hg1 : List Op := [ .connect 1, bind 1 10 "s1", .recv 1 11 (.int 2) (.open_ (some "mb1")) ]
/-- `close` without a name on the connection that holds the handle -/
def cmdG : Cmd := .close none (some "happy")
def Hg2 : List Op := [ .connect 2, bind 2 20 "s2", .recv 2 21 (.int 2) (.open_ (some "mb1")), .sweep 30 false ]
def dupG : List Op := dup 9 12 (.int 7) (.int 3) "app" "s1" none none (.close (some "mb1") (some "happy"))
def xG : Conn :=
  { id := 1, app := some "app", side := some "s1", mailbox := some "mb1", mailboxId := some "mb1", listening := true }

example : (GSys.init cfg 0).WF (Hg1 ++ [Op.recv 1 12 (.int 3) cmdG]) ∧ (∀ op ∈ Hg2, op.isCrash = false) ∧
    (Sys.run (start cfg 0) Hg1).1.findConn 1 = some xG ∧ xG.app = some "app" ∧ xG.side = some "s1" ∧
    Resend xG cmdG (.close (some "mb1") (some "happy")) ∧
    Answered ((Sys.run (start cfg 0) Hg1).1.step (.recv 1 12 (.int 3) cmdG)).out 1 (.int 3) cmdG ∧
    CloseGuard (Sys.run (start cfg 0) (Hg1 ++ [Op.recv 1 12 (.int 3) cmdG])).1 12 (.close (some "mb1") (some "happy")) ∧
    (∀ y ∈ (Sys.run (start cfg 0) (Hg1 ++ [Op.recv 1 12 (.int 3) cmdG])).1.conns, y.id ≠ 9) :=
  ⟨GSys.wfB_sound (by decide +kernel), by decide, by decide +kernel, rfl, rfl, .close _ _ _ rfl,
    ⟨true, by decide +kernel⟩, (fun m mood h => by cases h; exact Or.inl (by decide +kernel)), by decide +kernel⟩

/-- evaluated: the duplicate re-creates and re-deletes the mailbox (four commits), is answered `closed`;
    channel databases equal; the usage database has one `mailboxes` row and one `client_versions` row more -/
example :
    (Sys.run st (Hg1 ++ [Op.recv 1 12 (.int 3) cmdG] ++ dupG)).2.drop 10 =
      [.frame 9 (.welcome "{}") true, .frame 9 (.ack (.int 7)) true, .commit .usage,
       .frame 9 (.ack (.int 3)) true, .commit .chan, .commit .chan, .commit .usage, .commit .chan,
       .frame 9 .closed true] ∧
    (Sys.run st (Hg1 ++ [Op.recv 1 12 (.int 3) cmdG] ++ dupG)).1.db = (Sys.run st (Hg1 ++ [Op.recv 1 12 (.int 3) cmdG])).1.db ∧
    (Sys.run st (Hg1 ++ [Op.recv 1 12 (.int 3) cmdG] ++ dupG ++ Hg2)).1.db =
      (Sys.run st (Hg1 ++ [Op.recv 1 12 (.int 3) cmdG] ++ Hg2)).1.db ∧
    (Sys.run st (Hg1 ++ [Op.recv 1 12 (.int 3) cmdG] ++ Hg2)).1.db.mailboxes.length = 1 ∧
    ((Sys.run st (Hg1 ++ [Op.recv 1 12 (.int 3) cmdG] ++ dupG)).1.udb.mailboxes.length,
     (Sys.run st (Hg1 ++ [Op.recv 1 12 (.int 3) cmdG])).1.udb.mailboxes.length) = (2, 1) ∧
    ((Sys.run st (Hg1 ++ [Op.recv 1 12 (.int 3) cmdG] ++ dupG)).1.udb.clients.length,
     (Sys.run st (Hg1 ++ [Op.recv 1 12 (.int 3) cmdG])).1.udb.clients.length) = (2, 1) := by
  decide +kernel

/-! ### close, the mailbox survives; the guard holds (the original close was sent without a handle) -/

def Hs1 : List Op :=
  [ .connect 1, bind 1 10 "s1", .recv 1 11 (.int 2) (.open_ (some "m")), .connect 2, bind 2 12 "s2",
    .recv 2 12 (.int 2) (.open_ (some "m")), .drop 1, .connect 3, bind 3 13 "s1" ]
def cmdS : Cmd := .close (some "m") (some "happy")
def Hs2 : List Op := [ .recv 2 20 (.int 3) (.close none (some "happy")) ]
def dupS : List Op := dup 9 14 (.int 7) (.int 3) "app" "s1" none none cmdS
def xS : Conn := { id := 3, app := some "app", side := some "s1" }

/-- all hypotheses, the guard in its second form: the mailbox survives, two side rows, `updated = t` -/
example : (GSys.init cfg 0).WF (Hs1 ++ [Op.recv 3 14 (.int 3) cmdS]) ∧ (∀ op ∈ Hs2, op.isCrash = false) ∧
    (Sys.run (start cfg 0) Hs1).1.findConn 3 = some xS ∧ xS.app = some "app" ∧ xS.side = some "s1" ∧
    Resend xS cmdS cmdS ∧
    Answered ((Sys.run (start cfg 0) Hs1).1.step (.recv 3 14 (.int 3) cmdS)).out 3 (.int 3) cmdS ∧
    (Sys.run (start cfg 0) (Hs1 ++ [Op.recv 3 14 (.int 3) cmdS])).1.db.HasId "m" ∧
    CloseGuard (Sys.run (start cfg 0) (Hs1 ++ [Op.recv 3 14 (.int 3) cmdS])).1 14 cmdS ∧
    (∀ y ∈ (Sys.run (start cfg 0) (Hs1 ++ [Op.recv 3 14 (.int 3) cmdS])).1.conns, y.id ≠ 9) :=
  ⟨GSys.wfB_sound (by decide +kernel), by decide, by decide +kernel, rfl, rfl, .close _ _ _ rfl,
    ⟨true, by decide +kernel⟩, by decide +kernel,
    (fun m mood h => by cases h; exact Or.inr ⟨by decide +kernel, by decide +kernel⟩), by decide +kernel⟩

example :
    ((Sys.run st (Hs1 ++ [Op.recv 3 14 (.int 3) cmdS] ++ dupS)).2.filter Event.isFrame).drop 10 =
      [.frame 9 (.welcome "{}") true, .frame 9 (.ack (.int 7)) true, .frame 9 (.ack (.int 3)) true,
       .frame 9 .closed true] ∧
    (Sys.run st (Hs1 ++ [Op.recv 3 14 (.int 3) cmdS] ++ dupS)).1.db = (Sys.run st (Hs1 ++ [Op.recv 3 14 (.int 3) cmdS])).1.db ∧
    (Sys.run st (Hs1 ++ [Op.recv 3 14 (.int 3) cmdS])).1.db.mailboxes = [⟨"app", "m", 14, false⟩] ∧
    (Sys.run st (Hs1 ++ [Op.recv 3 14 (.int 3) cmdS] ++ dupS ++ Hs2)).1.db =
      (Sys.run st (Hs1 ++ [Op.recv 3 14 (.int 3) cmdS] ++ Hs2)).1.db := by
  decide +kernel

/-! ### K-close-touch -/

def E : Time := Generated.expirationTicks

/-- s1 and s2 open "m" at t = 100, s2 stores a message -/
def Ht1 : List Op :=
  [ .connect 1, bind 1 90 "s1", .connect 2, bind 2 95 "s2", .recv 1 100 (.int 2) (.open_ (some "m")),
    .recv 2 100 (.int 2) (.open_ (some "m")),
    .recv 2 100 (.str "m1") (.add (some (.str "pake")) (some (.str "body"))) ]
/-- s1 closes at t = 200 on the connection that holds the handle: `updated` stays 100 -/
def cmdT : Cmd := .close none (some "happy")
def dupT : List Op := dup 9 200 (.int 7) (.int 3) "app" "s1" none none (.close (some "m") (some "happy"))
/-- s2's connection is lost; the sweep at `100 + expiration` runs; s2 comes back and opens "m" -/
def Ht2 : List Op :=
  [ .drop 2, .sweep (100 + E) false, .connect 3, bind 3 (101 + E) "s2", .recv 3 (102 + E) (.int 2) (.open_ (some "m")) ]
def xT : Conn :=
  { id := 1, app := some "app", side := some "s1", mailbox := some "m", mailboxId := some "m", listening := true }

/-- the hypotheses of `C14_close_survives_step` hold in the K-close-touch scenario -/
example : (GSys.init cfgN 0).WF (Ht1 ++ [Op.recv 1 200 (.int 3) cmdT]) ∧
    (Sys.run (start cfgN 0) Ht1).1.findConn 1 = some xT ∧ xT.app = some "app" ∧ xT.side = some "s1" ∧
    xT.closeTarget none = some "m" ∧
    Answered ((Sys.run (start cfgN 0) Ht1).1.step (.recv 1 200 (.int 3) cmdT)).out 1 (.int 3) cmdT ∧
    (Sys.run (start cfgN 0) (Ht1 ++ [Op.recv 1 200 (.int 3) cmdT])).1.db.HasId "m" ∧
    ((Sys.run (start cfgN 0) (Ht1 ++ [Op.recv 1 200 (.int 3) cmdT])).1.db.mbSidesOf "m").length ≤ 2 ∧
    (∀ y ∈ (Sys.run (start cfgN 0) (Ht1 ++ [Op.recv 1 200 (.int 3) cmdT])).1.conns, y.id ≠ 9) :=
  ⟨GSys.wfB_sound (by decide +kernel), by decide +kernel, rfl, rfl, by decide, ⟨true, by decide +kernel⟩,
    by decide +kernel, by decide +kernel, by decide +kernel⟩

/-- **C14_close_touch_counterexample** (finding K-close-touch).  Every hypothesis of
    `C14_duplicate_harmless_partial` holds — well-formed history, crash-free tail, the close is answered
    `closed`, fresh connection id, at most two side rows — EXCEPT part (b) of the guard: the surviving
    row's `updated` is 100, not `t = 200`.  The duplicate is answered `closed` like the original, but
    * right after it the channel databases differ in exactly that column (200 vs 100);
    * the sweep at `100 + expirationTicks` deletes the mailbox (and s2's message) in the run WITHOUT
      the duplicate and keeps it in the run WITH it;
    * the later `open` of "m" is answered with the replay of the message in the run with the duplicate
      and with no message in the run without: conclusions (ii) and (iii) of the full statement fail. -/
theorem _root_.Wormhole.C14_close_touch_counterexample :
    (GSys.init cfgN 0).WF (Ht1 ++ [Op.recv 1 200 (.int 3) cmdT]) ∧ (∀ op ∈ Ht2, op.isCrash = false) ∧
    (Sys.run stN Ht1).1.findConn 1 = some xT ∧ Resend xT cmdT (.close (some "m") (some "happy")) ∧
    Answered ((Sys.run stN Ht1).1.step (.recv 1 200 (.int 3) cmdT)).out 1 (.int 3) cmdT ∧
    (∀ y ∈ (Sys.run stN (Ht1 ++ [Op.recv 1 200 (.int 3) cmdT])).1.conns, y.id ≠ 9) ∧
    ((Sys.run stN (Ht1 ++ [Op.recv 1 200 (.int 3) cmdT])).1.db.mbSidesOf "m").length ≤ 2 ∧
    ¬ CloseGuard (Sys.run stN (Ht1 ++ [Op.recv 1 200 (.int 3) cmdT])).1 200 (.close (some "m") (some "happy")) ∧
    -- same answer
    ((Sys.run stN (Ht1 ++ [Op.recv 1 200 (.int 3) cmdT] ++ dupT)).2.filter Event.isFrame).drop 9 =
      [.frame 1 (.ack (.int 3)) true, .frame 1 .closed true,
       .frame 9 (.welcome "{}") true, .frame 9 (.ack (.int 7)) true, .frame 9 (.ack (.int 3)) true,
       .frame 9 .closed true] ∧
    -- the one column
    (Sys.run stN (Ht1 ++ [Op.recv 1 200 (.int 3) cmdT])).1.db.mailboxes = [⟨"app", "m", 100, false⟩] ∧
    (Sys.run stN (Ht1 ++ [Op.recv 1 200 (.int 3) cmdT] ++ dupT)).1.db.mailboxes = [⟨"app", "m", 200, false⟩] ∧
    -- the sweep
    (Sys.run stN (Ht1 ++ [Op.recv 1 200 (.int 3) cmdT] ++ dupT ++ Ht2.take 2)).1.db.mailboxes.length = 1 ∧
    (Sys.run stN (Ht1 ++ [Op.recv 1 200 (.int 3) cmdT] ++ Ht2.take 2)).1.db.mailboxes.length = 0 ∧
    -- the later answer and the final tables
    Event.frame 3 (.message "s2" (.str "pake") (.str "body") 100 (.str "m1")) true ∈
      (Sys.run stN (Ht1 ++ [Op.recv 1 200 (.int 3) cmdT] ++ dupT ++ Ht2)).2 ∧
    Event.frame 3 (.message "s2" (.str "pake") (.str "body") 100 (.str "m1")) true ∉
      (Sys.run stN (Ht1 ++ [Op.recv 1 200 (.int 3) cmdT] ++ Ht2)).2 ∧
    (Sys.run stN (Ht1 ++ [Op.recv 1 200 (.int 3) cmdT] ++ dupT ++ Ht2)).1.db ≠
      (Sys.run stN (Ht1 ++ [Op.recv 1 200 (.int 3) cmdT] ++ Ht2)).1.db :=
  ⟨GSys.wfB_sound (by decide +kernel), by decide, by decide +kernel, .close _ _ _ rfl, ⟨true, by decide +kernel⟩,
    by decide +kernel, by decide +kernel,
    fun h => by
      rcases h "m" (some "happy") rfl with h | ⟨_, h⟩
      · exact h (by decide +kernel)
      · exact absurd (h ⟨"app", "m", 100, false⟩ (by decide +kernel) rfl) (by decide),
    by decide +kernel, by decide +kernel, by decide +kernel, by decide +kernel, by decide +kernel,
    by decide +kernel, by decide +kernel, by decide +kernel⟩

/-! ### K-crowded-rejoin -/

/-- s1 and s2 open "m"; a third side s3 opens it too (answered `crowded`, its side row stays); s1 closes
    on its handle (answered `closed`, the mailbox survives) -/
def Hk1 : List Op :=
  [ .connect 1, bind 1 90 "s1", .connect 2, bind 2 95 "s2", .recv 1 100 (.int 2) (.open_ (some "m")),
    .recv 2 100 (.int 2) (.open_ (some "m")), .connect 3, bind 3 110 "s3", .recv 3 120 (.int 2) (.open_ (some "m")) ]

/-- **C14_close_crowded_counterexample** (finding K-crowded-rejoin).  Part (a) of the guard fails: the
    mailbox has three side rows.  The original close of s1 — one of the first two sides — is answered
    `closed`; the re-sent close is answered `crowded`. -/
theorem _root_.Wormhole.C14_close_crowded_counterexample :
    (GSys.init cfg 0).WF (Hk1 ++ [Op.recv 1 200 (.int 3) cmdT]) ∧
    Answered ((Sys.run st Hk1).1.step (.recv 1 200 (.int 3) cmdT)).out 1 (.int 3) cmdT ∧
    ((Sys.run st (Hk1 ++ [Op.recv 1 200 (.int 3) cmdT])).1.db.mbSidesOf "m").length = 3 ∧
    ((Sys.run st (Hk1 ++ [Op.recv 1 200 (.int 3) cmdT] ++ dupT)).2.filter Event.isFrame).drop 10 =
      [.frame 1 (.ack (.int 3)) true, .frame 1 .closed true,
       .frame 9 (.welcome "{}") true, .frame 9 (.ack (.int 7)) true, .frame 9 (.ack (.int 3)) true,
       .frame 9 (.error "crowded") true] :=
  ⟨GSys.wfB_sound (by decide +kernel), ⟨true, by decide +kernel⟩, by decide +kernel, by decide +kernel⟩

/-- s1 and s2 claim nameplate "4" and open its mailbox; a third side opens the mailbox (`crowded`);
    later s1 reconnects -/
def Hq : List Op :=
  [ .connect 1, bind 1 10 "s1", .recv 1 11 (.int 2) (.claim (some "4") "mb1"), .recv 1 12 (.int 3) (.open_ (some "mb1")),
    .connect 2, bind 2 13 "s2", .recv 2 14 (.int 2) (.claim (some "4") "mb2"), .recv 2 15 (.int 3) (.open_ (some "mb1")),
    .connect 3, bind 3 16 "s3", .recv 3 17 (.int 2) (.open_ (some "mb1")),
    .connect 4, bind 4 18 "s1" ]

/-- **C14_claim_crowded_counterexample** (finding K-crowded-rejoin, the variant for `claim`).  For a claim
    re-sent IMMEDIATELY the guard is implied (`C14_duplicate_harmless_partial` has none).  Re-sent LATER —
    after a third side has touched the mailbox — the claim of s1, one of the first two sides, whose
    original claim was answered `claimed "mb1"`, is answered `crowded`. -/
theorem _root_.Wormhole.C14_claim_crowded_counterexample :
    (GSys.init cfg 0).WF (Hq ++ [Op.recv 4 19 (.int 2) (.claim (some "4") "mb9")]) ∧
    Event.frame 1 (.claimed "mb1") true ∈ (Sys.run st Hq).2 ∧
    Event.frame 3 (.error "crowded") true ∈ (Sys.run st Hq).2 ∧
    ((Sys.run st Hq).1.step (.recv 4 19 (.int 2) (.claim (some "4") "mb9"))).out.filter Event.isFrame =
      [.frame 4 (.ack (.int 2)) true, .frame 4 (.error "crowded") true] :=
  ⟨GSys.wfB_sound (by decide +kernel), by decide +kernel, by decide +kernel, by decide +kernel⟩

end C14Ex

end Wormhole

#print axioms Wormhole.C14_claim_idempotent
#print axioms Wormhole.C14_release_idempotent
#print axioms Wormhole.C14_open_idempotent
#print axioms Wormhole.C14_close_gone_idempotent
#print axioms Wormhole.C14_close_survived_touch
#print axioms Wormhole.C14_resend_exists
#print axioms Wormhole.C14_duplicate_harmless_partial
#print axioms Wormhole.C14_close_survives_step
#print axioms Wormhole.Sys.dup_close_crowded
#print axioms Wormhole.DupSim_step
#print axioms Wormhole.DupSim_run
#print axioms Wormhole.C14_close_touch_counterexample
#print axioms Wormhole.C14_close_crowded_counterexample
#print axioms Wormhole.C14_claim_crowded_counterexample
#print axioms Wormhole.Sys.dup_prefix
#print axioms Wormhole.Sys.dup_claim
#print axioms Wormhole.Sys.dup_release
#print axioms Wormhole.Sys.dup_open
#print axioms Wormhole.Sys.dup_close_gone
#print axioms Wormhole.Sys.dup_close_survived
#print axioms Wormhole.Sys.orig_claim
#print axioms Wormhole.Sys.orig_release
#print axioms Wormhole.Sys.orig_open
#print axioms Wormhole.Sys.orig_close
#print axioms Wormhole.dup_after_op
