/-
  C13 — idle channels are swept completely and the store returns to empty.

  * `C13_sweep_complete`   after a non-faulted sweep nothing is left of any mailbox row that was
                           `Old` (not updated after `now - expirationTicks`, no subscriber), in ANY app;
  * `C13_quiesce`          no live connection, every row stamped `≤ T`, one sweep at
                           `now ≥ T + expirationTicks`: all five tables are EMPTY — from every state
                           satisfying the invariant (which is what every well-formed history,
                           crashes included, leads to);
  * `C13_loop_survives`    a faulted firing changes neither the channel database nor the connections,
                           emits `fired`, one logged `OperationalError` (and the usage commit of
                           `dump_stats`), and leaves the invariant intact: the next firing is an
                           ordinary one;
  * `C13_quiesce_after_faults`, `C13_empty_by_deadline`   after any number of faulted firings the
                           next good one empties the store; with firings `periodTicks` apart that
                           happens before `T + expirationTicks + periodTicks * (1 + #faults)`;
  * `C13_status_row`       (for C15) the `current` row of the usage database after any sweep.
-/
import Wormhole.Props.C12
import Wormhole.Inv.WFDec

namespace Wormhole
open Generated

/-! ## C13_sweep_complete -/

theorem Sys.sweep_complete {s : Sys} (h : s.db.CInv) (now : Time) {m : MailboxRow} (ho : s.Old now m) :
    (∀ m' ∈ (s.step (.sweep now false)).db.mailboxes, m'.id ≠ m.id) ∧
    (∀ r ∈ (s.step (.sweep now false)).db.messages, r.mailbox ≠ m.id) ∧
    (∀ r ∈ (s.step (.sweep now false)).db.mbSides, r.mailbox ≠ m.id) ∧
    (∀ n ∈ (s.step (.sweep now false)).db.nameplates, n.mailbox ≠ m.id) ∧
    (∀ n ∈ s.db.nameplates, n.mailbox = m.id →
      ∀ r ∈ (s.step (.sweep now false)).db.npSides, r.npid ≠ n.id) := by
  obtain ⟨hd, _⟩ := Sys.step_sweep_spec h now
  rw [hd]
  exact Chan.sweepP_complete ho.1 (Sys.dead_of_old ho)

/-- **C13_sweep_complete.**  After `sweep now` (not faulted) from a state satisfying the invariant:
    of a mailbox row — of ANY app — that was not updated after `now - expirationTicks` and has no
    subscriber, nothing remains: no mailbox row with its id, none of its messages, none of its
    side rows, no nameplate pointing at it, no side row of such a nameplate. -/
theorem C13_sweep_complete {g : GSys} (hI : g.GInv) (now : Time) {m : MailboxRow}
    (hm : m ∈ g.sys.db.mailboxes) (hold : m.updated ≤ now - expirationTicks) (hns : ¬ g.sys.Subscribed m) :
    (∀ m' ∈ (g.step (.sweep now false)).sys.db.mailboxes, m'.id ≠ m.id) ∧
    (∀ r ∈ (g.step (.sweep now false)).sys.db.messages, r.mailbox ≠ m.id) ∧
    (∀ r ∈ (g.step (.sweep now false)).sys.db.mbSides, r.mailbox ≠ m.id) ∧
    (∀ n ∈ (g.step (.sweep now false)).sys.db.nameplates, n.mailbox ≠ m.id) ∧
    (∀ n ∈ g.sys.db.nameplates, n.mailbox = m.id →
      ∀ r ∈ (g.step (.sweep now false)).sys.db.npSides, r.npid ≠ n.id) :=
  Sys.sweep_complete hI.cinv now ⟨hm, hold, hns⟩

/-! ## C13_quiesce -/

/-- the five channel tables are empty -/
def Chan.Empty (d : Chan) : Prop :=
  d.nameplates = [] ∧ d.npSides = [] ∧ d.mailboxes = [] ∧ d.mbSides = [] ∧ d.messages = []

instance (d : Chan) : Decidable d.Empty := by unfold Chan.Empty; infer_instance

theorem le_cutoff {T now u : Int} (h1 : u ≤ T) (h2 : T + expirationTicks ≤ now) : u ≤ now - expirationTicks := by
  omega

theorem Sys.quiesce {s : Sys} (h : s.db.CInv) (hc : s.conns = []) {T : Time}
    (hT : ∀ m ∈ s.db.mailboxes, m.updated ≤ T) {now : Time} (hnow : T + expirationTicks ≤ now) :
    (s.step (.sweep now false)).db.Empty ∧ (s.step (.sweep now false)).db.nextNp = s.db.nextNp ∧
    (s.step (.sweep now false)).conns = [] := by
  obtain ⟨hd, hf⟩ := Sys.step_sweep_spec h now
  rw [hd, hf.conns]
  refine ⟨Chan.sweepP_empty h.toPInv ?_, rfl, hc⟩
  intro m hm
  apply Sys.dead_of_old
  refine ⟨hm, le_cutoff (hT m hm) hnow, ?_⟩
  rintro ⟨x, hx, _⟩
  rw [hc] at hx; cases hx

/-- **C13_quiesce.**  From EVERY state satisfying the invariant — whatever history led to it, crashes
    included — in which no client is connected and every mailbox row carries a stamp `≤ T`: one
    non-faulted sweep at a time `now ≥ T + expirationTicks` leaves all five channel tables empty
    (the AUTOINCREMENT counter is the only thing that remembers the past). -/
theorem C13_quiesce {g : GSys} (hI : g.GInv) (hc : g.sys.conns = []) {T : Time}
    (hT : ∀ m ∈ g.sys.db.mailboxes, m.updated ≤ T) {now : Time} (hnow : T + expirationTicks ≤ now) :
    (g.step (.sweep now false)).sys.db.Empty ∧
    (g.step (.sweep now false)).sys.db.nextNp = g.sys.db.nextNp ∧
    (g.step (.sweep now false)).sys.conns = [] :=
  Sys.quiesce hI.cinv hc hT hnow

/-- with the clock of the ghost state as `T` (no row is stamped later than the clock) -/
theorem C13_quiesce_clock {g : GSys} (hI : g.GInv) (hc : g.sys.conns = []) {now : Time}
    (hnow : g.clock + expirationTicks ≤ now) : (g.step (.sweep now false)).sys.db.Empty :=
  (C13_quiesce hI hc hI.clockMb hnow).1

/-! ## C13_loop_survives -/

/-- **C13_loop_survives.**  A firing whose first database access raises (`sweep now true`):
    * the channel database, the connections, the configuration are untouched;
    * the events are exactly `fired`, one `internal none "OperationalError"` (the logged failure —
      nothing escapes) and the usage commit of `dump_stats` if that changed the usage file;
    * the state still satisfies what a sweep needs (`SwInv`), and the whole invariant `GInv` if the
      firing time is not before the clock (`WFOp`) — so the next firing is an ordinary sweep, to which
      `C12_*`, `C13_sweep_complete`, `C13_quiesce` apply. -/
theorem C13_loop_survives {g : GSys} (hI : g.GInv) (now : Time) :
    (g.step (.sweep now true)).sys.db = g.sys.db ∧
    (g.step (.sweep now true)).sys.conns = g.sys.conns ∧
    (g.step (.sweep now true)).sys.cfg = g.sys.cfg ∧
    (g.step (.sweep now true)).sys.out =
      [.fired now (now - expirationTicks), .internal none "OperationalError"] ++
        (if g.sys.cfg.usage = true ∧
            ({ g.sys.udb with current :=
                [⟨g.sys.rebooted, now, g.sys.cfg.blur, (g.sys.conns.filter (·.listening)).length⟩] } : Usage)
              ≠ g.sys.udisk
         then [.commit .usage] else []) ∧
    (g.step (.sweep now true)).sys.SwInv ∧
    (g.WFOp (.sweep now true) → (g.step (.sweep now true)).GInv) := by
  obtain ⟨hd, hf⟩ := Sys.step_sweep_fault g.sys now
  exact ⟨hd, hf.conns, hf.cfg, Sys.step_sweep_fault_out g.sys now, hI.swInv.step_sweep now true,
    fun hw => hI.step_sweep hw⟩

/-- a non-faulted firing from a state satisfying the invariant raises nothing: its events are
    `fired` followed by commits only (no `internal` event) and it keeps the invariant -/
theorem C13_sweep_no_failure {g : GSys} (hI : g.GInv) (now : Time) :
    (∃ l, (g.step (.sweep now false)).sys.out = .fired now (now - expirationTicks) :: l ∧
      ∀ e ∈ l, Sys.IsCommit e) ∧
    (g.step (.sweep now false)).sys.SwInv ∧
    (g.WFOp (.sweep now false) → (g.step (.sweep now false)).GInv) :=
  ⟨Sys.step_sweep_out hI.cinv now, hI.swInv.step_sweep now false, fun hw => hI.step_sweep hw⟩

/-! ### after `k` faulted firings the next good one empties the store -/

def Op.isFaultedFiring : Op → Bool
  | .sweep _ true => true
  | _ => false

namespace Sys

theorem sweep_run_append (s : Sys) (l1 l2 : List Op) : (s.run (l1 ++ l2)).1 = ((s.run l1).1.run l2).1 := by
  induction l1 generalizing s with
  | nil => rfl
  | cons op rest ih => simp only [List.cons_append, sweep_run_cons]; exact ih _

theorem run_faulted (ops : List Op) (hops : ∀ op ∈ ops, op.isFaultedFiring = true) :
    ∀ {s : Sys}, s.SwInv → (s.run ops).1.SwInv ∧ (s.run ops).1.db = s.db ∧ (s.run ops).1.conns = s.conns := by
  induction ops with
  | nil => intro s h; exact ⟨h, rfl, rfl⟩
  | cons op rest ih =>
    intro s h
    rw [sweep_run_cons]
    cases op with
    | sweep now fault =>
      cases fault with
      | false => have := hops _ (List.mem_cons_self); simp [Op.isFaultedFiring] at this
      | true =>
        obtain ⟨h1, h2, h3⟩ := ih (fun o ho => hops o (by simp [ho])) (h.step_sweep now true)
        obtain ⟨hd, hf⟩ := step_sweep_fault s now
        exact ⟨h1, h2.trans hd, h3.trans hf.conns⟩
    | _ => have := hops _ (List.mem_cons_self); simp [Op.isFaultedFiring] at this

end Sys

/-- **C13_quiesce_after_faults.**  Quiescent state as in `C13_quiesce`; any number of faulted firings
    (at any times) followed by one good firing at `now ≥ T + expirationTicks`: the store is empty. -/
theorem C13_quiesce_after_faults {g : GSys} (hI : g.GInv) (hc : g.sys.conns = []) {T : Time}
    (hT : ∀ m ∈ g.sys.db.mailboxes, m.updated ≤ T) (faults : List Op)
    (hf : ∀ op ∈ faults, op.isFaultedFiring = true) {now : Time} (hnow : T + expirationTicks ≤ now) :
    (g.run (faults ++ [.sweep now false])).sys.db.Empty := by
  rw [GSys.run_sys, Sys.sweep_run_append]
  obtain ⟨h1, h2, h3⟩ := Sys.run_faulted faults hf hI.swInv
  have : ((g.sys.run faults).1.run [.sweep now false]).1 = (g.sys.run faults).1.step (.sweep now false) := by
    simp [Sys.run]
  rw [this]
  exact (Sys.quiesce h1.cinv (h3.trans hc) (by rw [h2]; exact hT) hnow).1

/-- the firings of the service timer from `f` on: one every `periodTicks`; the first `k` fail, the
    next one does not -/
theorem firing_time_succ (f : Int) (k : Nat) :
    f + periodTicks + (k : Int) * periodTicks = f + ((k + 1 : Nat) : Int) * periodTicks := by
  rw [Int.natCast_succ, Int.add_mul, Int.one_mul]; omega

theorem firing_time_ge {T f : Int} (k : Nat) (hf : T + expirationTicks ≤ f) :
    T + expirationTicks ≤ f + (k : Int) * periodTicks := by
  have : (0 : Int) ≤ k * periodTicks := Int.mul_nonneg (Int.natCast_nonneg k) (Int.le_of_lt sweep_periodTicks_pos)
  omega

def timerFirings (f : Time) : Nat → List Op
  | 0 => [.sweep f false]
  | k + 1 => .sweep f true :: timerFirings (f + periodTicks) k

theorem timerFirings_eq (f : Time) (k : Nat) :
    ∃ faults, timerFirings f k = faults ++ [.sweep (f + k * periodTicks) false] ∧
      ∀ op ∈ faults, op.isFaultedFiring = true := by
  induction k generalizing f with
  | zero => exact ⟨[], by simp [timerFirings], by simp⟩
  | succ k ih =>
    obtain ⟨l, e, hl⟩ := ih (f + periodTicks)
    refine ⟨.sweep f true :: l, ?_, ?_⟩
    · simp only [timerFirings, e, List.cons_append, List.cons.injEq, true_and, List.append_cancel_left_eq,
        Op.sweep.injEq, and_true]
      exact firing_time_succ f k
    · intro op ho
      rcases List.mem_cons.1 ho with rfl | ho
      · rfl
      · exact hl op ho

/-- the deadline: if `f` is the first firing at or after `T + expirationTicks` (so
    `f < T + expirationTicks + periodTicks`), the firing after `k` failures happens before
    `T + expirationTicks + periodTicks * (1 + k)` -/
theorem C13_deadline_arith {T f : Int} (k : Nat) (h : f < T + expirationTicks + periodTicks) :
    f + k * periodTicks < T + expirationTicks + periodTicks * (1 + k) := by
  rw [Int.mul_add, Int.mul_one, Int.mul_comm periodTicks k]
  omega

/-- **C13_empty_by_deadline.**  No client connected, every row stamped `≤ T`; the timer fires at
    `f, f + P, f + 2P, …` with `T + E ≤ f` (`P = periodTicks`, `E = expirationTicks`); the first `k`
    of these firings fail, the next does not.  Then the store is empty after that firing, which takes
    place at `f + k·P` — before `T + E + P·(1 + k)` when `f` is the first firing not before `T + E`. -/
theorem C13_empty_by_deadline {g : GSys} (hI : g.GInv) (hc : g.sys.conns = []) {T : Time}
    (hT : ∀ m ∈ g.sys.db.mailboxes, m.updated ≤ T) {f : Time} (hf : T + expirationTicks ≤ f) (k : Nat) :
    (g.run (timerFirings f k)).sys.db.Empty ∧
    (f < T + expirationTicks + periodTicks →
      f + k * periodTicks < T + expirationTicks + periodTicks * (1 + k)) := by
  obtain ⟨faults, e, hl⟩ := timerFirings_eq f k
  rw [e]
  exact ⟨C13_quiesce_after_faults hI hc hT faults hl (firing_time_ge k hf), C13_deadline_arith k⟩


/-- **C13_quiesce_reach.**  The same for every REACHABLE state (`GSys.Reach.ginv`, Inv/Main.lean): after
    any well-formed history — crashes, restarts, crowding, errors, anything — once no client is connected,
    a sweep at or after `clock + expirationTicks` (the clock is the time of the last operation) leaves the
    channel database empty. -/
theorem C13_quiesce_reach {g : GSys} (hg : g.Reach) (hc : g.sys.conns = []) {now : Time}
    (hnow : g.clock + expirationTicks ≤ now) : (g.step (.sweep now false)).sys.db.Empty :=
  C13_quiesce_clock hg.ginv hc hnow

/-- ... and with `k` failed firings before the good one, `periodTicks` apart -/
theorem C13_empty_by_deadline_reach {g : GSys} (hg : g.Reach) (hc : g.sys.conns = []) {f : Time}
    (hf : g.clock + expirationTicks ≤ f) (k : Nat) : (g.run (timerFirings f k)).sys.db.Empty :=
  (C13_empty_by_deadline hg.ginv hc hg.ginv.clockMb hf k).1

/-! ## the status row (for C15) -/

/-- **C13_status_row.**  After any sweep with a usage database, `current` holds exactly one row:
    boot time, the time of this firing, the configured blur, the number of subscribed connections. -/
theorem C13_status_row {g : GSys} (hI : g.GInv) (hu : g.sys.cfg.usage = true) (now : Time) (fault : Bool) :
    (g.step (.sweep now fault)).sys.udb.current =
      [⟨g.sys.rebooted, now, g.sys.cfg.blur, (g.sys.conns.filter (·.listening)).length⟩] := by
  show (g.sys.step (.sweep now fault)).udb.current = _
  rw [Sys.step_sweep]
  cases fault with
  | true =>
    rw [Sys.expire_fault]
    exact Sys.dumpStats_current _ _ hu
  | false =>
    obtain ⟨_, _, s1, hp, he⟩ := Sys.expire_db (s := { g.sys with out := [], snaps := [] }) hI.cinv now
    obtain ⟨_, hf⟩ := Sys.pruneApps_db _ hp
    rw [he, Sys.dumpStats_current _ _ (by rw [hf.cfg]; exact hu), hf.rebooted, hf.cfg, hf.conns]
    rfl

/-! ## Non-vacuity (the example state of Props/C12.lean: two apps, old / new / subscribed / idle) -/

namespace SweepExample

/-- `C13_sweep_complete`: "old" (app A) and "idle" (app B) satisfy the hypotheses -/
example : rOld ∈ g.sys.db.mailboxes ∧ rOld.updated ≤ now - expirationTicks ∧ ¬ g.sys.Subscribed rOld := by
  decide
example := C13_sweep_complete g_ginv now (m := rOld) (by decide) (by decide) (by decide)
example := C13_sweep_complete g_ginv now (m := rIdle) (by decide) (by decide) (by decide)

/-- the same database after all clients have gone -/
def g0 : GSys := ⟨{ sys with conns := [] }, E + 100, ["old", "new", "sub", "idle"]⟩

theorem g0_ginv : g0.GInv where
  cinv := g_ginv.cinv
  conn := { ids := by decide, handle := by decide, listen := by decide, bound := by decide }
  synced := ⟨rfl, rfl⟩
  used := g_ginv.used
  usedConn := by decide
  clockMb := g_ginv.clockMb

/-- `C13_quiesce`: no connection, every row stamped `≤ E + 100`, firing at `2E + 100` -/
example : g0.sys.conns = [] ∧ (∀ m ∈ g0.sys.db.mailboxes, m.updated ≤ E + 100) ∧
    E + 100 + expirationTicks ≤ 2 * E + 100 ∧ ¬ g0.sys.db.Empty := by decide
example := C13_quiesce g0_ginv rfl (T := E + 100) (by decide) (now := 2 * E + 100) (by decide)
-- the model itself, executed: empty after that sweep, not empty after one a tick earlier
#guard decide ((g0.step (.sweep (2 * E + 100) false)).sys.db.Empty)
#guard decide (¬ (g0.step (.sweep (2 * E + 99) false)).sys.db.Empty)
-- and with the subscriber still connected the store does not become empty
#guard decide (¬ (g.step (.sweep (2 * E + 100) false)).sys.db.Empty)

/-- `C13_loop_survives`: with the usage database of the example the faulted firing emits three events -/
example := C13_loop_survives g_ginv now
example : g.WFOp (.sweep now true) where
  connFresh := by intro c h; cases h
  mono := by intro t h; cases h; decide
  idFresh := by intro f h; cases h
  crashPlain := by intro k o h; cases h
#guard decide ((g.step (.sweep now true)).sys.out =
  [.fired now (now - expirationTicks), .internal none "OperationalError", .commit .usage])

example := C13_sweep_no_failure g_ginv now

/-- `C13_quiesce_after_faults` / `C13_empty_by_deadline`: two failures, then a good firing -/
example : ∀ op ∈ [Op.sweep (2 * E + 100) true, Op.sweep (2 * E + 100 + P) true], op.isFaultedFiring = true := by
  decide
example := C13_quiesce_after_faults g0_ginv rfl (T := E + 100) (by decide)
  [.sweep (2 * E + 100) true, .sweep (2 * E + 100 + P) true] (by decide) (now := 2 * E + 100 + 2 * P) (by decide)
example := C13_empty_by_deadline g0_ginv rfl (T := E + 100) (by decide) (f := 2 * E + 100) (by decide) 2
#guard decide ((g0.run (timerFirings (2 * E + 100) 2)).sys.db.Empty)


/-- `C13_quiesce_reach`: a history from the initial state — two sides meet on a nameplate, exchange a
    message, one closes, the process crashes inside the other's `add`, comes back, a client reconnects
    and leaves — then nobody is connected; the history is well-formed, the final state is not empty,
    and the sweep `expirationTicks` after the last operation empties it -/
def hist : List Op :=
  [.connect 1, .recv 1 10 (.int 1) (.bind (some "A") (some "s1") none none),
   .recv 1 11 (.int 2) (.claim (some "4") "m1"), .recv 1 12 (.int 3) (.open_ (some "m1")),
   .connect 2, .recv 2 13 (.int 1) (.bind (some "A") (some "s2") none none),
   .recv 2 14 (.int 2) (.claim (some "4") "m2"), .recv 2 15 (.int 3) (.open_ (some "m1")),
   .recv 1 16 (.int 4) (.add (some (.str "pake")) (some (.str "x"))),
   .recv 1 17 (.int 5) (.close none (some "happy")),
   .crashIn 1 (.recv 2 18 (.int 4) (.add (some (.str "pake")) (some (.str "y")))),
   .restart 20, .connect 3, .recv 3 21 (.int 1) (.bind (some "B") (some "s1") none none),
   .recv 3 22 (.int 2) (.open_ (some "zz")), .drop 3]
def gH : GSys := (GSys.init { usage := true } 0).run hist
theorem gH_reach : gH.Reach := GSys.reach_of_wfB _ _ hist (by decide +kernel)
#guard decide (gH.sys.conns = [] ∧ ¬ gH.sys.db.Empty ∧ gH.clock = 22)
example : gH.sys.conns = [] := by decide +kernel
example : (gH.step (.sweep (22 + expirationTicks) false)).sys.db.Empty :=
  C13_quiesce_reach gH_reach (by decide +kernel) (by
    have : gH.clock = 22 := by decide +kernel
    rw [this]; exact Int.le_refl _)
#guard decide ((gH.step (.sweep (22 + expirationTicks) false)).sys.db.Empty)

/-- `C13_status_row`: the example has a usage database; one subscribed connection -/
example : g.sys.cfg.usage = true := rfl
example : (g.step (.sweep now false)).sys.udb.current = [⟨0, now, none, 1⟩] :=
  C13_status_row g_ginv rfl now false

end SweepExample

end Wormhole

#print axioms Wormhole.C13_sweep_complete
#print axioms Wormhole.C13_quiesce
#print axioms Wormhole.C13_quiesce_clock
#print axioms Wormhole.C13_loop_survives
#print axioms Wormhole.C13_sweep_no_failure
#print axioms Wormhole.C13_quiesce_after_faults
#print axioms Wormhole.C13_deadline_arith
#print axioms Wormhole.C13_empty_by_deadline
#print axioms Wormhole.C13_quiesce_reach
#print axioms Wormhole.C13_empty_by_deadline_reach
#print axioms Wormhole.C13_status_row
