/-
  C17 at the JSON level: the `Cmd`-level theorems of Props/C17.lean composed with the decoder
  (`Wormhole/Decode.lean`, theorems in Props/Decode.lean).  Answers AUDIT_B item P5 ("statements stop at
  `Cmd`; the JSON-level clauses are not composed") and records, for item P1, which clauses of the
  property text are NOT carried by the model.

  What a "received JSON object" is here: `o : JObj`, the list of `key: value` pairs of the text
  (`jget o k` = `msg.get(k)`, last occurrence wins); the command the model steps on is
  `decodeCmd o p d f` and the id is `decodeId o` (`p d f` = the random choices of the step, inputs of
  the history).  Every theorem is for ALL states `s : Sys` with a live connection `c`
  (`s.findConn c = some x`, the only hypothesis the underlying C17 theorems take -- no reachability or
  invariant is needed), all objects, all times, all random choices.

    * `decodeCmd_noType_iff`          the decoded command is `.noType` iff the object has no "type" key
    * `decodeId_eq`, `decodeId_representable`
                                      `decodeId o` IS the object's "id" (null when absent); for an object
                                      in the domain that has a "type" the id is representable, so the
                                      `.getD .null` default inside `decodeId` is never what is echoed
    * `C17_json_ack_first`            every object in the domain with a "type" key: first event = `ack`
      `C17_json_ack_first_domain`     echoing the object's id (the `InDomain` form: the decoder answers)
    * `C17_json_no_type`              no "type" key (whatever else, in the domain or not): exactly one
                                      `error "missing 'type'"` frame, no ack, state unchanged
    * `C17_json_ping`                 {"type":"ping","ping":v,…}: exactly `[ack id, pong v]`, bound or not
      `C17_json_ping_literal(_id)`    the literal objects `{"type":"ping","ping":v}` / with an "id"
    * `C17_json_rejected_unchanged`   decoded command `Rejected` in the connection's state: exactly
      `C17_json_rejected_text`        `[ack (id)?, error text]` to the sender only, whole state unchanged
    * `C17_oracle_only_clauses`       see below

  DOMAIN RESTRICTION (not fixable without changing the model type `Val`, which has only null / string /
  integer).  For an object that has a "type" key the decoder returns `none` when "id" is a bool, float,
  array or object, and for type "ping" also when the "ping" value is one of those (`InDomain`,
  `decodeCmd_isSome_iff`).  The code acks such ids and pongs such values all the same (`msg.get("id")`
  and `msg["ping"]` are passed through `json.dumps` untouched).  So "ack echoing its id" and "pong with
  the same value" are PROVED for ids / ping values that are null, a string or an integer, and are checked
  on the implementation only for the other JSON values.  An object WITHOUT a "type" key is always in the
  domain (its id is not looked at: `C17_json_no_type` has no domain hypothesis).

  ORACLE-ONLY CLAUSES (AUDIT_B P1).  Two clauses of the C17 property text have no counterpart in the model:
    (a) "exactly one `error` frame CONTAINING THE ORIGINAL MESSAGE": `Frame.error (text : String)` has
        the text only; there is no `orig` field, so nothing here says that `orig` equals the received object;
    (b) "every frame carries its type and A SEND TIMESTAMP": `Event.frame (c) (f : Frame) (synced)` has no
        `server_tx`; the `type` is the constructor of `Frame`, which is typing by construction, not a theorem.
  Both are checked on the IMPLEMENTATION only, by the frame hook of /verif/harness/impl.py, which emits the
  oracle events
      `!frame-not-json %d`           the payload is not JSON,
      `!frame-malformed %d %s`       not a dict, or "type" not a string, or "server_tx" not a number,
      `!frame-server_tx %d %r`       `server_tx` differs from the (frozen) clock of the step,
      `!error-orig-mismatch %d`      an `error` frame whose `orig` is not the message being processed,
  and /verif/harness/oracles.py turns every event starting with `!frame` or `!error-orig` into a C17 finding.
  `C17_oracle_only_clauses` below states the structural fact (an `error` frame of the model is its text, a
  frame event is addressee + frame + flag) so that the restriction is visible in the theorem list;
  `C17_frames_typed` of Props/C17.lean is about ADDRESSEES, not about the typing clause.
-/
import Wormhole.Props.C17
import Wormhole.Props.Decode

namespace Wormhole

/-! ## 1. `.noType` is exactly "no `type` key" -/

/-- **the decoded command is `Cmd.noType` iff the object has no "type" key** (so every object in the
    domain that HAS a "type" key decodes to a command the model acks) -/
theorem decodeCmd_noType_iff (o : JObj) (p : Nat) (d : List Nat) (f : String) :
    decodeCmd o p d f = some .noType ↔ jget o "type" = none := by
  unfold decodeCmd decodeOf
  cases jget o "type" with
  | none => simp
  | some ty =>
    simp only [reduceCtorEq, iff_false]
    cases fieldId (jget o "id") with
    | none => simp
    | some i =>
      cases mtypeOf ty <;> simp only [] <;> intro h
      · cases hv : fieldVal (jget o "ping") <;> simp [hv] at h
      · split at h <;> simp at h
      · simp at h
      · simp at h
      · cases hv : fieldStr (jget o "nameplate") <;> simp [hv] at h
      · cases hv : fieldStr (jget o "nameplate") <;> simp [hv] at h
      · cases hv : fieldStr (jget o "mailbox") <;> simp [hv] at h
      · split at h
        · split at h <;> simp at h
        · simp at h
      · split at h <;> simp at h
      · simp at h

/-- the form used below: a decoded command is `.noType` iff there is no "type" key -/
theorem decoded_eq_noType_iff {o : JObj} {p : Nat} {d : List Nat} {f : String} {cmd : Cmd}
    (hd : decodeCmd o p d f = some cmd) : cmd = .noType ↔ jget o "type" = none := by
  rw [← decodeCmd_noType_iff o p d f, hd]
  simp

example : decodeCmd [("nameplate", .num 4), ("id", .other)] 0 [] "" = some .noType ∧
    jget [("nameplate", .num 4), ("id", .other)] "type" = none ∧
    decodeCmd [("type", .null)] 0 [] "" = some .unknown ∧ jget [("type", .null)] "type" ≠ none := by decide

/-! ## 2. `decodeId` is the object's id -/

/-- **`decodeId o` is the value under "id"**: null when the key is absent (`msg.get("id")` is `None`),
    and the value itself when it is null / a string / an integer -/
theorem decodeId_eq (o : JObj) :
    (jget o "id" = none → decodeId o = .null) ∧
    (∀ v w, jget o "id" = some v → v.toVal? = some w → decodeId o = w) := by
  unfold decodeId
  constructor
  · intro h; rw [h]; rfl
  · intro v w h hw; rw [h]; simp [fieldId, hw]

theorem decodeId_of_fieldId {o : JObj} {i : Val} (h : fieldId (jget o "id") = some i) : decodeId o = i := by
  unfold decodeId; rw [h]; rfl

/-- **in the domain the id is representable**: when the decoder answers on an object that has a "type"
    key, `msg.get("id")` is null / string / integer and `decodeId o` is that value -- the `.getD .null`
    default inside `decodeId` is not what makes the theorems below true -/
theorem decodeId_representable {o : JObj} {p : Nat} {d : List Nat} {f : String} {cmd : Cmd}
    (hd : decodeCmd o p d f = some cmd) (hty : jget o "type" ≠ none) :
    fieldId (jget o "id") = some (decodeId o) := by
  unfold decodeCmd decodeOf at hd
  cases ht : jget o "type" with
  | none => exact absurd ht hty
  | some ty =>
    rw [ht] at hd
    simp only [] at hd
    cases hi : fieldId (jget o "id") with
    | none => rw [hi] at hd; simp at hd
    | some i => rw [decodeId_of_fieldId hi]

example : decodeId [("type", .str "list")] = .null ∧ decodeId [("id", .num 7), ("type", .str "list")] = .int 7 ∧
    decodeId [("id", .str "a"), ("id", .str "b")] = .str "b" ∧
    fieldId (jget [("id", .num 7), ("type", .str "list")] "id") = some (.int 7) ∧
    decodeCmd [("id", .bool true), ("type", .str "list")] 0 [] "" = none := by decide

/-! ## 3. ack first -/

/-- **C17 (ack first, JSON level).**  For every state with a live connection `c` and every received JSON
    object `o` in the decoder's domain that has a "type" key (whatever its value: a known string, an
    unknown string, not a string), whatever the other keys: the id `msg.get("id")` is representable and
    equal to `decodeId o`, and the FIRST event of the step is the `ack` frame to `c` echoing it. -/
theorem C17_json_ack_first {s : Sys} {c : Nat} {x : Conn} (t : Time) {o : JObj} {p : Nat} {d : List Nat}
    {f : String} {cmd : Cmd} (hx : s.findConn c = some x) (hd : decodeCmd o p d f = some cmd)
    (hty : jget o "type" ≠ none) :
    fieldId (jget o "id") = some (decodeId o) ∧
    ∃ rest, (s.step (.recv c t (decodeId o) cmd)).out = .frame c (.ack (decodeId o)) s.synced :: rest :=
  ⟨decodeId_representable hd hty,
    (C17_ack_first t (decodeId o) cmd hx).1 (fun h => hty ((decoded_eq_noType_iff hd).1 h))⟩

/-- the same with the domain spelled out: on every `InDomain` object with a "type" key the decoder
    answers, and the step on its answer starts with the ack of the object's id -/
theorem C17_json_ack_first_domain {s : Sys} {c : Nat} {x : Conn} (t : Time) (o : JObj) (p : Nat)
    (d : List Nat) (f : String) (hx : s.findConn c = some x) (hdom : InDomain o)
    (hty : jget o "type" ≠ none) :
    ∃ cmd, decodeCmd o p d f = some cmd ∧ cmd ≠ .noType ∧ fieldId (jget o "id") = some (decodeId o) ∧
      ∃ rest, (s.step (.recv c t (decodeId o) cmd)).out = .frame c (.ack (decodeId o)) s.synced :: rest := by
  obtain ⟨cmd, hd⟩ := Option.isSome_iff_exists.1 ((decodeCmd_isSome_iff o p d f).2 hdom)
  obtain ⟨h1, h2⟩ := C17_json_ack_first t hx hd hty
  exact ⟨cmd, hd, fun h => hty ((decoded_eq_noType_iff hd).1 h), h1, h2⟩

/-- non-vacuity: a second `claim` on connection 2 of `exSys` with an extra key and id 9; a type that is
    not a string; the instance of the theorem -/
example :
    let o : JObj := [("junk", .other), ("id", .num 9), ("nameplate", .str "7"), ("type", .str "claim")]
    exSys.findConn 2 = some exConn2 ∧ decodeCmd o 0 [] "f" = some (.claim (some "7") "f") ∧
    jget o "type" ≠ none ∧ decodeId o = .int 9 ∧
    (exSys.step (.recv 2 5 (decodeId o) (.claim (some "7") "f"))).out =
      [.frame 2 (.ack (.int 9)) true, .frame 2 (.error "only one claim per connection") true] := by decide
example : ∃ rest, (exSys.step (.recv 1 5 (decodeId [("type", .num 3), ("id", .str "q")]) .unknown)).out =
    .frame 1 (.ack (decodeId [("type", .num 3), ("id", .str "q")])) exSys.synced :: rest :=
  (C17_json_ack_first (s := exSys) (c := 1) (x := { id := 1 }) 5 (o := [("type", .num 3), ("id", .str "q")])
    (p := 0) (d := []) (f := "") (by decide) (by decide) (by decide)).2

/-! ## 4. no `type` -/

/-- **C17 (no type, JSON level).**  For every state with a live connection `c` and every JSON object
    without a "type" key (NO domain hypothesis: nothing else of the object is looked at, an
    unrepresentable id included): the decoder gives `.noType`, and the step emits exactly one event, the
    frame `error "missing 'type'"` to `c` -- no ack, nothing to anybody else -- and the whole state
    (databases, committed states, configuration, every connection record) is unchanged. -/
theorem C17_json_no_type {s : Sys} {c : Nat} {x : Conn} (t : Time) (o : JObj) (p : Nat) (d : List Nat)
    (f : String) (hx : s.findConn c = some x) (hty : jget o "type" = none) :
    decodeCmd o p d f = some .noType ∧
    (s.step (.recv c t (decodeId o) .noType)).out = [.frame c (.error "missing 'type'") s.synced] ∧
    Unchanged s (s.step (.recv c t (decodeId o) .noType)) := by
  refine ⟨(decodeCmd_noType_iff o p d f).2 hty, ?_, ?_⟩
  · exact (C17_ack_first t (decodeId o) .noType hx).2 rfl
  · exact (C17_validation_error t (decodeId o) hx Rejected.noType).2

example : jget [("nameplate", .str "4"), ("id", .other)] "type" = none ∧
    decodeCmd [("nameplate", .str "4"), ("id", .other)] 0 [] "" = some .noType ∧
    (exSys.step (.recv 2 5 (decodeId [("nameplate", .str "4"), ("id", .other)]) .noType)).out =
      [.frame 2 (.error "missing 'type'") true] := by decide
example := C17_json_no_type (s := exSys) (c := 2) (x := exConn2) 5 [("nameplate", .str "4"), ("id", .other)]
  0 [] "" (by decide) (by decide)

/-! ## 5. ping -/

/-- **C17 (ping, JSON level).**  For every state with a live connection `c` (bound or not) and every
    object whose "type" is the string "ping", whose "ping" value `jv` is null / a string / an integer
    (`jv.toVal? = some v`) and whose id is representable (`i`; null when absent), whatever other keys it
    has: the decoder gives `ping (some v)` and id `i`, and the step emits exactly
    `[ack i, pong v]` to `c`; the whole state is unchanged. -/
theorem C17_json_ping {s : Sys} {c : Nat} {x : Conn} (t : Time) {o : JObj} (p : Nat) (d : List Nat)
    (f : String) {jv : JVal} {v i : Val} (hx : s.findConn c = some x)
    (hty : jget o "type" = some (.str "ping")) (hp : jget o "ping" = some jv) (hv : jv.toVal? = some v)
    (hi : fieldId (jget o "id") = some i) :
    decodeCmd o p d f = some (.ping (some v)) ∧ decodeId o = i ∧
    (s.step (.recv c t (decodeId o) (.ping (some v)))).out =
      [.frame c (.ack i) s.synced, .frame c (.pong v) s.synced] ∧
    Unchanged s (s.step (.recv c t (decodeId o) (.ping (some v)))) := by
  have hid := decodeId_of_fieldId hi
  refine ⟨?_, hid, ?_, (C17_ping t (decodeId o) v hx).2⟩
  · unfold decodeCmd decodeOf
    rw [hty]
    simp only [hi, hp]
    have : mtypeOf (.str "ping") = .ping := by decide
    simp [this, fieldVal, hv]
  · rw [(C17_ping t (decodeId o) v hx).1, hid]

/-- the literal `{"type":"ping","ping":jv}` (no id: the ack carries null) -/
theorem C17_json_ping_literal {s : Sys} {c : Nat} {x : Conn} (t : Time) (p : Nat) (d : List Nat) (f : String)
    (jv : JVal) {v : Val} (hx : s.findConn c = some x) (hv : jv.toVal? = some v) :
    decodeCmd [("type", .str "ping"), ("ping", jv)] p d f = some (.ping (some v)) ∧
    decodeId [("type", .str "ping"), ("ping", jv)] = .null ∧
    (s.step (.recv c t (decodeId [("type", .str "ping"), ("ping", jv)]) (.ping (some v)))).out =
      [.frame c (.ack .null) s.synced, .frame c (.pong v) s.synced] ∧
    Unchanged s (s.step (.recv c t (decodeId [("type", .str "ping"), ("ping", jv)]) (.ping (some v)))) :=
  C17_json_ping t p d f hx (by simp [jget]) (by simp [jget]) hv (by simp [jget, fieldId])

/-- the literal `{"id":ji,"type":"ping","ping":jv}` -/
theorem C17_json_ping_literal_id {s : Sys} {c : Nat} {x : Conn} (t : Time) (p : Nat) (d : List Nat)
    (f : String) (ji jv : JVal) {i v : Val} (hx : s.findConn c = some x) (hi : ji.toVal? = some i)
    (hv : jv.toVal? = some v) :
    decodeCmd [("id", ji), ("type", .str "ping"), ("ping", jv)] p d f = some (.ping (some v)) ∧
    decodeId [("id", ji), ("type", .str "ping"), ("ping", jv)] = i ∧
    (s.step (.recv c t (decodeId [("id", ji), ("type", .str "ping"), ("ping", jv)]) (.ping (some v)))).out =
      [.frame c (.ack i) s.synced, .frame c (.pong v) s.synced] ∧
    Unchanged s
      (s.step (.recv c t (decodeId [("id", ji), ("type", .str "ping"), ("ping", jv)]) (.ping (some v)))) :=
  C17_json_ping t p d f hx (by simp [jget]) (by simp [jget]) hv (by simp [jget, fieldId, hi])

/-- the three kinds of value, for every string / integer, on every live connection -/
theorem C17_json_ping_values {s : Sys} {c : Nat} {x : Conn} (t : Time) (p : Nat) (d : List Nat) (f : String)
    (hx : s.findConn c = some x) :
    (s.step (.recv c t (decodeId [("type", .str "ping"), ("ping", .null)]) (.ping (some .null)))).out =
      [.frame c (.ack .null) s.synced, .frame c (.pong .null) s.synced] ∧
    (∀ str : String,
      decodeCmd [("type", .str "ping"), ("ping", .str str)] p d f = some (.ping (some (.str str))) ∧
      (s.step (.recv c t (decodeId [("type", .str "ping"), ("ping", .str str)]) (.ping (some (.str str))))).out =
        [.frame c (.ack .null) s.synced, .frame c (.pong (.str str)) s.synced]) ∧
    (∀ n : Int,
      decodeCmd [("type", .str "ping"), ("ping", .num n)] p d f = some (.ping (some (.int n))) ∧
      (s.step (.recv c t (decodeId [("type", .str "ping"), ("ping", .num n)]) (.ping (some (.int n))))).out =
        [.frame c (.ack .null) s.synced, .frame c (.pong (.int n)) s.synced]) := by
  refine ⟨(C17_json_ping_literal t p d f .null hx rfl).2.2.1, fun str => ?_, fun n => ?_⟩
  · have h := C17_json_ping_literal t p d f (.str str) hx rfl
    exact ⟨h.1, h.2.2.1⟩
  · have h := C17_json_ping_literal t p d f (.num n) hx rfl
    exact ⟨h.1, h.2.2.1⟩

/-- non-vacuity: connection 1 of `exSys` is not bound, connection 2 is bound and holds a mailbox -/
example : exSys.findConn 1 = some { id := 1 } ∧ (exSys.findConn 1).bind (·.app) = none ∧
    exSys.findConn 2 = some exConn2 ∧ exConn2.app = some "app" := by decide
example :
    let o : JObj := [("type", .str "ping"), ("ping", .null)]
    decodeCmd o 0 [] "" = some (.ping (some .null)) ∧
    (exSys.step (.recv 1 5 (decodeId o) (.ping (some .null)))).out =
      [.frame 1 (.ack .null) true, .frame 1 (.pong .null) true] ∧
    (exSys.step (.recv 2 5 (decodeId o) (.ping (some .null)))).out =
      [.frame 2 (.ack .null) true, .frame 2 (.pong .null) true] := by decide
example :
    let o : JObj := [("type", .str "ping"), ("ping", .str "hello")]
    decodeCmd o 0 [] "" = some (.ping (some (.str "hello"))) ∧
    (exSys.step (.recv 1 5 (decodeId o) (.ping (some (.str "hello"))))).out =
      [.frame 1 (.ack .null) true, .frame 1 (.pong (.str "hello")) true] ∧
    (exSys.step (.recv 2 5 (decodeId o) (.ping (some (.str "hello"))))).out =
      [.frame 2 (.ack .null) true, .frame 2 (.pong (.str "hello")) true] := by decide
example :
    let o : JObj := [("id", .str "i1"), ("type", .str "ping"), ("ping", .num (-3)), ("extra", .other)]
    decodeCmd o 0 [] "" = some (.ping (some (.int (-3)))) ∧ decodeId o = .str "i1" ∧
    (exSys.step (.recv 1 5 (decodeId o) (.ping (some (.int (-3)))))).out =
      [.frame 1 (.ack (.str "i1")) true, .frame 1 (.pong (.int (-3))) true] ∧
    (exSys.step (.recv 2 5 (decodeId o) (.ping (some (.int (-3)))))).out =
      [.frame 2 (.ack (.str "i1")) true, .frame 2 (.pong (.int (-3))) true] := by decide
/-- the instances of the theorems (hypotheses satisfiable), unbound and bound -/
example := C17_json_ping (s := exSys) (c := 1) (x := { id := 1 }) 5
  (o := [("id", .str "i1"), ("type", .str "ping"), ("ping", .num (-3)), ("extra", .other)]) 0 [] ""
  (jv := .num (-3)) (v := .int (-3)) (i := .str "i1") (by decide) (by decide) (by decide) rfl (by decide)
example := C17_json_ping_values (s := exSys) (c := 2) (x := exConn2) 5 0 [] "" (by decide)
/-- outside the domain (see the header): a boolean / array ping value, a float id -/
example : decodeCmd [("type", .str "ping"), ("ping", .bool true)] 0 [] "" = none ∧
    decodeCmd [("type", .str "ping"), ("ping", .other)] 0 [] "" = none ∧
    decodeCmd [("type", .str "ping"), ("ping", .num 1), ("id", .other)] 0 [] "" = none := by decide

/-! ## 6. rejected commands -/

/-- **C17 (validation errors are harmless, JSON level).**  For every state with a live connection `c`
    whose record is `x`, and every JSON object in the decoder's domain whose decoded command is
    `Rejected` by `x` with `text` (the enumeration of Props/C17.lean; decidable, `rejected_iff`):
      * the events of the step are exactly `[ack id] ++ [error text]` to `c`, where the ack is present
        iff the object has a "type" key and `id = decodeId o` is then the object's (representable) id;
      * no frame goes to any other connection;
      * the whole state is unchanged (`Unchanged`: both databases, their committed states, configuration,
        reboot time, every flag of every connection record; no commit). -/
theorem C17_json_rejected_unchanged {s : Sys} {c : Nat} {x : Conn} {o : JObj} {p : Nat} {d : List Nat}
    {f : String} {cmd : Cmd} {text : String} (t : Time) (hx : s.findConn c = some x)
    (hd : decodeCmd o p d f = some cmd) (hr : Rejected x cmd text) :
    (s.step (.recv c t (decodeId o) cmd)).out =
      (if jget o "type" = none then [] else [.frame c (.ack (decodeId o)) s.synced]) ++
        [.frame c (.error text) s.synced] ∧
    (jget o "type" ≠ none → fieldId (jget o "id") = some (decodeId o)) ∧
    (∀ c' fr b, .frame c' fr b ∈ (s.step (.recv c t (decodeId o) cmd)).out → c' = c) ∧
    Unchanged s (s.step (.recv c t (decodeId o) cmd)) := by
  obtain ⟨h1, h2⟩ := C17_validation_error t (decodeId o) hx hr
  refine ⟨?_, decodeId_representable hd, C17_validation_error_private t (decodeId o) hx hr, h2⟩
  rw [h1]
  by_cases hn : cmd = .noType
  · rw [if_pos hn, if_pos ((decoded_eq_noType_iff hd).1 hn)]
  · rw [if_neg hn, if_neg (fun h => hn ((decoded_eq_noType_iff hd).2 h))]

/-- the same with the decision procedure: `text` is `rejectText x cmd` -/
theorem C17_json_rejected_text {s : Sys} {c : Nat} {x : Conn} {o : JObj} {p : Nat} {d : List Nat}
    {f : String} {cmd : Cmd} {text : String} (t : Time) (hx : s.findConn c = some x)
    (hd : decodeCmd o p d f = some cmd) (hr : rejectText x cmd = some text) :
    (s.step (.recv c t (decodeId o) cmd)).out =
      (if jget o "type" = none then [] else [.frame c (.ack (decodeId o)) s.synced]) ++
        [.frame c (.error text) s.synced] ∧
    (∀ c' fr b, .frame c' fr b ∈ (s.step (.recv c t (decodeId o) cmd)).out → c' = c) ∧
    Unchanged s (s.step (.recv c t (decodeId o) cmd)) :=
  have h := C17_json_rejected_unchanged t hx hd (rejected_iff.2 hr)
  ⟨h.1, h.2.2.1, h.2.2.2⟩

/-- non-vacuity: a second `open` on connection 2 (holds "mb"), a `list` before `bind` on connection 1, an
    `add` without phase carrying a spoofed side; and the instance of the theorem -/
example :
    let o : JObj := [("type", .str "open"), ("mailbox", .str "zz"), ("id", .num 3)]
    decodeCmd o 0 [] "" = some (.open_ (some "zz")) ∧
    Rejected exConn2 (.open_ (some "zz")) "only one open per connection" ∧
    (exSys.step (.recv 2 5 (decodeId o) (.open_ (some "zz")))).out =
      [.frame 2 (.ack (.int 3)) true, .frame 2 (.error "only one open per connection") true] := by decide
example :
    let o : JObj := [("type", .str "list")]
    decodeCmd o 0 [] "" = some .list ∧ Rejected { id := 1 } .list "must bind first" ∧
    (exSys.step (.recv 1 5 (decodeId o) .list)).out =
      [.frame 1 (.ack .null) true, .frame 1 (.error "must bind first") true] := by decide
example :
    let o : JObj := [("body", .str "00"), ("side", .str "spoofed"), ("type", .str "add")]
    decodeCmd o 0 [] "" = some (.add none (some (.str "00"))) ∧
    Rejected exConn2 (.add none (some (.str "00"))) "missing 'phase'" ∧
    (exSys.step (.recv 2 5 (decodeId o) (.add none (some (.str "00"))))).out =
      [.frame 2 (.ack .null) true, .frame 2 (.error "missing 'phase'") true] := by decide
example := C17_json_rejected_unchanged (s := exSys) (c := 2) (x := exConn2)
  (o := [("type", .str "open"), ("mailbox", .str "zz"), ("id", .num 3)]) (p := 0) (d := []) (f := "")
  (cmd := .open_ (some "zz")) (text := "only one open per connection") 5 (by decide) (by decide) (by decide)
/-- the no-type case through the same theorem: no ack -/
example : (exSys.step (.recv 1 5 (decodeId [("id", .num 1)]) .noType)).out =
    (if jget [("id", .num 1)] "type" = none then [] else [.frame 1 (.ack (decodeId [("id", .num 1)])) exSys.synced])
      ++ [.frame 1 (.error "missing 'type'") exSys.synced] :=
  (C17_json_rejected_unchanged (s := exSys) (c := 1) (x := { id := 1 }) (o := [("id", .num 1)]) (p := 0)
    (d := []) (f := "") 5 (by decide) (by decide) Rejected.noType).1

/-! ## 7. what the model does not carry -/

/-- **C17, the two ORACLE-ONLY clauses** (AUDIT_B P1).  Structural facts about the model's frames, stated so
    that the restriction shows up in the theorem list:
      (a) an `error` frame of the model IS its text (`Frame.error txt₁ = Frame.error txt₂ ↔ txt₁ = txt₂`):
          it has no `orig` field, so "the `error` frame contains the original message" is not expressible,
          let alone proved, here;
      (b) a frame event IS (addressee, frame, synced flag): it has no `server_tx`, so "every frame carries
          a send timestamp" is not expressible here (and "carries its type" is the `Frame` constructor).
    Both clauses are checked on the implementation only, by the oracle events `!error-orig-mismatch`
    (for (a)) and `!frame-malformed`, `!frame-server_tx` (for (b); also `!frame-not-json`) emitted by the
    frame hook of /verif/harness/impl.py and turned into C17 findings by /verif/harness/oracles.py. -/
theorem C17_oracle_only_clauses :
    (∀ txt₁ txt₂ : String, Frame.error txt₁ = Frame.error txt₂ ↔ txt₁ = txt₂) ∧
    (∀ (c c' : Nat) (fr fr' : Frame) (b b' : Bool),
      Event.frame c fr b = Event.frame c' fr' b' ↔ c = c' ∧ fr = fr' ∧ b = b') := by
  constructor
  · intro a b; simp
  · intro c c' fr fr' b b'; simp

example : Frame.error "x" ≠ Frame.error "y" ∧ Event.frame 1 (.error "x") true ≠ Event.frame 2 (.error "x") true := by
  decide

end Wormhole

#print axioms Wormhole.decodeCmd_noType_iff
#print axioms Wormhole.decodeId_eq
#print axioms Wormhole.decodeId_representable
#print axioms Wormhole.C17_json_ack_first
#print axioms Wormhole.C17_json_ack_first_domain
#print axioms Wormhole.C17_json_no_type
#print axioms Wormhole.C17_json_ping
#print axioms Wormhole.C17_json_ping_literal
#print axioms Wormhole.C17_json_ping_literal_id
#print axioms Wormhole.C17_json_ping_values
#print axioms Wormhole.C17_json_rejected_unchanged
#print axioms Wormhole.C17_json_rejected_text
#print axioms Wormhole.C17_oracle_only_clauses
