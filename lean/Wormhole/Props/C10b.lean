/-
  C10 (re-send clause) — "Clients that reconnect and re-send their unacknowledged claim, release, open
  or close get the same answers and reach the same stored state as if no crash had happened."

  THE SETTING.  `g` is a state reachable by a crash-free well-formed history (`ReachCF`), `c` a
  connection bound to `(a, σ)`, `op = recv c t id cmd` a well-formed operation whose command names its
  nameplate / mailbox explicitly and which is SUCCESSFULLY ANSWERED in the uncrashed run (the frame
  `claimed m` / `released` / `closed` is sent; for `open`: no `error` frame, no escaped exception).
  For `k ≥ 1` the process dies right after the `k`-th effective commit of `op` (`crashIn k op`; right
  after `op` if it commits fewer times), is restarted at `t`, the client reconnects as `c'`, binds
  `(a, σ)` at `t` and sends the command again at `t` (`Sys.resend`, = `Sys.run` of these four operations).

  WHAT IS PROVED
  * `C10_resend_claim`   (complete): the frames `c'` gets are `ack, claimed m` as `c` got in the uncrashed
    step, and the channel database (five tables and the AUTOINCREMENT counter) after the re-send EQUALS
    the one after the uncrashed step -- for EVERY `k ≥ 1` and ANY generated id `f'` in the re-sent claim
    (for `k ≥ 1` the crash is after the commit of the nameplate row, so the id is not used; the guard of
    K-crowded-rejoin is implied by the answer of the original).
  * `C10_resend_release` (complete): the same for `release` (`ack, released`; database equal).
  * `C10_resend_open`    (complete): the same for `open` (`ack` + the replay of the stored messages).
  * `C10_resend_close_partial`: the same for `close` (`ack, closed`) under the guard of K-crowded-rejoin
    (only when the original connection held a handle: at most two side rows) and with the database equal
    UP TO `touch m t` (K-close-touch: `updated` of a surviving row `m`; EQUAL when the mailbox was deleted).
    The FULL statement is false for the model and the code:
      `C10bExample.C10_close_touch_counterexample`   (all hypotheses, guards included; databases differ),
      `C10bExample.C10_close_crowded_counterexample` (three side rows: the re-sent close gets `crowded`).
    One extra hypothesis `htg` (if the connection holds a handle it is the handle of the mailbox it names)
    is an invariant of reachable states that is not part of `GInv` (handle and remembered `mailbox_id`
    are only ever set together, by `open`); it is assumed, not proved.
  * `C10_resend_converges_partial`: the four together, as one statement over `ResendCmd`.

  HOW: a crash point of these operations is one of a small number of committed states, read off the
  commit discipline of the Core functions (`claimCont_snapNew`, `releaseNameplate_dbAll`,
  `openMailbox_dbAll`, `mailboxClose_dbAll`, Inv/NpSpec.lean):
    claim   : D1 = after [mailbox row +] nameplate row + nameplate side row;  D2 = final
    release : the database before; `releaseMid` = after `claimed := 0`; `releaseDb` = final
              (with a usage database the usage commit adds a snapshot with the channel state `releaseMid`)
    open    : the database before; `openDb` = final
    close   : the database before; `closePre` = after the implicit `open_mailbox`; `closePre.closeSide`
              = after `opened := 0, mood`; final (with a usage database the usage commit adds a snapshot
              with the channel state `closePre.closeSide`)
  and the re-executed Core function completes each of them to the same final database
  (`claimNameplate_from_mid`, `claimNameplate_again`; `releaseDb_releaseMid`, `releaseDb_releaseDb`;
  `openDb_idem`; `closeRun_points`).  The crash state satisfies `GInv` again (`GInv.step`, C10).
  Not claimed equal: the usage database (the re-send's `bind` writes a `client_versions` row; a re-sent
  close / release that completes a deletion writes the usage record the crashed run did not).
-/
import Wormhole.Inv.UsageResend
import Wormhole.Props.C10
import Wormhole.Props.C05

namespace Wormhole
open Sys Sys.Np

/-- the frames of an answer `ack, commits, answer` -/
theorem frames_of_answer {s : Sys} {c : Nat} {id : Val} {commits : List Event} {ans : Event}
    (hc : ∀ e ∈ commits, IsCommit e) (ha : ans.isFrame = true)
    (h : s.out = .frame c (.ack id) true :: (commits ++ [ans])) :
    s.frames = [.frame c (.ack id) true, ans] := by
  unfold Sys.frames
  rw [h]
  exact filter_isFrame_answer hc (by intro e he; simp only [List.mem_singleton] at he; rw [he]; exact ha)

/-- **C10 (re-sent `claim`)** -/
theorem C10_resend_claim {g : GSys} (hg : g.ReachCF) {c : Nat} {x : Conn} {a σ : String}
    (hx : g.sys.findConn c = some x) (happ : x.app = some a) (hside : x.side = some σ)
    {n fresh : String} (t : Time) (id : Val)
    (hw : g.WFOp (.recv c t id (.claim (some n) fresh)))
    {m : String} {b : Bool}
    (hans : Event.frame c (.claimed m) b ∈ (g.sys.step (.recv c t id (.claim (some n) fresh))).out)
    {k : Nat} (hk : 1 ≤ k) (c' : Nat) (id₁ : Val) (impl ver : Option String) (f' : String) :
    (g.sys.step (.recv c t id (.claim (some n) fresh))).frames =
      [.frame c (.ack id) true, .frame c (.claimed m) true] ∧
    (resend (g.sys.step (.crashIn k (.recv c t id (.claim (some n) fresh)))) c' t id₁ id a σ impl ver
      (.claim (some n) f')).frames = [.frame c' (.ack id) true, .frame c' (.claimed m) true] ∧
    (resend (g.sys.step (.crashIn k (.recv c t id (.claim (some n) fresh)))) c' t id₁ id a σ impl ver
      (.claim (some n) f')).db = (g.sys.step (.recv c t id (.claim (some n) fresh))).db := by
  have hI := hg.reach.ginv
  have hP := hI.cinv.toPInv
  have hI' : (g.step (.recv c t id (.claim (some n) fresh))).GInv := hI.step _ hw
  have hIk : (g.step (.crashIn k (.recv c t id (.claim (some n) fresh)))).GInv := hI.step _ (hw.crashIn rfl k)
  -- the original
  have hr : rejectText x (.claim (some n) fresh) = none := by
    cases hr : rejectText x (.claim (some n) fresh) with
    | none => rfl
    | some text => rcases rejected_out t id hx hr _ hans with ⟨_, e⟩ | ⟨_, e⟩ <;> cases e
  obtain ⟨_, hdc, _⟩ := claim_accepted hr
  obtain ⟨s1, r, e, ⟨commits, hc, hout⟩, hdb, hsy, _⟩ := claim_step hP hI.synced hx hr happ t id
  have hrm : r = .ok m := by
    rw [hout] at hans
    simp only [List.mem_cons, List.mem_append, List.not_mem_nil, or_false] at hans
    rcases hans with h | h | h
    · cases h
    · obtain ⟨w, hw'⟩ := hc _ h; cases hw'
    · cases r <;> simp [claimAnswer] at h
      exact congrArg _ h.1.symm
  subst hrm
  rw [getD_of_side hside] at e
  have hfresh : ∀ mm ∈ g.sys.db.mailboxes, mm.id ≠ fresh := by
    intro mm hm e'
    exact hw.idFresh fresh rfl (e' ▸ hI.used mm hm)
  have hstep := step_claim_eq (s := g.sys) t id n fresh hx happ hdc
  rw [getD_of_side hside] at hstep
  generalize hX : ((({ g.sys with out := [], snaps := [] } : Sys).send c (.ack id)).updConn c
    (fun y => { y with didClaim := true, nameplateId := some n })) = X at e hstep
  have hX0 : X.db = g.sys.db := by rw [← hX]; rfl
  have hXsn : X.snaps = [] := by rw [← hX]; rfl
  obtain ⟨D1, row, hrow, hrm, hrside, hfin, hres, hsnap⟩ :=
    claimNameplate_mid (s := X) (by rw [hX0]; exact hP) (by rw [hX0]; exact hfresh) e
  have hframes := frames_of_answer hc (by rfl) hout
  refine ⟨hframes, ?_⟩
  -- the commit points of the uncrashed run
  have hall : DbAll (fun d => d = D1 ∨ d = s1.db)
      (({ g.sys with out := [], snaps := [] } : Sys).stepPlain (.recv c t id (.claim (some n) fresh))) := by
    rw [e] at hstep
    dsimp only at hstep
    have : ({ g.sys with out := [], snaps := [] } : Sys).stepPlain (.recv c t id (.claim (some n) fresh)) =
        s1.send c (.claimed m) := hstep
    rw [this]
    refine ⟨Or.inr ?_, ?_⟩
    · show s1.disk = s1.db
      have := hsy.1
      rw [hdb] at this
      have h2 : (g.sys.step (.recv c t id (.claim (some n) fresh))).disk = s1.disk := by rw [hstep]; rfl
      rw [h2] at this
      exact this.symm
    · intro p hp
      rcases hsnap p hp with h | h
      · rw [hXsn] at h; exact absurd h List.not_mem_nil
      · exact h
  have hcrash := crash_db_of_dbAll g.sys hk _ hall
  -- the re-send
  generalize hsk : g.sys.step (.crashIn k (.recv c t id (.claim (some n) fresh))) = sk at hcrash ⊢
  have hSk : sk.Synced := by rw [← hsk]; exact hIk.synced
  have hPk : sk.db.PInv := by rw [← hsk]; exact hIk.cinv.toPInv
  obtain ⟨hRdb, hRsy, hRconns, _, hR⟩ := resend_ready hSk c' t id₁ a σ impl ver
  have hf : ∀ y ∈ (sk.step (.restart t)).conns, y.id ≠ c' := by rw [hRconns]; simp
  have hxb := hR.findConn hf
  have hSb := hR.synced hRsy
  have hPb : (((sk.step (.restart t)).step (.connect c')).step
      (.recv c' t id₁ (.bind (some a) (some σ) impl ver))).db.PInv := by rw [hR.db, hRdb]; exact hPk
  obtain ⟨s2, r', e', ⟨commits', hc', hout'⟩, hdb', _, _⟩ :=
    claim_step hPb hSb hxb (name := n) (fresh := f') (by simp [rejectText, needBind, dupConn]) (app := a) rfl t id
  have hside' : (dupConn c' a σ).side.getD "" = σ := rfl
  rw [hside'] at e'
  have hXdb : ((({ (((sk.step (.restart t)).step (.connect c')).step
      (.recv c' t id₁ (.bind (some a) (some σ) impl ver))) with out := [], snaps := [] } : Sys).send c' (.ack id)).updConn c'
        (fun y => { y with didClaim := true, nameplateId := some n })).db = sk.db := by
    show (((sk.step (.restart t)).step (.connect c')).step
      (.recv c' t id₁ (.bind (some a) (some σ) impl ver))).db = sk.db
    rw [hR.db, hRdb]
  have key : s2.db = s1.db ∧ r' = .ok m := by
    rcases hcrash with hD | hD
    · obtain ⟨k1, k2, _⟩ := claimNameplate_from_mid (by rw [hXdb]; exact hPk) (hXdb.trans hD) hrow hrm hrside
        (by rw [← hfin]; exact hres) e'
      exact ⟨k1.trans hfin.symm, k2⟩
    · have hP1 : s1.db.PInv := by rw [← hdb]; exact hI'.cinv.toPInv
      have hD1 := claimNameplate_ok_done hP1 e
      obtain ⟨s2', e2, k1, _⟩ := claimNameplate_again (by rw [hXdb]; exact hPk)
        (by rw [hXdb, hD]; exact hD1) f'
      rw [e'] at e2
      cases e2
      exact ⟨k1.trans (hXdb.trans hD), rfl⟩
  obtain ⟨k1, k2⟩ := key
  subst k2
  unfold resend
  exact ⟨frames_of_answer hc' (by rfl) hout', by rw [hdb', k1, hdb]⟩

/-! ### `release` -/

/-- **an accepted `release (some n)`, the whole step**: exact events, the database as a function of the
    database before, and the commit points -/
theorem release_step {s : Sys} (hS : s.Synced) {c : Nat} {x : Conn} (hx : s.findConn c = some x) {n : String}
    (hr : rejectText x (.release (some n)) = none) {a : String} (happ : x.app = some a) (t : Time) (id : Val) :
    (∃ commits, (∀ e ∈ commits, IsCommit e) ∧
      (s.step (.recv c t id (.release (some n)))).out =
        .frame c (.ack id) true :: (commits ++ [.frame c .released true])) ∧
    (s.step (.recv c t id (.release (some n)))).db = s.db.releaseDb a n (x.side.getD "") ∧
    ∀ P : Chan → Prop, P s.db → P (s.db.releaseMid a n (x.side.getD "")) → P (s.db.releaseDb a n (x.side.getD "")) →
      DbAll P (({ s with out := [], snaps := [] } : Sys).stepPlain (.recv c t id (.release (some n)))) := by
  obtain ⟨n', hn', hstep⟩ := step_release_eq t id (some n) hx happ hr
  have : n' = n := by
    unfold Np.releaseTarget at hn'
    cases hh : x.nameplateId <;> simp at hn' <;> exact hn'.symm
  subst this
  have hsy : s.synced = true := (synced_iff s).2 hS
  generalize hX : ((({ s with out := [], snaps := [] } : Sys).send c (.ack id)).updConn c
    (fun y => { y with didRelease := true })) = X at hstep
  have hXdb : X.db = s.db := by rw [← hX]; rfl
  have hXdisk : X.disk = s.disk := by rw [← hX]; rfl
  have hXudb : X.udb = s.udb := by rw [← hX]; rfl
  have hXudisk : X.udisk = s.udisk := by rw [← hX]; rfl
  have hXsn : X.snaps = [] := by rw [← hX]; rfl
  have hXout : X.out = [.frame c (.ack id) true] := by rw [← hX, ← hsy]; rfl
  have hdbf := releaseNameplate_db X a n' (x.side.getD "") t
  have hcp := fun (P : Chan → Prop) (hA : DbAll P X) h1 h2 =>
    releaseNameplate_commit_points (s := X) a n' (x.side.getD "") t (P := P) hA h1 h2
  have hcx := CExt.releaseNameplate (OutExt.refl (s := X)) (app := a) (name := n') (side := x.side.getD "") (t := t)
  cases e : X.releaseNameplate a n' (x.side.getD "") t with
  | mk s1 b1 =>
    rw [e] at hstep hdbf hcp hcx
    obtain ⟨hb, _, _⟩ := releaseNameplate_exact e
    subst hb
    obtain ⟨_, _, hsync⟩ := releaseNameplate_spec e
    have hs1 : s1.Synced := hsync ⟨by rw [hXdb, hXdisk]; exact hS.1, by rw [hXudb, hXudisk]; exact hS.2⟩
    dsimp only at hstep hdbf hcp hcx
    obtain ⟨commits, hout, hc⟩ := hcx
    refine ⟨⟨commits, hc, ?_⟩, ?_, ?_⟩
    · rw [hstep]
      show s1.out ++ [Event.frame c .released s1.synced] = _
      rw [(synced_iff s1).2 hs1, hout, hXout]; simp
    · rw [hstep]
      show s1.db = _
      rw [hdbf, hXdb]
    · intro P h0 h1 h2
      have : ({ s with out := [], snaps := [] } : Sys).stepPlain (.recv c t id (.release (some n'))) =
          s1.send c .released := hstep
      rw [this]
      have hA : DbAll P X := ⟨by rw [hXdisk, ← hS.1]; exact h0, by rw [hXsn]; simp⟩
      exact (NoCommit.send s1 c .released).dbAll (hcp P hA (by rw [hXdb]; exact h1) (by rw [hXdb]; exact h2))

/-- **C10 (re-sent `release`)** -/
theorem C10_resend_release {g : GSys} (hg : g.ReachCF) {c : Nat} {x : Conn} {a σ : String}
    (hx : g.sys.findConn c = some x) (happ : x.app = some a) (hside : x.side = some σ)
    {n : String} (t : Time) (id : Val) (hw : g.WFOp (.recv c t id (.release (some n)))) {b : Bool}
    (hans : Event.frame c .released b ∈ (g.sys.step (.recv c t id (.release (some n)))).out)
    {k : Nat} (hk : 1 ≤ k) (c' : Nat) (id₁ : Val) (impl ver : Option String) :
    (g.sys.step (.recv c t id (.release (some n)))).frames = [.frame c (.ack id) true, .frame c .released true] ∧
    (resend (g.sys.step (.crashIn k (.recv c t id (.release (some n))))) c' t id₁ id a σ impl ver
      (.release (some n))).frames = [.frame c' (.ack id) true, .frame c' .released true] ∧
    (resend (g.sys.step (.crashIn k (.recv c t id (.release (some n))))) c' t id₁ id a σ impl ver
      (.release (some n))).db = (g.sys.step (.recv c t id (.release (some n)))).db := by
  have hI := hg.reach.ginv
  have hP := hI.cinv.toPInv
  have hIk : (g.step (.crashIn k (.recv c t id (.release (some n))))).GInv := hI.step _ (hw.crashIn rfl k)
  have hr : rejectText x (.release (some n)) = none := by
    cases hr : rejectText x (.release (some n)) with
    | none => rfl
    | some text => rcases rejected_out t id hx hr _ hans with ⟨_, e⟩ | ⟨_, e⟩ <;> cases e
  obtain ⟨⟨commits, hc, hout⟩, hdb, hcp⟩ := release_step hI.synced hx hr happ t id
  rw [getD_of_side hside] at hdb hcp
  refine ⟨frames_of_answer hc (by rfl) hout, ?_⟩
  have hcrash := crash_db_of_dbAll g.sys hk _
    (hcp (fun d => d = g.sys.db ∨ d = g.sys.db.releaseMid a n σ ∨ d = g.sys.db.releaseDb a n σ)
      (Or.inl rfl) (Or.inr (Or.inl rfl)) (Or.inr (Or.inr rfl)))
  generalize hsk : g.sys.step (.crashIn k (.recv c t id (.release (some n)))) = sk at hcrash ⊢
  have hSk : sk.Synced := by rw [← hsk]; exact hIk.synced
  obtain ⟨hRdb, hRsy, hRconns, _, hR⟩ := resend_ready hSk c' t id₁ a σ impl ver
  have hf : ∀ y ∈ (sk.step (.restart t)).conns, y.id ≠ c' := by rw [hRconns]; simp
  have hxb := hR.findConn hf
  have hSb := hR.synced hRsy
  obtain ⟨⟨commits', hc', hout'⟩, hdb', _⟩ := release_step hSb hxb (n := n)
    (by simp [rejectText, needBind, dupConn]) (a := a) rfl t id
  have hside' : (dupConn c' a σ).side.getD "" = σ := rfl
  rw [hside', hR.db, hRdb] at hdb'
  unfold resend
  refine ⟨frames_of_answer hc' (by rfl) hout', ?_⟩
  rw [hdb', hdb]
  rcases hcrash with h | h | h
  · rw [h]
  · rw [h]; exact Chan.releaseDb_releaseMid _ _ _ _
  · rw [h]; exact Chan.releaseDb_releaseDb hP _ _ _

/-! ### `open` -/

/-- the commit points of an accepted `open`: the database before and `openDb` of it -/
theorem open_commit_points {s : Sys} (hP : s.db.PInv) (hS : s.Synced) {c : Nat} {x : Conn}
    (hx : s.findConn c = some x) {mb : String} (hr : rejectText x (.open_ (some mb)) = none) {a : String}
    (happ : x.app = some a) (t : Time) (id : Val) {P : Chan → Prop} (h0 : P s.db)
    (h1 : P (s.db.openDb a mb (x.side.getD "") t)) :
    DbAll P (({ s with out := [], snaps := [] } : Sys).stepPlain (.recv c t id (.open_ (some mb)))) := by
  obtain ⟨_, hnone, _⟩ := open_accepted hr
  have hstep : ({ s with out := [], snaps := [] } : Sys).stepPlain (.recv c t id (.open_ (some mb))) =
      (({ s with out := [], snaps := [] } : Sys).send c (.ack id)).handleOpen x a (x.side.getD "") t (some mb) := by
    show ({ s with out := [], snaps := [] } : Sys).onMessage c t id (.open_ (some mb)) = _
    unfold onMessage
    have : ({ s with out := [], snaps := [] } : Sys).findConn c = some x := hx
    simp only [this, happ]
  rw [hstep]
  generalize hA : (({ s with out := [], snaps := [] } : Sys).send c (.ack id)) = sA
  have hAdb : sA.db = s.db := by rw [← hA]; rfl
  have hAdisk : sA.disk = s.disk := by rw [← hA]; rfl
  have hAsnaps : sA.snaps = [] := by rw [← hA]; rfl
  have hA0 : DbAll P (sA.updConn x.id (fun y => { y with mailboxId := some mb })) :=
    ⟨by show P sA.disk; rw [hAdisk, ← hS.1]; exact h0, by show ∀ p ∈ sA.snaps, _; rw [hAsnaps]; simp⟩
  unfold handleOpen
  simp only [hnone, Option.isSome_none, Bool.false_eq_true, if_false]
  cases e : (sA.updConn x.id (fun y => { y with mailboxId := some mb })).openMailbox a mb (x.side.getD "") t with
  | mk s1 r =>
    obtain ⟨_, hsame, hne, _⟩ :=
      openMailbox_exact (s := sA.updConn x.id (fun y => { y with mailboxId := some mb }))
        (by show sA.db.PInv; rw [hAdb]; exact hP) e
    simp only [updConn_db, hAdb] at hne
    have h1' : DbAll P s1 := by
      by_cases hri : r = .integrity
      · rw [hsame hri]; exact hA0
      · exact openMailbox_dbAll e hA0 (by rw [(hne hri).1]; exact h1)
    cases r with
    | integrity => exact (NoCommit.internalErr _ _ _).dbAll h1'
    | crowded => exact (NoCommit.sendError _ _ _).dbAll h1'
    | ok =>
      dsimp only
      unfold Sys.replay
      exact ((NoCommit.updConn _ _ _).trans
        (NoCommit.foldl_send (fun _ => x.id) (fun (m : Message) => .message m.side m.phase m.body m.rx m.msgId) _ _).1).dbAll h1'

/-- **C10 (re-sent `open`)** -/
theorem C10_resend_open {g : GSys} (hg : g.ReachCF) {c : Nat} {x : Conn} {a σ : String}
    (hx : g.sys.findConn c = some x) (happ : x.app = some a) (hside : x.side = some σ)
    {mb : String} (t : Time) (id : Val) (hw : g.WFOp (.recv c t id (.open_ (some mb))))
    (hans : ∀ e ∈ (g.sys.step (.recv c t id (.open_ (some mb)))).out, e.isFailure = false)
    {k : Nat} (hk : 1 ≤ k) (c' : Nat) (id₁ : Val) (impl ver : Option String) :
    (g.sys.step (.recv c t id (.open_ (some mb)))).frames =
      .frame c (.ack id) true :: replayFrames (g.sys.step (.recv c t id (.open_ (some mb)))).db c a mb ∧
    (resend (g.sys.step (.crashIn k (.recv c t id (.open_ (some mb))))) c' t id₁ id a σ impl ver
      (.open_ (some mb))).frames =
      .frame c' (.ack id) true :: replayFrames (g.sys.step (.recv c t id (.open_ (some mb)))).db c' a mb ∧
    (resend (g.sys.step (.crashIn k (.recv c t id (.open_ (some mb))))) c' t id₁ id a σ impl ver
      (.open_ (some mb))).db = (g.sys.step (.recv c t id (.open_ (some mb)))).db := by
  have hI := hg.reach.ginv
  have hP := hI.cinv.toPInv
  have hIk : (g.step (.crashIn k (.recv c t id (.open_ (some mb))))).GInv := hI.step _ (hw.crashIn rfl k)
  have hr : rejectText x (.open_ (some mb)) = none := by
    cases hr : rejectText x (.open_ (some mb)) with
    | none => rfl
    | some text =>
      exfalso
      have h1 := (C17_validation_error t id hx (rejected_of_rejectText hr)).1
      have := hans (.frame c (.error text) g.sys.synced) (by rw [h1]; simp)
      simp [Event.isFailure] at this
  obtain ⟨m, hm, hdb, hlen, commits, hc, hout⟩ := orig_open hI hx happ hside hans
  cases hm
  have hfr : ∀ (z : Sys) (cc : Nat) (cm : List Event) (d : Chan), (∀ e ∈ cm, IsCommit e) →
      z.out = .frame cc (.ack id) true :: (cm ++ replayFrames d cc a mb) →
      z.frames = .frame cc (.ack id) true :: replayFrames d cc a mb := by
    intro z cc cm d h1 h2
    unfold Sys.frames
    rw [h2]
    exact filter_isFrame_answer h1 (replayFrames_isFrame d cc a mb)
  refine ⟨hfr _ c commits _ hc hout, ?_⟩
  have hcp := open_commit_points hP hI.synced hx hr happ t id
    (P := fun d => d = g.sys.db ∨ d = g.sys.db.openDb a mb σ t) (Or.inl rfl)
    (Or.inr (by rw [getD_of_side hside]))
  have hcrash := crash_db_of_dbAll g.sys hk _ hcp
  -- what the answer of the original says about the database before
  have hnc : ¬ g.sys.db.Clash a mb := by
    intro hcl
    obtain ⟨h1, _, _⟩ := open_step hP hI.synced hx hr happ t id
    have := hans (.internal (some c) "IntegrityError") (by rw [(h1 hcl).1]; simp)
    simp [Event.isFailure] at this
  generalize hsk : g.sys.step (.crashIn k (.recv c t id (.open_ (some mb)))) = sk at hcrash ⊢
  have hSk : sk.Synced := by rw [← hsk]; exact hIk.synced
  have hPk : sk.db.PInv := by rw [← hsk]; exact hIk.cinv.toPInv
  obtain ⟨hRdb, hRsy, hRconns, _, hR⟩ := resend_ready hSk c' t id₁ a σ impl ver
  have hf : ∀ y ∈ (sk.step (.restart t)).conns, y.id ≠ c' := by rw [hRconns]; simp
  have hxb := hR.findConn hf
  have hSb := hR.synced hRsy
  obtain ⟨_, _, h3⟩ := open_step (by rw [hR.db, hRdb]; exact hPk) hSb hxb (mb := mb)
    (by simp [rejectText, needBind, dupConn]) (app := a) rfl t id
  have hside' : (dupConn c' a σ).side.getD "" = σ := rfl
  rw [hside', hR.db, hRdb] at h3
  have hopen : sk.db.openDb a mb σ t = g.sys.db.openDb a mb σ t ∧ ¬ sk.db.Clash a mb := by
    rcases hcrash with h | h
    · rw [h]; exact ⟨rfl, hnc⟩
    · rw [h]
      exact ⟨Chan.openDb_idem _ _ _ _ _, fun hcl => hcl.2 (Chan.openDb_hasBox _ _ _ _ _)⟩
  rw [hopen.1] at h3
  obtain ⟨⟨commits', hc', hout'⟩, hdb', _⟩ := h3 hopen.2 (by rw [← hdb]; omega)
  unfold resend
  rw [hdb]
  exact ⟨hfr _ c' commits' _ hc' hout', hdb'⟩

/-! ### `close` -/

/-- the commit points of an accepted `close (some m) mood` acting on mailbox `m`: the database before,
    the database after the implicit `open_mailbox` (`closePre`), that database with the closing side's
    row closed, and the final database -/
theorem close_commit_points {s : Sys} (hP : s.db.PInv) (hS : s.Synced) {c : Nat} {x : Conn}
    (hx : s.findConn c = some x) {m : String} {mood : Option String}
    (hr : rejectText x (.close (some m) mood) = none) {a : String} (happ : x.app = some a)
    (htg : x.closeTarget (some m) = some m) (t : Time) (id : Val) {P : Chan → Prop} (h0 : P s.db)
    (h1 : P (closePre s x a m t)) (h2 : P ((closePre s x a m t).closeSide m (x.side.getD "") mood))
    (h3 : P (s.step (.recv c t id (.close (some m) mood))).db) :
    DbAll P (({ s with out := [], snaps := [] } : Sys).stepPlain (.recv c t id (.close (some m) mood))) := by
  have hn : x.closeName (some m) = some m := rfl
  have hstep := step_close_eq (s := s) (t := t) (id := id) hx hr happ hn
  have hpl : ({ s with out := [], snaps := [] } : Sys).stepPlain (.recv c t id (.close (some m) mood)) =
      s.step (.recv c t id (.close (some m) mood)) := rfl
  rw [hpl, hstep]
  rw [hstep] at h3
  generalize hA : (({ s with out := [], snaps := [] } : Sys).send c (.ack id)) = sA at h3 ⊢
  have hAdb : sA.db = s.db := by rw [← hA]; rfl
  have hAdisk : sA.disk = s.disk := by rw [← hA]; rfl
  have hAsnaps : sA.snaps = [] := by rw [← hA]; rfl
  have hA0 : DbAll P sA := ⟨by rw [hAdisk, ← hS.1]; exact h0, by rw [hAsnaps]; simp⟩
  cases hh : x.mailbox with
  | some h =>
    have htgt : m = h := by simp [Conn.closeTarget, hh] at htg; exact htg.symm
    subst htgt
    have hpre : closePre s x a m t = s.db := by simp [closePre, hh]
    rw [hpre] at h2
    simp only [closeGo, hh] at h3 ⊢
    cases e : (sA.updConn x.id (fun y => { y with listening := false, didClose := true })).mailboxClose
        a m (x.side.getD "") mood t with
    | mk s3 b =>
      rw [e] at h3
      have h3' : P s3.db := by cases b <;> exact h3
      have hd := mailboxClose_dbAll e (P := P) (by exact hA0) (by show P (sA.db.closeSide _ _ _); rw [hAdb]; exact h2) h3'
      cases b
      · exact (NoCommit.internalErr _ _ _).dbAll hd
      · exact ((NoCommit.updConn _ _ _).trans (NoCommit.send _ _ _)).dbAll hd
  | none =>
    have hpre : closePre s x a m t = s.db.openDb a m (x.side.getD "") t := by simp [closePre, hh]
    rw [hpre] at h1 h2
    cases e : sA.openMailbox a m (x.side.getD "") t with
    | mk s1 r =>
      obtain ⟨_, hsame, hne, _⟩ := openMailbox_exact (by rw [hAdb]; exact hP) e
      rw [hAdb] at hne
      have h1' : DbAll P s1 := by
        by_cases hri : r = .integrity
        · rw [hsame hri]; exact hA0
        · exact openMailbox_dbAll e hA0 (by rw [(hne hri).1]; exact h1)
      simp only [closeGo, hh, e] at h3 ⊢
      cases r with
      | integrity => exact ((NoCommit.updConn _ _ _).trans (NoCommit.internalErr _ _ _)).dbAll h1'
      | crowded => exact ((NoCommit.updConn _ _ _).trans (NoCommit.sendError _ _ _)).dbAll h1'
      | ok =>
        simp only [if_true] at h3 ⊢
        have hdb1 : s1.db = s.db.openDb a m (x.side.getD "") t := (hne (by simp)).1
        cases e2 : ((s1.updConn x.id (fun y => { y with mailbox := some m })).updConn x.id
            (fun y => { y with listening := false, didClose := true })).mailboxClose a m (x.side.getD "") mood t with
        | mk s3 b =>
          rw [e2] at h3
          have h3' : P s3.db := by cases b <;> exact h3
          have hd := mailboxClose_dbAll e2 (P := P) (by exact h1')
            (by show P (s1.db.closeSide _ _ _); rw [hdb1]; exact h2) h3'
          cases b
          · exact (NoCommit.internalErr _ _ _).dbAll hd
          · exact ((NoCommit.updConn _ _ _).trans (NoCommit.send _ _ _)).dbAll hd

/-- **C10 (re-sent `close`)** — partial, for exactly the two known findings:
    * K-crowded-rejoin: if the original connection held a handle (it had opened the mailbox, so its
      `close` did not run the crowding check) the mailbox must have at most two side rows (`hguard`);
      otherwise the re-sent close, which opens first, is answered `crowded`.  For a connection without a
      handle the guard is implied by the answer of the original.
    * K-close-touch: the database after the re-send is that after the uncrashed step with
      `UPDATE mailboxes SET updated = t WHERE id = m` applied (`touch m t`): every table and the counter
      equal except the column `updated` of a SURVIVING row `m`; if the mailbox was deleted the databases
      are EQUAL.
    `htg`: if the connection holds a handle it is the handle of the mailbox it names (the handle and the
    remembered `mailbox_id` are always set together by `open`; this is not part of `GInv`, so it is a
    hypothesis here). -/
theorem C10_resend_close_partial {g : GSys} (hg : g.ReachCF) {c : Nat} {x : Conn} {a σ : String}
    (hx : g.sys.findConn c = some x) (happ : x.app = some a) (hside : x.side = some σ)
    {m : String} {mood : Option String} (t : Time) (id : Val) (hw : g.WFOp (.recv c t id (.close (some m) mood)))
    (htg : x.closeTarget (some m) = some m) {b : Bool}
    (hans : Event.frame c .closed b ∈ (g.sys.step (.recv c t id (.close (some m) mood))).out)
    (hguard : x.mailbox ≠ none → (g.sys.db.mbSidesOf m).length ≤ 2)
    {k : Nat} (hk : 1 ≤ k) (c' : Nat) (id₁ : Val) (impl ver : Option String) :
    (g.sys.step (.recv c t id (.close (some m) mood))).frames = [.frame c (.ack id) true, .frame c .closed true] ∧
    (resend (g.sys.step (.crashIn k (.recv c t id (.close (some m) mood)))) c' t id₁ id a σ impl ver
      (.close (some m) mood)).frames = [.frame c' (.ack id) true, .frame c' .closed true] ∧
    ((resend (g.sys.step (.crashIn k (.recv c t id (.close (some m) mood)))) c' t id₁ id a σ impl ver
        (.close (some m) mood)).db = (g.sys.step (.recv c t id (.close (some m) mood))).db ∨
      (resend (g.sys.step (.crashIn k (.recv c t id (.close (some m) mood)))) c' t id₁ id a σ impl ver
        (.close (some m) mood)).db = (g.sys.step (.recv c t id (.close (some m) mood))).db.touch m t) ∧
    (¬ (g.sys.step (.recv c t id (.close (some m) mood))).db.HasId m →
      (resend (g.sys.step (.crashIn k (.recv c t id (.close (some m) mood)))) c' t id₁ id a σ impl ver
        (.close (some m) mood)).db = (g.sys.step (.recv c t id (.close (some m) mood))).db) := by
  have hI := hg.reach.ginv
  have hP := hI.cinv.toPInv
  have hN := hI.cinv.npHasSide
  have hH : g.sys.HandleRow := C05.handleRow_reach (fun _ h => h.ginv) hg.reach
  have hIk : (g.step (.crashIn k (.recv c t id (.close (some m) mood)))).GInv := hI.step _ (hw.crashIn rfl k)
  have hr : rejectText x (.close (some m) mood) = none := by
    cases hr : rejectText x (.close (some m) mood) with
    | none => rfl
    | some text => rcases rejected_out t id hx hr _ hans with ⟨_, e⟩ | ⟨_, e⟩ <;> cases e
  obtain ⟨h1, h2, h3⟩ := close_step hP hN hI.synced hx hr happ htg t id
  rw [getD_of_side hside] at h3
  -- the answer `closed` excludes IntegrityError and `crowded`
  have hnot : ¬ (x.mailbox = none ∧ (g.sys.db.Clash a m ∨ ((closePre g.sys x a m t).mbSidesOf m).length > 2)) := by
    rintro ⟨hm, hcl | hcr⟩
    · rw [(h1 hm hcl).1] at hans
      simp at hans
    · by_cases hcl : g.sys.db.Clash a m
      · rw [(h1 hm hcl).1] at hans; simp at hans
      · obtain ⟨⟨cm, hcm, ho⟩, _⟩ := h2 hm hcl hcr
        rw [ho] at hans
        simp only [List.mem_cons, List.mem_append, List.not_mem_nil, or_false] at hans
        rcases hans with h | h | h
        · cases h
        · obtain ⟨w, hw'⟩ := hcm _ h; cases hw'
        · cases h
  obtain ⟨⟨commits, hc, hout⟩, hdb, _, _, _, _, _⟩ := h3 hnot
  have hxmem := findConn_mem hx
  generalize hpre : closePre g.sys x a m t = pre at hnot hdb
  -- the database at the entry of `Mailbox.close`
  have hpre' : pre = (if x.mailbox = none then g.sys.db.openDb a m σ t else g.sys.db) := by
    rw [← hpre]; unfold closePre; rw [getD_of_side hside]
  have hncl : ¬ (x.mailbox = none ∧ g.sys.db.Clash a m) := fun h => hnot ⟨h.1, Or.inl h.2⟩
  have hpreP : pre.PInv := by
    rw [hpre']
    split
    · rename_i hm; exact hP.openDb _ _ (fun hcl => hncl ⟨hm, hcl⟩)
    · exact hP
  have hb : pre.HasBox a m := by
    rw [hpre']
    cases hh : x.mailbox with
    | none => simp only [if_true]; exact Chan.openDb_hasBox _ _ _ _ _
    | some h =>
      have : m = h := by simp [Conn.closeTarget, hh] at htg; exact htg.symm
      subst this
      simp only [reduceCtorEq, if_false]
      obtain ⟨_, a', ha', row, hrow, hid, hra⟩ := hI.conn.handle x hxmem m hh
      rw [happ] at ha'; cases ha'
      exact ⟨row, hrow, hra, hid⟩
  have hs : pre.findMbSide m σ ≠ none := by
    rw [hpre']
    cases hh : x.mailbox with
    | none => simp only [if_true]; exact Chan.openDb_findMbSide_ne_none _ _ _ _ _
    | some h =>
      have : m = h := by simp [Conn.closeTarget, hh] at htg; exact htg.symm
      subst this
      simp only [reduceCtorEq, if_false]
      obtain ⟨r, hr', hm', hs'⟩ := hH x hxmem m hh
      rw [getD_of_side hside] at hs'
      intro hnone
      exact (Chan.findMbSide_eq_none.1 hnone) r hr' ⟨hm', hs'⟩
  have hlen : (pre.mbSidesOf m).length ≤ 2 := by
    cases hh : x.mailbox with
    | none =>
      have : ¬ (pre.mbSidesOf m).length > 2 := fun h => hnot ⟨hh, Or.inr h⟩
      omega
    | some h =>
      rw [hpre', hh]; simp only [reduceCtorEq, if_false]
      exact hguard (by rw [hh]; simp)
  refine ⟨frames_of_answer hc (by rfl) hout, ?_⟩
  -- commit points
  have hcp := close_commit_points hP hI.synced hx hr happ htg t id
    (P := fun d => d = g.sys.db ∨ d = pre ∨ d = pre.closeSide m σ mood ∨ d = pre.closeDb a m σ mood)
    (Or.inl rfl) (Or.inr (Or.inl hpre))
    (Or.inr (Or.inr (Or.inl (by rw [hpre, getD_of_side hside]))))
    (Or.inr (Or.inr (Or.inr hdb)))
  have hcrash := crash_db_of_dbAll g.sys hk _ hcp
  rw [hdb]
  generalize hsk : g.sys.step (.crashIn k (.recv c t id (.close (some m) mood))) = sk at hcrash ⊢
  have hSk : sk.Synced := by rw [← hsk]; exact hIk.synced
  have hPk : sk.db.PInv := by rw [← hsk]; exact hIk.cinv.toPInv
  have hNk : sk.db.NpHasSide := by rw [← hsk]; exact hIk.cinv.npHasSide
  obtain ⟨hRdb, hRsy, hRconns, _, hR⟩ := resend_ready hSk c' t id₁ a σ impl ver
  have hf : ∀ y ∈ (sk.step (.restart t)).conns, y.id ≠ c' := by rw [hRconns]; simp
  have hxb := hR.findConn hf
  have hSb := hR.synced hRsy
  obtain ⟨_, _, k3⟩ := close_step (by rw [hR.db, hRdb]; exact hPk) (by rw [hR.db, hRdb]; exact hNk) hSb hxb
    (dupConn_close_valid c' a σ m mood) (app := a) rfl (dupConn_closeTarget c' a σ m) t id
  rw [dupConn_closePre, hR.db, hRdb] at k3
  have hside' : (dupConn c' a σ).side.getD "" = σ := rfl
  rw [hside'] at k3
  -- the three facts the re-send needs at the crash point: no clash, not crowded, where it ends
  have key : ¬ sk.db.Clash a m ∧ ((sk.db.openDb a m σ t).mbSidesOf m).length ≤ 2 ∧
      (sk.db.closeRun a m σ mood t = pre.closeDb a m σ mood ∨
        sk.db.closeRun a m σ mood t = (pre.closeDb a m σ mood).touch m t) := by
    obtain ⟨p1, p2, p3⟩ := Chan.closeRun_points hpreP.mbIds mood t hb hs
    obtain ⟨l1, l2, l3⟩ := Chan.closeRun_sides (a := a) mood t hs
    have hbox_nc : ∀ d : Chan, d.HasBox a m → ¬ d.Clash a m := fun d hbx hcl => hcl.2 hbx
    have fromPre : sk.db = pre → ¬ sk.db.Clash a m ∧ ((sk.db.openDb a m σ t).mbSidesOf m).length ≤ 2 ∧
        (sk.db.closeRun a m σ mood t = pre.closeDb a m σ mood ∨
          sk.db.closeRun a m σ mood t = (pre.closeDb a m σ mood).touch m t) := by
      intro h
      rw [h]
      exact ⟨hbox_nc _ hb, by rw [l1]; exact hlen, Or.inr p1⟩
    rcases hcrash with h | h | h | h
    · -- the database before the step
      cases hh : x.mailbox with
      | some hd =>
        apply fromPre
        rw [h, hpre', hh]; simp
      | none =>
        have hpo : pre = g.sys.db.openDb a m σ t := by rw [hpre', hh]; simp
        rw [h]
        refine ⟨fun hcl => hnot ⟨hh, Or.inl hcl⟩, by rw [← hpo]; exact hlen, Or.inl ?_⟩
        unfold Chan.closeRun; rw [← hpo]
    · exact fromPre h
    · rw [h]
      exact ⟨hbox_nc _ hb, by rw [l2]; exact hlen, Or.inr p2⟩
    · rw [h, Chan.closeDb_of_box hb hs] at *
      by_cases ho : pre.OtherOpen m σ
      · rw [if_pos ho] at p3 ⊢
        exact ⟨hbox_nc _ hb, by rw [l2]; exact hlen, Or.inr p3⟩
      · rw [if_neg ho] at p3 ⊢
        refine ⟨?_, by rw [l3]; omega, Or.inr p3⟩
        rintro ⟨⟨row, hrow, hid, _⟩, _⟩
        exact Chan.dropMailbox_noId hpreP.mbIds hb row hrow hid
  obtain ⟨kc, kl, kdb⟩ := key
  obtain ⟨⟨commits', hc', hout'⟩, hdb', _⟩ := k3 (by
    rintro ⟨_, h | h⟩
    · exact kc h
    · omega)
  unfold resend
  refine ⟨frames_of_answer hc' (by rfl) hout', ?_, ?_⟩
  · rw [hdb']
    exact kdb
  · intro hgone
    rw [hdb']
    rcases kdb with h | h
    · exact h
    · exact h.trans (Chan.touch_eq_self_of_noId (fun r hr e => hgone ⟨r, hr, e⟩) t)

/-! ### the four together -/

/-- the commands of the re-send clause, with their nameplate / mailbox named explicitly; the re-sent
    `claim` may carry any generated id -/
inductive ResendCmd : Cmd → Cmd → Prop
  | claim (n f f' : String) : ResendCmd (.claim (some n) f) (.claim (some n) f')
  | release (n : String) : ResendCmd (.release (some n)) (.release (some n))
  | open_ (m : String) : ResendCmd (.open_ (some m)) (.open_ (some m))
  | close (m : String) (mood : Option String) : ResendCmd (.close (some m) mood) (.close (some m) mood)

/-- the guard of the two known findings, needed for `close` only (see `C10_resend_close_partial`) -/
def ResendGuard (d : Chan) (x : Conn) : Cmd → Prop
  | .close (some m) _ => x.closeTarget (some m) = some m ∧ (x.mailbox ≠ none → (d.mbSidesOf m).length ≤ 2)
  | _ => True

/-- a frame re-addressed to connection `c'` -/
def Event.toConn (c' : Nat) : Event → Event
  | .frame _ f b => .frame c' f b
  | e => e

theorem replayFrames_toConn (d : Chan) (c c' : Nat) (a m : String) :
    (replayFrames d c a m).map (Event.toConn c') = replayFrames d c' a m := by
  unfold replayFrames
  rw [List.map_map]
  rfl

/-- **C10_resend_converges_partial.**  For a state reachable by a crash-free well-formed history, a
    connection bound to `(a, σ)`, a well-formed, successfully answered `claim n` / `release n` / `open m` /
    `close m mood` and EVERY `k ≥ 1`: crash after the `k`-th commit, restart, reconnect, bind `(a, σ)` and
    send the command again, all at the same instant.  Then the frames the new connection gets in answer
    are those the original connection got in the uncrashed step (re-addressed), and the channel database
    equals the one after the uncrashed step -- for `close`, under `ResendGuard` (K-crowded-rejoin), up to
    `touch m t`, i.e. the column `updated` of a surviving mailbox row `m` (K-close-touch). -/
theorem C10_resend_converges_partial {g : GSys} (hg : g.ReachCF) {c : Nat} {x : Conn} {a σ : String}
    (hx : g.sys.findConn c = some x) (happ : x.app = some a) (hside : x.side = some σ)
    {cmd cmd' : Cmd} (hcmd : ResendCmd cmd cmd') (t : Time) (id : Val) (hw : g.WFOp (.recv c t id cmd))
    (hans : Answered (g.sys.step (.recv c t id cmd)).out c id cmd) (hguard : ResendGuard g.sys.db x cmd)
    {k : Nat} (hk : 1 ≤ k) (c' : Nat) (id₁ : Val) (impl ver : Option String) :
    (resend (g.sys.step (.crashIn k (.recv c t id cmd))) c' t id₁ id a σ impl ver cmd').frames =
      (g.sys.step (.recv c t id cmd)).frames.map (Event.toConn c') ∧
    ((resend (g.sys.step (.crashIn k (.recv c t id cmd))) c' t id₁ id a σ impl ver cmd').db =
        (g.sys.step (.recv c t id cmd)).db ∨
      ∃ m mood, cmd = .close (some m) mood ∧
        (resend (g.sys.step (.crashIn k (.recv c t id cmd))) c' t id₁ id a σ impl ver cmd').db =
          (g.sys.step (.recv c t id cmd)).db.touch m t) := by
  cases hcmd with
  | claim n f f' =>
    obtain ⟨m, b, hA⟩ := hans
    obtain ⟨h1, h2, h3⟩ := C10_resend_claim hg hx happ hside t id hw hA hk c' id₁ impl ver f'
    exact ⟨by rw [h1, h2]; rfl, Or.inl h3⟩
  | release n =>
    obtain ⟨b, hA⟩ := hans
    obtain ⟨h1, h2, h3⟩ := C10_resend_release hg hx happ hside t id hw hA hk c' id₁ impl ver
    exact ⟨by rw [h1, h2]; rfl, Or.inl h3⟩
  | open_ m =>
    obtain ⟨h1, h2, h3⟩ := C10_resend_open hg hx happ hside t id hw hans.2 hk c' id₁ impl ver
    refine ⟨?_, Or.inl h3⟩
    rw [h1, h2, List.map_cons, replayFrames_toConn]
    rfl
  | close m mood =>
    obtain ⟨b, hA⟩ := hans
    obtain ⟨h1, h2, h3, _⟩ := C10_resend_close_partial hg hx happ hside t id hw hguard.1 hA hguard.2 hk c' id₁ impl ver
    refine ⟨by rw [h1, h2]; rfl, ?_⟩
    rcases h3 with h | h
    · exact Or.inl h
    · exact Or.inr ⟨m, mood, rfl, h⟩

/-! ### Non-vacuity and the two counterexamples -/

theorem GSys.reachCF_run {g : GSys} (hg : g.ReachCF) : ∀ (ops : List Op), g.WF ops →
    (∀ op ∈ ops, op.isCrash = false) → (g.run ops).ReachCF := by
  intro ops
  induction ops generalizing g with
  | nil => intro _ _; exact hg
  | cons op rest ih =>
    intro h hc
    exact ih (.step op hg h.1 (hc op List.mem_cons_self)) h.2 (fun o ho => hc o (List.mem_cons_of_mem _ ho))

namespace C10bExample

def cfg : Cfg := { usage := true }
def bind (c : Nat) (t : Time) (σ : String) : Op := .recv c t (.int 1) (.bind (some "app") (some σ) none none)
def x1 : Conn := { id := 1, app := some "app", side := some "s1" }

/-- a bound connection about to claim nameplate "4" -/
def H0 : List Op := [ .connect 1, bind 1 10 "s1" ]
def g0 : GSys := (GSys.init cfg 0).run H0
theorem g0_reachCF : g0.ReachCF :=
  GSys.reachCF_run (.init cfg 0) H0 (GSys.wfB_sound (by decide +kernel)) (by decide)
def claimOp : Op := .recv 1 11 (.int 2) (.claim (some "4") "mb1")

/-- the hypotheses of `C10_resend_claim` hold … -/
example : g0.sys.findConn 1 = some x1 ∧ g0.WFOp claimOp ∧
    Event.frame 1 (.claimed "mb1") true ∈ (g0.sys.step claimOp).out :=
  ⟨by decide +kernel, GSys.wfOpB_sound (by decide +kernel), by decide +kernel⟩
/-- … the claim has two commit points, and after a crash at the FIRST one (mailbox, nameplate and
    nameplate side on disk, no mailbox side) the re-sent claim -- with another generated id -- completes
    it (evaluated; `C10_resend_claim` proves it for every state and every `k`) -/
example : (g0.sys.step claimOp).snaps.length = 2 ∧
    (g0.sys.step (.crashIn 1 claimOp)).db.mbSides = [] ∧
    (resend (g0.sys.step (.crashIn 1 claimOp)) 9 11 (.int 7) (.int 2) "app" "s1" none none (.claim (some "4") "zzz")).db
      = (g0.sys.step claimOp).db ∧
    (resend (g0.sys.step (.crashIn 1 claimOp)) 9 11 (.int 7) (.int 2) "app" "s1" none none (.claim (some "4") "zzz")).frames
      = [.frame 9 (.ack (.int 2)) true, .frame 9 (.claimed "mb1") true] := by decide +kernel
example : (resend (g0.sys.step (.crashIn 1 claimOp)) 9 11 (.int 7) (.int 2) "app" "s1" none none
    (.claim (some "4") "zzz")).db = (g0.sys.step claimOp).db :=
  (C10_resend_claim g0_reachCF (c := 1) (x := x1) (a := "app") (σ := "s1") (n := "4") (fresh := "mb1")
    (by decide +kernel) rfl rfl 11 (.int 2) (GSys.wfOpB_sound (by decide +kernel)) (m := "mb1") (b := true)
    (by decide +kernel) (k := 1) (by decide) 9 (.int 7) none none "zzz").2.2

/-- two sides have mailbox "m" open; side s1 (connection 1, holding the handle) closes it -/
def Hs : List Op :=
  [ .connect 1, bind 1 10 "s1", .recv 1 100 (.int 2) (.open_ (some "m")),
    .connect 2, bind 2 100 "s2", .recv 2 100 (.int 2) (.open_ (some "m")) ]
def gs : GSys := (GSys.init cfg 0).run Hs
theorem gs_reachCF : gs.ReachCF :=
  GSys.reachCF_run (.init cfg 0) Hs (GSys.wfB_sound (by decide +kernel)) (by decide)
def closeOp : Op := .recv 1 200 (.int 3) (.close (some "m") (some "happy"))
def xs : Conn := { id := 1, app := some "app", side := some "s1", listening := true, mailbox := some "m",
                   mailboxId := some "m" }

/-- **K-close-touch after a crash**: all hypotheses of `C10_resend_close_partial` hold (the guards
    included), the close is answered `closed`, and after the crash + re-send the database is NOT the one of
    the uncrashed run: it differs in `updated` of the surviving row "m" (100 vs 200), exactly as the
    theorem says -/
theorem C10_close_touch_counterexample :
    gs.ReachCF ∧ gs.sys.findConn 1 = some xs ∧ gs.WFOp closeOp ∧ xs.closeTarget (some "m") = some "m" ∧
    (gs.sys.db.mbSidesOf "m").length ≤ 2 ∧
    Event.frame 1 .closed true ∈ (gs.sys.step closeOp).out ∧
    (resend (gs.sys.step (.crashIn 1 closeOp)) 9 200 (.int 7) (.int 3) "app" "s1" none none
        (.close (some "m") (some "happy"))).db ≠ (gs.sys.step closeOp).db ∧
    (resend (gs.sys.step (.crashIn 1 closeOp)) 9 200 (.int 7) (.int 3) "app" "s1" none none
        (.close (some "m") (some "happy"))).db = (gs.sys.step closeOp).db.touch "m" 200 ∧
    (gs.sys.step closeOp).db.mailboxes.map (·.updated) = [100] :=
  ⟨gs_reachCF, by decide +kernel, GSys.wfOpB_sound (by decide +kernel), by decide +kernel, by decide +kernel,
    by decide +kernel, by decide +kernel, by decide +kernel, by decide +kernel⟩

/-- a third side has touched the mailbox (it was refused `crowded`, its side row stays) -/
def Hk : List Op :=
  Hs ++ [ .connect 3, bind 3 100 "s3", .recv 3 100 (.int 2) (.open_ (some "m")) ]
def gk : GSys := (GSys.init cfg 0).run Hk
theorem gk_reachCF : gk.ReachCF :=
  GSys.reachCF_run (.init cfg 0) Hk (GSys.wfB_sound (by decide +kernel)) (by decide)

/-- **K-crowded-rejoin after a crash**: without the guard (three side rows, the closing connection holds
    a handle) the original close is answered `closed` but the re-sent one -- which opens first -- is
    answered `crowded` -/
theorem C10_close_crowded_counterexample :
    gk.ReachCF ∧ gk.sys.findConn 1 = some xs ∧ gk.WFOp closeOp ∧ xs.closeTarget (some "m") = some "m" ∧
    (gk.sys.db.mbSidesOf "m").length = 3 ∧
    (gk.sys.step closeOp).frames = [.frame 1 (.ack (.int 3)) true, .frame 1 .closed true] ∧
    (resend (gk.sys.step (.crashIn 1 closeOp)) 9 200 (.int 7) (.int 3) "app" "s1" none none
        (.close (some "m") (some "happy"))).frames =
      [.frame 9 (.ack (.int 3)) true, .frame 9 (.error "crowded") true] :=
  ⟨gk_reachCF, by decide +kernel, GSys.wfOpB_sound (by decide +kernel), by decide +kernel, by decide +kernel,
    by decide +kernel, by decide +kernel⟩

/-- the last close of a mailbox: deleted in the uncrashed run; a crash between the UPDATE and the DELETE
    (k = 1) or after the usage commit (k = 2) is completed by the re-sent close, databases EQUAL -/
def Hd : List Op := [ .connect 1, bind 1 10 "s1", .recv 1 100 (.int 2) (.open_ (some "m")) ]
def gd : GSys := (GSys.init cfg 0).run Hd
example : (gd.sys.step closeOp).snaps.length = 3 ∧ (gd.sys.step closeOp).db.mailboxes = [] ∧
    (gd.sys.step (.crashIn 1 closeOp)).db.mailboxes.length = 1 ∧
    (resend (gd.sys.step (.crashIn 1 closeOp)) 9 200 (.int 7) (.int 3) "app" "s1" none none
        (.close (some "m") (some "happy"))).db = (gd.sys.step closeOp).db ∧
    (resend (gd.sys.step (.crashIn 2 closeOp)) 9 200 (.int 7) (.int 3) "app" "s1" none none
        (.close (some "m") (some "happy"))).db = (gd.sys.step closeOp).db := by decide +kernel

end C10bExample

end Wormhole

#print axioms Wormhole.C10_resend_claim
#print axioms Wormhole.C10bExample.C10_close_touch_counterexample
#print axioms Wormhole.C10bExample.C10_close_crowded_counterexample
#print axioms Wormhole.C10_resend_converges_partial
#print axioms Wormhole.C10_resend_close_partial
#print axioms Wormhole.C10_resend_open
#print axioms Wormhole.C10_resend_release
