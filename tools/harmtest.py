#!/usr/bin/env python3
"""Run every registered quick check against property-PRESERVING changes: all must stay quiet.

  tools/harmtest.py <root> [ids...] [--jobs=N] [--out=file] [--props=C01,C02]

<root>/<group>/<k>/patch.diff (+ notes.md).  For each: fresh scratch worktree of /repo, `git apply`, the repository's
test suite (121 must pass), every check from a scratch copy of /verif with VERIF_REPO=<worktree>; the worktree and the
copy are removed afterwards.  A check that exits 1 / prints VIOLATION on such a change is a false alarm.
"""
import sys, os, json, subprocess, shutil, tempfile, time
from concurrent.futures import ThreadPoolExecutor

VERIF = os.path.dirname(os.path.dirname(os.path.abspath(__file__)))
REPO = "/repo"
PY = "/venv/bin/python"


def sh(cmd, cwd=None, env=None, timeout=3000):
    e = dict(os.environ)
    if env:
        e.update(env)
    p = subprocess.run(cmd, cwd=cwd, env=e, stdout=subprocess.PIPE, stderr=subprocess.STDOUT, timeout=timeout)
    return p.returncode, p.stdout.decode(errors="replace")


def one(root, ident, props):
    d = os.path.join(root, ident)
    tag = ident.replace("/", "_")
    wt = tempfile.mkdtemp(prefix="harmwt_%s_" % tag, dir="/tmp")
    os.rmdir(wt)
    vcopy = tempfile.mkdtemp(prefix="verifcopy_%s_" % tag, dir="/tmp")
    res = {"id": ident}
    t0 = time.time()
    try:
        rc, out = sh(["git", "-C", REPO, "worktree", "add", "-q", "--detach", wt, "HEAD"])
        assert rc == 0, out
        rc, out = sh(["git", "-C", wt, "apply", os.path.join(d, "patch.diff")])
        res["applies"] = rc == 0
        if rc != 0:
            res["error"] = out[-400:]
            return res
        rc, out = sh([PY, "-m", "pytest", "-q", "-p", "no:cacheprovider", "--timeout=900"], cwd=wt, env={"PYTHONPATH": wt + "/src"})
        res["tests_pass"] = rc == 0 and "121 passed" in out
        shutil.rmtree(vcopy)
        sh(["cp", "-a", VERIF, vcopy])
        shutil.rmtree(os.path.join(vcopy, ".git"), ignore_errors=True)
        det = {}
        for p in props:
            rc, out = sh(["./check", p, "--tier", "quick"], cwd=vcopy, env={"VERIF_REPO": wt, "VERIF_SEED": os.environ.get("VERIF_SEED", "1")})
            lines = [l for l in out.splitlines() if l.startswith("VIOLATION")]
            notes = [l[:200] for l in out.splitlines() if l.startswith("NOTE:")]
            det[p] = {"rc": rc, "violations": lines[:3], "notes": notes[:2]}
            if rc != 0:
                det[p]["tail"] = out[-500:]
                for l in lines[:1]:
                    rp = l.split("replay=")[1].split(" ")[0]
                    try:
                        det[p]["replay_head"] = open(os.path.join(vcopy, rp)).read()[:2500]
                    except Exception:
                        pass
        res["checks"] = det
        res["alarms"] = sorted(p for p, v in det.items() if v["rc"] != 0)
        res["ties_broken"] = sorted({n.split("(")[0][:60] for v in det.values() for n in v["notes"]})
    except Exception as e:
        res["error"] = "%s: %s" % (type(e).__name__, e)
    finally:
        sh(["git", "-C", REPO, "worktree", "remove", "--force", wt])
        shutil.rmtree(wt, ignore_errors=True)
        shutil.rmtree(vcopy, ignore_errors=True)
        res["wall_s"] = round(time.time() - t0, 1)
    return res


def main():
    args = [a for a in sys.argv[1:] if not a.startswith("--")]
    root, ids = args[0], args[1:]
    if not ids:
        for g in sorted(os.listdir(root)):
            gd = os.path.join(root, g)
            if os.path.isdir(gd):
                for k in sorted(os.listdir(gd)):
                    if os.path.exists(os.path.join(gd, k, "patch.diff")):
                        ids.append("%s/%s" % (g, k))
    props = [c["property_id"] for c in json.load(open(os.path.join(VERIF, "MANIFEST.json")))["checks"]]
    only = [a.split("=")[1] for a in sys.argv if a.startswith("--props=")]
    if only:
        props = only[0].split(",")
    jobs = int(([a.split("=")[1] for a in sys.argv if a.startswith("--jobs=")] or ["3"])[0])
    out = [a.split("=")[1] for a in sys.argv if a.startswith("--out=")]
    with ThreadPoolExecutor(jobs) as ex:
        results = list(ex.map(lambda i: one(root, i, props), ids))
    for r in results:
        print("%-8s tests=%s alarms=%s ties=%s %ss %s" % (r["id"], r.get("tests_pass"), ",".join(r.get("alarms", [])) or "-",
                                                        "; ".join(r.get("ties_broken", [])) or "-", r.get("wall_s"), r.get("error", "")))
    if out:
        json.dump(results, open(out[0], "w"), indent=1)


if __name__ == "__main__":
    main()
