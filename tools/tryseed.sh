#!/bin/sh
# tools/tryseed.sh <seed-dir with patch.diff> <property> [VERIF_SEED ...]   (debugging aid)
# scratch worktree + scratch copy of /verif under /tmp/try_$$; prints the check output and the first replay; cleans up
set -e
D="$1"; P="$2"; shift 2
WT=/tmp/trywt_$$; VC=/tmp/tryvc_$$
git -C /repo worktree add -q --detach $WT HEAD
git -C $WT apply "$D/patch.diff"
cp -a /verif $VC; rm -rf $VC/.git
for S in ${@:-1}; do
  echo "=== VERIF_SEED=$S"
  (cd $VC && VERIF_REPO=$WT VERIF_SEED=$S ./check $P $TRY_ARGS 2>&1 | grep -v "^KNOWN" | tail -5) || true
  for f in $(ls -t $VC/evidence/replays/$P-* 2>/dev/null | head -1); do echo "--- $f"; python3 /tmp/showreplay.py $f; echo; done
  rm -rf $VC/evidence/replays
done
git -C /repo worktree remove --force $WT; rm -rf $VC
