#!/bin/sh
# run every registered check (default quick) on /repo as it is; prints one line per property
cd "$(dirname "$0")/.."
TIER="${1:-quick}"
./check setup >/dev/null 2>&1
for p in $(python3 -c "import json;print(' '.join(c['property_id'] for c in json.load(open('MANIFEST.json'))['checks']))"); do
  ./check $p --tier $TIER --no-build 2>/dev/null | grep -v "^$" | cut -c1-220 | tail -3
done
