#!/usr/bin/env python3
"""Writes the committed replay histories: findings/K-*.json (known findings, still present)
and corpus/F-*.json (defects that were repaired; ordinary corpus members now)."""
import json, os
V = os.path.dirname(os.path.dirname(os.path.abspath(__file__)))
T = 8


def cfg(**kw):
    d = {"op": "cfg", "rebooted": 800, "usage": True, "allow_list": True, "blur": None}
    d.update(kw)
    return d


class H(object):
    def __init__(self, **kw):
        self.h = [cfg(**kw)]
        self.t = 800
        self.n = 0

    def conn(self, c, app, side):
        self.h.append({"op": "connect", "c": c})
        self.recv(c, {"type": "bind", "appid": app, "side": side})
        return self

    def recv(self, c, msg, dt=8, **kw):
        self.t += dt
        self.n += 1
        op = {"op": "recv", "c": c, "t": self.t, "msg": msg}
        if msg.get("type") in ("claim", "allocate"):
            op["fresh"] = kw.pop("fresh", "mbx%d" % self.n)
        op.update(kw)
        self.h.append(op)
        return self

    def op(self, **kw):
        self.h.append(kw)
        return self

    def sweep(self, dt):
        self.t += dt
        self.h.append({"op": "sweep", "now": self.t, "fault": False})
        return self


def save(d, name, history, properties, meta=None, what=""):
    os.makedirs(os.path.join(V, d), exist_ok=True)
    with open(os.path.join(V, d, name + ".json"), "w") as f:
        json.dump({"what": what, "properties": properties, "meta": meta or {}, "history": history}, f, indent=1)


# ---------------------------------------------------------------- known findings (still present)
h = H()
h.conn(1, "a", "s1").recv(1, {"type": "claim", "nameplate": "7"}, fresh="mb7").recv(1, {"type": "open", "mailbox": "mb7"})
h.conn(2, "a", "s2").recv(2, {"type": "claim", "nameplate": "7"}).recv(2, {"type": "open", "mailbox": "mb7"})
h.conn(3, "a", "s3").recv(3, {"type": "claim", "nameplate": "7"})          # crowded, row stays
h.recv(1, {"type": "close", "mood": "happy"})                                # closed (s2 still open)
h.conn(4, "a", "s1").recv(4, {"type": "claim", "nameplate": "7"})          # first-two side refused
h.conn(5, "a", "s1").recv(5, {"type": "open", "mailbox": "mb7"})
h.conn(6, "a", "s1").recv(6, {"type": "close", "mailbox": "mb7"})
save("findings", "K-crowded-rejoin", h.h, ["C03", "C05", "C08", "C14", "C10"], {"resend": True},
     "after a third side touched a mailbox, a first-two side on a new connection is answered crowded")

h = H()
h.conn(1, "a", "s1").recv(1, {"type": "open", "mailbox": "m"})
h.conn(2, "b", "s1").recv(2, {"type": "open", "mailbox": "m"})
h.conn(3, "b", "s2").recv(3, {"type": "close", "mailbox": "m"})
h.recv(2, {"type": "ping", "ping": 1})
save("findings", "K-global-mailbox-id", h.h, ["C06", "C17"], {},
     "a mailbox id in use by one app cannot be opened or closed by another app: IntegrityError escapes the handler")

h = H()
h.conn(1, "a", "s1").recv(1, {"type": "open", "mailbox": "m"})
h.conn(2, "a", "s2").recv(2, {"type": "open", "mailbox": "m"})
h.recv(1, {"type": "close", "mood": "happy"}, dt=800)
h.conn(3, "a", "s2").recv(3, {"type": "list"}, dt=80)
save("findings", "K-close-touch", h.h, ["C14", "C10"], {"resend": True},
     "a re-sent close of a mailbox that survives stamps mailboxes.updated with the time of the repeat")

h = H()
h.conn(1, "a", "s1").recv(1, {"type": "open", "mailbox": "m"})
h.recv(1, {"type": "add", "phase": "p", "body": "00", "id": 5})
h.recv(1, {"type": "add", "phase": 3, "body": "01", "id": "x"})
h.conn(2, "a", "s2").recv(2, {"type": "open", "mailbox": "m"})
save("findings", "K-id-coercion", h.h, ["C01"], {},
     "an integer id or phase of an add is replayed as its decimal string")

h = H(usage=False)
for k in range(1, 1001):
    h.h.append({"op": "connect", "c": k, "_nodump": True})
    h.h.append({"op": "recv", "c": k, "t": 808, "msg": {"type": "bind", "appid": "a", "side": "s"}, "_nodump": True})
    h.h.append({"op": "recv", "c": k, "t": 808, "msg": {"type": "claim", "nameplate": str(k)}, "fresh": "f%d" % k, "_nodump": True})
    h.h.append({"op": "drop", "c": k, "_nodump": k != 1000})
h.h.append({"op": "connect", "c": 2000})
h.h.append({"op": "recv", "c": 2000, "t": 816, "msg": {"type": "bind", "appid": "a", "side": "z"}})
h.h.append({"op": "recv", "c": 2000, "t": 816, "msg": {"type": "allocate"}, "fresh": "never", "pick": 0, "draws": [1000] * 1000})
h.h.append({"op": "recv", "c": 2000, "t": 824, "msg": {"type": "ping", "ping": 1}})
save("findings", "K-alloc-exhaust", h.h, ["C17"], {},
     "allocate with all of 1-999 taken and every random draw taken: ValueError escapes the handler")

h = H()
h.conn(1, "a", "s1").recv(1, {"type": "claim", "nameplate": "4"}, fresh="mb4")
h.recv(1, {"type": "release", "nameplate": "4"}, dt=80)
h.conn(2, "a", "s2").recv(2, {"type": "open", "mailbox": "mq"})
h.recv(2, {"type": "close", "mailbox": "mq", "mood": "happy"}, dt=80)
save("findings", "K-usage-crash-dup", h.h, ["C10"], {"resend": True},
     "a crash between the usage commit and the channel commit of release/close: the re-sent command writes the usage record a second time")

h = H()
h.conn(1, "a", "s1").recv(1, {"type": "open", "mailbox": "mg"})
h.recv(1, {"type": "close", "mood": "happy"}, dt=80)
h.conn(2, "a", "s2").recv(2, {"type": "list"})
save("findings", "K-reclose-usage-row", h.h, ["C10"], {"resend": True},
     "a re-sent close of a mailbox that is already gone records a phantom mailbox (total_time 0) in the usage database")

h = H()
h.conn(1, "a", "s1").recv(1, {"type": "open", "mailbox": "m"}).recv(1, {"type": "add", "phase": "p", "body": "00"})
h.conn(2, "a", "s2").recv(2, {"type": "open", "mailbox": "m"})
h.recv(1, {"type": "close", "mood": "happy"})
h.conn(3, "a", "s1").recv(3, {"type": "open", "mailbox": "m"})          # s1 again: subscribed, replayed, but opened stays 0
h.recv(2, {"type": "close", "mood": "happy"})                            # deletes the mailbox under connection 3
h.recv(3, {"type": "add", "phase": "q", "body": "01"})
save("findings", "K-reopen-after-close", h.h, ["C08"], {},
     "a side that closed a mailbox and opens it again is subscribed but its side record stays closed: the other side's close deletes the mailbox under it")

# ---------------------------------------------------------------- repaired defects (corpus)
# F-close-key (a): two sides on one nameplate, both open, both close -> IntegrityError before the repair
h = H()
h.conn(1, "a", "s1").recv(1, {"type": "claim", "nameplate": "7"}, fresh="mb7").recv(1, {"type": "open", "mailbox": "mb7"})
h.conn(2, "a", "s2").recv(2, {"type": "claim", "nameplate": "7"}).recv(2, {"type": "open", "mailbox": "mb7"})
h.recv(1, {"type": "close", "mood": "happy"}).recv(2, {"type": "close", "mood": "happy"})
h.conn(3, "a", "s3").recv(3, {"type": "list"})
save("corpus", "F-close-key-a", h.h, ["C06", "C07", "C08", "C09", "C13", "C15", "C17"], {},
     "two sides claim one nameplate, both open, both close")

# (b) one side holds two nameplates over two connections; closing the mailbox of one must not end the other claim
h = H()
h.conn(1, "a", "s1").recv(1, {"type": "claim", "nameplate": "1"}, fresh="mb1").recv(1, {"type": "open", "mailbox": "mb1"})
h.conn(2, "a", "s1").recv(2, {"type": "claim", "nameplate": "2"}, fresh="mb2")
h.recv(1, {"type": "close", "mood": "happy"})
h.conn(3, "a", "s9").recv(3, {"type": "list"})
h.op(op="drop", c=1).op(op="drop", c=2).op(op="drop", c=3)
h.sweep(700 * T)
save("corpus", "F-close-key-b", h.h, ["C07", "C08", "C13", "C15", "C17"], {"quiesce": True},
     "a side holding two nameplates closes the mailbox of one")

# (c) the same across apps
h = H()
h.conn(1, "a", "s1").recv(1, {"type": "claim", "nameplate": "1"}, fresh="mba").recv(1, {"type": "open", "mailbox": "mba"})
h.conn(2, "b", "s1").recv(2, {"type": "claim", "nameplate": "1"}, fresh="mbb")
h.recv(1, {"type": "close", "mood": "happy"})
h.conn(3, "b", "s9").recv(3, {"type": "list"})
save("corpus", "F-close-key-c", h.h, ["C06", "C07", "C08"], {}, "app a's close must not end app b's claim of the same side string")

# F-close-usage: close deletes a still-claimed nameplate: one usage record for it
h = H()
h.conn(1, "a", "s1").recv(1, {"type": "claim", "nameplate": "4"}, fresh="mb4").recv(1, {"type": "open", "mailbox": "mb4"})
h.recv(1, {"type": "close", "mood": "lonely"}, dt=80)
save("corpus", "F-close-usage", h.h, ["C15", "C16"], {}, "close with the nameplate still claimed writes the nameplate's usage record")

# F-stale-handle
h = H()
h.conn(1, "a", "s1").recv(1, {"type": "open", "mailbox": "m"})
h.conn(2, "a", "s1").recv(2, {"type": "close", "mailbox": "m"})
h.recv(1, {"type": "add", "phase": "p", "body": "00"})
h.conn(3, "a", "s2").recv(3, {"type": "open", "mailbox": "m"})
h.op(op="drop", c=1).op(op="drop", c=2).op(op="drop", c=3)
h.sweep(700 * T)
save("corpus", "F-stale-handle", h.h, ["C01", "C02", "C13", "C17"], {"quiesce": True},
     "add on a connection whose mailbox was deleted by another connection's close")

# F-split-namespace
h = H()
h.conn(1, "a", "s1").recv(1, {"type": "open", "mailbox": "m"})
h.op(op="drop", c=1)
h.t += 8
h.op(op="restart", t=h.t)
h.conn(2, "a", "s1")
h.sweep(8)
h.conn(3, "a", "s2")
h.recv(2, {"type": "open", "mailbox": "m"}).recv(3, {"type": "open", "mailbox": "m"})
h.recv(3, {"type": "add", "phase": "p", "body": "00"})
h.sweep(300 * T).sweep(300 * T).sweep(300 * T)
h.recv(2, {"type": "add", "phase": "q", "body": "01"})
save("corpus", "F-split-namespace", h.h, ["C02", "C11", "C12", "C15"], {},
     "bind before a sweep and bind after it must land in the same namespace")

# F-quiet-crash: crash between the two commits of a first claim, usage db present
h = H()
h.conn(1, "a", "s1")
h.op(op="crash", k=1)
h.recv(1, {"type": "claim", "nameplate": "4"}, fresh="mb4")
h.t += 8
h.op(op="restart", t=h.t)
h.conn(2, "b", "s1").recv(2, {"type": "open", "mailbox": "mq"}).op(op="drop", c=2)
h.sweep(700 * T)
h.sweep(300 * T)
save("corpus", "F-quiet-crash", h.h, ["C10", "C13", "C09"], {"quiesce": True},
     "a mailbox without side rows (crash inside claim) must not break the sweeps")
print("written")
