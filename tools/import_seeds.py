#!/usr/bin/env python3
"""Copy confirmed seeded defects into /verif/seeded/<id>/ with meta.json.
usage: tools/import_seeds.py <seed-root> <results.json> [<results2.json> ...]  (later files override detection data)"""
import sys, os, json, shutil
V = os.path.dirname(os.path.dirname(os.path.abspath(__file__)))
root = sys.argv[1]
res = {}
for f in sys.argv[2:]:
    for r in json.load(open(f)):
        old = res.get(r["id"], {})
        merged = dict(old)
        merged.update({k: v for k, v in r.items() if k != "checks"})
        checks = dict(old.get("checks", {}))
        checks.update(r.get("checks", {}))
        merged["checks"] = checks
        res[r["id"]] = merged
for ident, r in sorted(res.items()):
    if not r.get("confirmed"):
        print("skip (not confirmed)", ident); continue
    prop, var = ident.split("/")
    sid = prop + var
    d = os.path.join(V, "seeded", sid)
    os.makedirs(d, exist_ok=True)
    for fn in ("patch.diff", "demo.py", "notes.md"):
        shutil.copy(os.path.join(root, ident, fn), os.path.join(d, fn))
    notes = open(os.path.join(root, ident, "notes.md")).read()
    det = {p: {"exit": v["rc"], "lines": v.get("violations", [])} for p, v in sorted(r.get("checks", {}).items())
           if v["rc"] == 1 and v.get("violations")}
    with_input = sorted(p for p, v in det.items() if any("no-failing-input-found" not in l for l in v["lines"]))
    meta = {
        "id": sid, "breaks_property": prop,
        "origin": "written by an independent sub-agent that was given only the property text and a scratch worktree (nothing from /verif)",
        "needs_to_manifest": "see notes.md (first paragraphs): " + " ".join(notes.split())[:600],
        "confirmed_by_me": {
            "how": "tools/seedtest.py: fresh scratch worktree of /repo HEAD, git apply patch.diff; full test suite; demo.py on patched and on clean tree",
            "test_suite_with_patch": r.get("tests"), "demo_exit_patched": r.get("demo_patched_rc"), "demo_exit_clean": r.get("demo_clean_rc")},
        "checks_run": ("every registered quick check" if len(r.get("checks", {})) > 3 else "the quick check of the property the change targets (%s)" % ", ".join(sorted(r.get("checks", {})))) + ", from a scratch copy of /verif with VERIF_REPO=<patched worktree>",
        "detected_by": sorted(det), "detected_with_failing_input_by": with_input,
        "target_property_detected": prop in det,
        "target_property_detected_with_input": prop in with_input,
        "violation_lines": det.get(prop, {}).get("lines", []),
    }
    json.dump(meta, open(os.path.join(d, "meta.json"), "w"), indent=1)
    print(sid, "target:", meta["target_property_detected"], "with input:", meta["target_property_detected_with_input"])
