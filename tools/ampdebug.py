#!/usr/bin/env python3
"""debugging aid: tools/ampdebug.py <worktree> <property> <replay.json>  -> findings of every continuation"""
import sys, os, json
V = os.path.dirname(os.path.dirname(os.path.abspath(__file__)))
wt, pid, rp = sys.argv[1:4]
os.environ["VERIF_REPO"] = wt
sys.path[:0] = [wt + "/src", V + "/harness"]
import check, amplify, proto
from props import info
d = json.load(open(rp))
meta = d.get("meta", {})
for name, h2, m2 in [("as-is", d["history"], meta)] + amplify.continuations(d["history"], meta, info()):
    r = check.run_history(pid, h2, m2)
    print("==", name, len(h2), "ops; findings:", [(f["clause"], f["known"]) for f in r["findings"]][:4], "diff:", bool(r["diff"]))
    if "-v" in sys.argv:
        for o in h2[len(d["history"]):]:
            print("     ", proto.op_line(o))
