#!/usr/bin/env python3
"""Confirm seeded defects and run the checks against them.

  tools/seedtest.py <seed-root> [ids...]      e.g. tools/seedtest.py /root/seed_out_backup C01/a C05/b

For every <prop>/<variant> directory holding patch.diff + demo.py:
  1. fresh scratch worktree of /repo (outside /repo and /verif), `git apply patch.diff`;
  2. the repository's test suite must still pass (121);
  3. demo.py must FAIL on the patched tree and PASS on the clean tree;
  4. every registered check (quick) is run against the patched tree from a scratch copy of
     /verif (so /verif's Generated.lean, build and evidence are not disturbed);
  5. the worktree and the copy are removed.
Results: JSON on stdout / --out file.
"""
import sys, os, json, subprocess, shutil, tempfile, time
from concurrent.futures import ThreadPoolExecutor

VERIF = os.path.dirname(os.path.dirname(os.path.abspath(__file__)))
REPO = "/repo"
PY = "/venv/bin/python"


def sh(cmd, cwd=None, env=None, timeout=3000):
    e = dict(os.environ)
    if env:
        e.update(env)
    p = subprocess.run(cmd, cwd=cwd, env=e, stdout=subprocess.PIPE, stderr=subprocess.STDOUT, timeout=timeout,
                       shell=isinstance(cmd, str))
    return p.returncode, p.stdout.decode(errors="replace")


VSEEDS = [a.split("=")[1].split(",") for a in sys.argv if a.startswith("--vseeds=")]
VSEEDS = VSEEDS[0] if VSEEDS else [os.environ.get("VERIF_SEED", "1")]


def one(seed_root, ident, props, keep_checks):
    d = os.path.join(seed_root, ident)
    tag = ident.replace("/", "_")
    wt = tempfile.mkdtemp(prefix="mutwt_%s_" % tag, dir="/tmp")
    os.rmdir(wt)
    vcopy = tempfile.mkdtemp(prefix="verifcopy_%s_" % tag, dir="/tmp")
    res = {"id": ident, "property": ident.split("/")[0]}
    t0 = time.time()
    try:
        rc, out = sh(["git", "-C", REPO, "worktree", "add", "-q", "--detach", wt, "HEAD"])
        assert rc == 0, out
        rc, out = sh(["git", "-C", wt, "apply", os.path.join(d, "patch.diff")])
        res["applies"] = rc == 0
        if rc != 0:
            res["error"] = out[-500:]
            return res
        rc, out = sh([PY, "-m", "pytest", "-q", "-p", "no:cacheprovider", "--timeout=900"], cwd=wt,
                     env={"PYTHONPATH": wt + "/src"})
        res["tests"] = out.strip().splitlines()[-1] if out.strip() else ""
        res["tests_pass"] = rc == 0 and "121 passed" in out
        rc1, out1 = sh([PY, "-W", "ignore", os.path.join(d, "demo.py")], cwd=vcopy, env={"PYTHONPATH": wt + "/src"}, timeout=1200)
        rc0, out0 = sh([PY, "-W", "ignore", os.path.join(d, "demo.py")], cwd=vcopy, env={"PYTHONPATH": REPO + "/src"}, timeout=1200)
        res["demo_patched_rc"], res["demo_clean_rc"] = rc1, rc0
        res["confirmed"] = bool(res["tests_pass"] and rc1 != 0 and rc0 == 0)
        # checks
        shutil.rmtree(vcopy)
        sh(["cp", "-a", VERIF, vcopy])
        shutil.rmtree(os.path.join(vcopy, ".git"), ignore_errors=True)
        det = {}
        for p0 in [(p, vs) for p in props for vs in VSEEDS]:
            p, vs = p0
            rc, out = sh(["./check", p, "--tier", "quick"], cwd=vcopy, env={"VERIF_REPO": wt, "VERIF_SEED": vs}, timeout=3000)
            lines = [l for l in out.splitlines() if l.startswith("VIOLATION")]
            if len(VSEEDS) > 1:
                p = "%s@%s" % (p, vs)
            det[p] = {"rc": rc, "violations": lines[:3]}
            if rc == 1 and keep_checks:
                for l in lines[:1]:
                    rp = l.split("replay=")[1].split(" ")[0]
                    try:
                        det[p]["replay_head"] = open(os.path.join(vcopy, rp)).read()[:1500]
                    except Exception:
                        pass
            if rc not in (0, 1):
                det[p]["out"] = out[-600:]
        res["checks"] = det
        res["detected_by"] = sorted(p for p, v in det.items() if v["rc"] == 1)
        res["detected_with_input"] = sorted(p for p, v in det.items() if v["rc"] == 1 and any("no-failing-input-found" not in l for l in v["violations"]))
    except Exception as e:
        res["error"] = "%s: %s" % (type(e).__name__, e)
    finally:
        sh(["git", "-C", REPO, "worktree", "remove", "--force", wt])
        shutil.rmtree(wt, ignore_errors=True)
        shutil.rmtree(vcopy, ignore_errors=True)
        res["wall_s"] = round(time.time() - t0, 1)
    return res


def main():
    args = [a for a in sys.argv[1:] if not a.startswith("--")]
    seed_root = args[0]
    ids = args[1:]
    if not ids:
        for p in sorted(os.listdir(seed_root)):
            for v in sorted(os.listdir(os.path.join(seed_root, p))):
                if os.path.exists(os.path.join(seed_root, p, v, "patch.diff")):
                    ids.append("%s/%s" % (p, v))
    props = [c["property_id"] for c in json.load(open(os.path.join(VERIF, "MANIFEST.json")))["checks"]]
    only = [a.split("=")[1] for a in sys.argv if a.startswith("--props=")]
    if only:
        props = only[0].split(",")
    jobs = int(([a.split("=")[1] for a in sys.argv if a.startswith("--jobs=")] or ["3"])[0])
    out = [a.split("=")[1] for a in sys.argv if a.startswith("--out=")]
    target_only = "--target-only" in sys.argv
    with ThreadPoolExecutor(jobs) as ex:
        results = list(ex.map(lambda i: one(seed_root, i, [i.split("/")[0]] if target_only else props, True), ids))
    for r in results:
        print("%-7s confirmed=%s tests=%s demo(patched/clean)=%s/%s detected_by=%s with_input=%s %ss %s" % (
            r["id"], r.get("confirmed"), r.get("tests_pass"), r.get("demo_patched_rc"), r.get("demo_clean_rc"),
            ",".join(r.get("detected_by", [])), ",".join(r.get("detected_with_input", [])), r.get("wall_s"), r.get("error", "")))
    if out:
        json.dump(results, open(out[0], "w"), indent=1)


if __name__ == "__main__":
    main()
